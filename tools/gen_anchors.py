#!/usr/bin/env python3
"""Freeze the private-name inventory of /repo's package (names, arity, call fingerprint) into xsa/anchors.json.

The rules name private helpers of xdeps as anchors.  A behaviour-preserving rename of such a helper must not break the
analysis: when an expected name is missing and the class (module) has a private name this inventory does not know, the
loader (xsa.core) pairs them by fingerprint and analyses the renamed definition under its old name.  The inventory holds
names and call-graph shape only -- no source text -- and is consulted only when a name is missing.
Run on the pinned tree:  python3 tools/gen_anchors.py [--repo /repo]
"""
import argparse, ast, json, sys
from pathlib import Path

sys.path.insert(0, str(Path(__file__).resolve().parent.parent))
from xsa.core import fingerprint_module  # noqa: E402


def main():
    ap = argparse.ArgumentParser()
    ap.add_argument("--repo", default="/repo")
    a = ap.parse_args()
    root = Path(a.repo)
    out = {}
    for p in sorted((root / "xdeps").rglob("*.py")):
        rel = p.relative_to(root).as_posix()
        out[rel] = fingerprint_module(ast.parse(p.read_text()))
    dst = Path(__file__).resolve().parent.parent / "xsa" / "anchors.json"
    dst.write_text(json.dumps(out, indent=1, sort_keys=True))
    print("wrote", dst, sum(len(v) for m in out.values() for v in m.values()), "names")


if __name__ == "__main__":
    main()
