#!/usr/bin/env python3
"""Run every property check against behaviour-preserving refactorings: all must stay exit 0.

usage: benigntest.py [--dir DIR] [ids...]
Each dir holds patch.diff (+ meta.json). A scratch copy of /repo's tracked files is made under
/tmp, the patch applied there, all 20 checks run with --repo <scratch> --no-evidence, copy removed.
Exit 1 if any check is not silent (exit 1 = false alarm, exit 2 = cannot decide).
"""
import argparse, json, shutil, subprocess, sys, tempfile
from pathlib import Path
from concurrent.futures import ThreadPoolExecutor

VERIF = Path(__file__).resolve().parent.parent
PROPS = [f"C{i:02d}" for i in range(1, 21)]


def scratch_copy():
    d = Path(tempfile.mkdtemp(prefix="xsa_benign_"))
    subprocess.check_call(f"cd /repo && git ls-files -z | xargs -0 cp --parents -t {d}", shell=True)
    return d


ONLY = []


def run_one(seed: Path):
    d = scratch_copy()
    try:
        r = subprocess.run(["git", "apply", "--whitespace=nowarn", str(seed / "patch.diff")], cwd=d, capture_output=True, text=True)
        if r.returncode != 0:
            return seed.name, {"apply": r.stderr[-300:]}
        if ONLY:
            outs = []
            for p in ONLY:
                cc = subprocess.run(["python3-vt", "-m", "xsa", "check", p, "--repo", str(d), "--no-evidence"],
                                    cwd=VERIF, capture_output=True, text=True)
                outs.append(cc.stdout)
            c = type("R", (), {"stdout": "\n".join(outs)})()
        else:
            c = subprocess.run(["python3-vt", "-m", "xsa", "all", "--repo", str(d), "--no-evidence"],
                               cwd=VERIF, capture_output=True, text=True)
        bad = {}
        cur = None
        lines = c.stdout.splitlines()
        for i, l in enumerate(lines):
            if l.startswith("VIOLATION"):
                p = l.split("property=")[1].split()[0]
                bad.setdefault(p, []).append(("V", lines[i + 1].strip() if i + 1 < len(lines) else ""))
            elif l.startswith("ANALYSIS-ERROR"):
                p = l.split("property=")[1].split()[0]
                bad.setdefault(p, []).append(("E", l[:300]))
        return seed.name, bad
    finally:
        shutil.rmtree(d, ignore_errors=True)


def main():
    ap = argparse.ArgumentParser()
    ap.add_argument("--dir", default=str(VERIF / "benign"))
    ap.add_argument("--props", default="")
    ap.add_argument("ids", nargs="*")
    a = ap.parse_args()
    ONLY.extend(p for p in a.props.split(",") if p)
    base = Path(a.dir)
    seeds = sorted(p for p in base.iterdir() if (p / "patch.diff").exists())
    if a.ids:
        seeds = [s for s in seeds if any(s.name.startswith(i) for i in a.ids)]
    noisy = 0
    alarms = undecided = 0
    with ThreadPoolExecutor(8) as ex:
        for name, bad in ex.map(run_one, seeds):
            if not bad:
                print(f"{name:14s} silent")
                continue
            noisy += 1
            if any(k == "V" for items in bad.values() if isinstance(items, list) for k, _ in items):
                alarms += 1
                print(f"{name:14s} NOISY (false alarm)")
            else:
                undecided += 1
                print(f"{name:14s} NOISY (cannot decide)")
            if "apply" in bad:
                print("      apply failed:", bad["apply"])
                continue
            for p, items in bad.items():
                for kind, text in items:
                    print(f"      {p} {'false alarm' if kind == 'V' else 'cannot decide'}: {text[:220]}")
    print(f"noisy: {noisy}/{len(seeds)}  (false alarms: {alarms}, cannot decide only: {undecided})")
    return 1 if noisy else 0


if __name__ == "__main__":
    sys.exit(main())
