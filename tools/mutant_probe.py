#!/usr/bin/env python3
"""Apply one mutant of xsa.mutate to a scratch copy of /repo and run checks on it (validation tooling).
usage: mutant_probe.py <rel file> <qualified function> <operator> <what substring> [occurrence] [--props C08,C07]"""
import ast, shutil, subprocess, sys
from pathlib import Path
VERIF = Path(__file__).resolve().parent.parent
sys.path.insert(0, str(VERIF))
sys.path.insert(0, str(VERIF / "tools"))
from xsa.mutate import PROPS_OF_FILE, ALL_PROPS, functions, mutants_of, apply  # noqa: E402
from selftest import make_scratch  # noqa: E402

args = [a for a in sys.argv[1:] if not a.startswith("--props")]
props = next((a.split("=", 1)[1].split(",") for a in sys.argv[1:] if a.startswith("--props=")), None)
rel, qual, op, what = args[:4]
occ = int(args[4]) if len(args) > 4 else None
src = (Path("/repo") / rel).read_text()
cands = [(o, d, k, h) for o, d, k, h in mutants_of(functions(ast.parse(src))[qual]) if o == op and what in d]
print(f"{len(cands)} matching mutants")
for i, (o, d, k, h) in enumerate(cands):
    if occ is not None and i != occ:
        continue
    dst = make_scratch()
    try:
        tree = ast.parse((dst / rel).read_text())
        fn = functions(tree)[qual]
        apply(fn, k, h)
        ast.fix_missing_locations(tree)
        (dst / rel).write_text(ast.unparse(tree))
        out = []
        for p in props or PROPS_OF_FILE.get(rel, ALL_PROPS):
            c = subprocess.run(["python3-vt", "-m", "xsa", "check", p, "--repo", str(dst), "--no-evidence"], cwd=VERIF, capture_output=True, text=True)
            if c.returncode:
                first = [l.strip()[:150] for l in c.stdout.splitlines() if l.startswith("  rule") or l.startswith("ANALYSIS")][:1]
                out.append(f"{p}:{c.returncode} {first}")
        print(f"[{i}] {o} `{d}` ->", out or "SILENT")
    finally:
        shutil.rmtree(dst, ignore_errors=True)
