#!/usr/bin/env python3
"""Run the checks against seeded breakages without touching /repo.

usage: seedtest.py [--dir DIR] [--props C01,C02] [--all-props] [ids...]
Each seed dir holds patch.diff + meta.json; a scratch copy of /repo's working tree
is made under /tmp, the patch applied there, the property's check run with
--repo <scratch>, and the scratch copy removed.
"""
import argparse, json, os, shutil, subprocess, sys, tempfile
from pathlib import Path
from concurrent.futures import ThreadPoolExecutor

VERIF = Path(__file__).resolve().parent.parent

def scratch_copy():
    d = Path(tempfile.mkdtemp(prefix="xsa_seed_"))
    subprocess.check_call(f"cd /repo && git ls-files -z | xargs -0 cp --parents -t {d}", shell=True)
    return d

def run_one(seed: Path, props):
    meta = json.loads((seed / "meta.json").read_text()) if (seed / "meta.json").exists() else {}
    prop = meta.get("property") or seed.name.split("_")[0]
    d = scratch_copy()
    try:
        r = subprocess.run(["git", "apply", "--whitespace=nowarn", str(seed / "patch.diff")], cwd=d, capture_output=True, text=True)
        if r.returncode != 0:
            r = subprocess.run(["patch", "-p1", "-i", str(seed / "patch.diff")], cwd=d, capture_output=True, text=True)
            if r.returncode != 0:
                return seed.name, prop, {"apply": "FAILED " + r.stdout[-200:] + r.stderr[-200:]}
        res = {}
        for p in (props or [prop]):
            c = subprocess.run(["python3-vt", "-m", "xsa", "check", p, "--repo", str(d), "--no-evidence"],
                               cwd=VERIF, capture_output=True, text=True)
            lines = [l for l in c.stdout.splitlines() if l.startswith(("  rule", "ANALYSIS-ERROR"))]
            res[p] = (c.returncode, lines[:4])
        return seed.name, prop, res
    finally:
        shutil.rmtree(d, ignore_errors=True)

def main():
    ap = argparse.ArgumentParser()
    ap.add_argument("--dir", default=str(VERIF / "seeded"))
    ap.add_argument("--props", default="")
    ap.add_argument("--all-props", action="store_true")
    ap.add_argument("--verbose", "-v", action="store_true", help="also print the rules of other properties that fired")
    ap.add_argument("ids", nargs="*")
    a = ap.parse_args()
    base = Path(a.dir)
    seeds = sorted(p for p in base.iterdir() if (p / "patch.diff").exists())
    if a.ids:
        seeds = [s for s in seeds if any(s.name.startswith(i) for i in a.ids)]
    props = [p for p in a.props.split(",") if p]
    if a.all_props:
        props = [f"C{i:02d}" for i in range(1, 21)]
    missed = 0
    with ThreadPoolExecutor(12) as ex:
        for name, prop, res in ex.map(lambda s: run_one(s, props), seeds):
            own = res.get(prop)
            status = "?"
            if own is not None:
                status = {0: "MISSED", 1: "caught", 2: "exit2"}.get(own[0], str(own[0]))
                if own[0] != 1:
                    missed += 1
            others = {p: v[0] for p, v in res.items() if p != prop and isinstance(v, tuple) and v[0] != 0}
            print(f"{name:10s} {prop} {status:7s} {('others:' + str(others)) if others else ''}")
            if own is not None:
                for l in own[1]:
                    print("      " + l.strip()[:160])
            if a.verbose:
                for p, v in res.items():
                    if p != prop and isinstance(v, tuple) and v[0] != 0:
                        for l in v[1][:2]:
                            print(f"      [{p}] " + l.strip()[:200])
            if "apply" in res:
                print("      ", res["apply"])
    print(f"not caught: {missed}/{len(seeds)}")

if __name__ == "__main__":
    main()
