#!/usr/bin/env python3
"""Which surviving mutants of the self-test also survive /repo's test suite?

A mutant that no check reports *and* that the 76 tests do not notice is the realistic kind of undetected breakage.
This is validation tooling (it runs the test suite on scratch copies outside /repo and /verif); it is not used by any
registered check.  usage: survivors_vs_suite.py [--in out/selftest_targets.json] [--jobs 12] [--filter SUBSTR]
"""
import argparse, ast, json, os, shutil, subprocess, sys, tempfile
from concurrent.futures import ThreadPoolExecutor
from pathlib import Path

VERIF = Path(__file__).resolve().parent.parent
sys.path.insert(0, str(VERIF))
from xsa.mutate import functions, mutants_of, apply  # noqa: E402

REPO = Path("/repo")
PY = "/venv/bin/python"
SKIP = ("print", "logger", "_print", "verbose", "logging")


def job(j):
    rel, qual, op, what, kk = j
    d = Path(tempfile.mkdtemp(prefix="xsa_surv_"))
    try:
        subprocess.check_call(f"cd {REPO} && git ls-files -z | xargs -0 cp --parents -t {d}", shell=True)
        for so in (REPO / "xdeps").glob("*.so"):
            shutil.copy(so, d / "xdeps")
        path = d / rel
        tree = ast.parse(path.read_text())
        fn = functions(tree).get(qual)
        if fn is None:
            return j, "gone"
        hit = None
        for o, desc, k, how in mutants_of(fn):
            if o == op and desc == what and (kk is None or k == kk):
                hit = (k, how)
                break
        if hit is None or not apply(fn, *hit):
            return j, "gone"
        ast.fix_missing_locations(tree)
        path.write_text(ast.unparse(tree))
        if rel.endswith("refs.py"):
            subprocess.run(f"{PY} setup.py build_ext --inplace > /dev/null 2>&1; rm -rf build", shell=True, cwd=d)
        r = subprocess.run(f"{PY} -m pytest -q -x -p no:cacheprovider --deselect tests/test_table.py::test_table_from_methods 2>&1 | tail -1",
                           shell=True, cwd=d, capture_output=True, text=True, timeout=900, env={**os.environ, "PYTHONPATH": str(d)})
        tail = r.stdout.strip()
        import re
        bad = re.search(r"\b\d+ (failed|error)", tail)
        return j, "suite-passes" if (" passed" in tail and not bad) else "suite-fails"
    except Exception as e:
        return j, f"error {type(e).__name__}"
    finally:
        shutil.rmtree(d, ignore_errors=True)


def main():
    ap = argparse.ArgumentParser()
    ap.add_argument("--in", dest="inp", default=str(VERIF / "out" / "selftest_targets.json"))
    ap.add_argument("--jobs", type=int, default=12)
    ap.add_argument("--filter", default="")
    ap.add_argument("--out", default=str(VERIF / "out" / "survivors_vs_suite.json"))
    a = ap.parse_args()
    rows = json.loads(Path(a.inp).read_text())
    jobs = [(r["file"], r["function"], r["operator"], r["what"], r.get("k")) for r in rows
            if not r["killed_by"] and not r["cannot_decide"] and not any(k in r["what"] for k in SKIP) and a.filter in (r["file"] + r["function"])]
    print(len(jobs), "surviving mutants to run against the suite")
    res = []
    with ThreadPoolExecutor(a.jobs) as ex:
        for j, verdict in ex.map(job, jobs):
            res.append({"file": j[0], "function": j[1], "operator": j[2], "what": j[3], "k": j[4], "suite": verdict})
    Path(a.out).write_text(json.dumps(res, indent=1))
    ok = [r for r in res if r["suite"] == "suite-passes"]
    print(f"{len(ok)} of {len(res)} also pass the test suite:")
    for r in ok:
        print(f"  {r['file'].split('/')[-1]}:{r['function']}: {r['operator']} `{r['what']}`")


if __name__ == "__main__":
    main()
