#!/usr/bin/env python3
"""Regenerate /verif/MANIFEST.json from the rule modules present in xsa/rules."""
import importlib
import json
import sys
from pathlib import Path

VERIF = Path(__file__).resolve().parent.parent
sys.path.insert(0, str(VERIF))

NOT_APPLICABLE = {
    # property id -> reason (only for properties with no claimed check)
}

COMMON = ("functions are normalised first (private helpers, generator helpers and context managers dissolved; match statements, conditional "
          "expressions and spelled-out iteration lowered) and evaluated symbolically (locals, temporaries, comprehensions, records dissolved "
          "into terms over parameters/fields); rules match terms and ask path questions (dominance, must-pass-through, flag/sentinel-refined "
          "reachability) on a hand-built CFG; thorough tier adds a sensitivity audit (recorded breakages/refactorings and anchor-function "
          "mutants re-analysed statically on scratch copies; figures only)")
TECH = {
    "C01": "CFG must-pass-through/dominance on Manager.set_value over symbolic call events; trigger-closure terms of find_tasks/find_taskids; "
           "reverse-post-order DFS template on flag-refined paths; call-graph recursion check; in-place operator table; adopted: dependency read sets (C05), register/unregister inverse effects",
    "C02": "loop/term rules on run_tasks; DFS template; symbolic index-effect summary of register vs the docstring reference; inverse "
           "effects with iteration-space (multiplicity) comparison; adopted: task dependency sets are full read sets (C05)",
    "C03": "symbolic index-effect summaries of register/unregister compared as inverses incl. multiplicity; must-know path rule "
           "(unregistered-or-absent) in set_value/load; RefCount semantics on terms; order-insensitive self-check; no registration over a live one; trigger closure free of history-dependent state",
    "C04": "exhaustive table check on terms: dunder -> node class -> value term of _get_value against the Python data model; navigation refuses only reserved names; _expr guarded",
    "C05": "slot flow on terms: slots read through _mk_value vs slots traversed, must-traverse on every path; path-sensitive nullness "
           "of the dispatch family; accumulator discipline",
    "C06": "field-set agreement between _hash tuples and __repr__ terms, lossless rendering contexts, injective templates, __eq__ return terms; _hash stored only by __cinit__; steps recorded verbatim (navigation, assignment entry points)",
    "C07": "symbolic writer inventory of Table + CFG rule: every write that may hit the index column reaches an invalidation conditioned "
           "on nothing but the key; resolver/parser terms",
    "C08": "selector as (conditions, returned term) pairs: nullness, bound roles, order of gathered positions, routing of rows/indices/mask; range bounds only in element-wise comparisons",
    "C09": "CFG must-pass-through on Optimize.solve (good-branch formulation), handler ordering, typestate of the tolerance flag, "
           "must-call in JacobianSolver.eval, reload store terms; adopted: knobs left = point evaluated last (C15)",
    "C10": "call-signature conformance, enable/disable pairing on paths, guard conditions of knob stores, limit tests, mask plumbing and "
           "post-masking stores on terms; ordering of temporary masks vs start-point logging and take_best reload; fresh limit arrays; clip scale = largest ratio",
    "C11": "repr completeness/precedence rules per node class; dump/load/copy_expr_from as terms (namespace accumulator, overwrite paths)",
    "C12": "__reduce__ return terms vs __cinit__ parameter->field map on all paths; Manager pickle-safety incl. class-level state; __getstate__ purity; default containers survive pickling (contents in the items slot)",
    "C13": "generated source as a normalised string-template term (header, assignments, one schedule); gen_fun exec term; shared scheduler rules; adopted: unconditional store/propagation (C01), fresh evaluation of operands and callee (C04)",
    "C14": "freshness (escape) of column lists/data dicts reaching verify=False constructors on terms; uniform selection contributions; "
           "row-axis concatenation; attribute existence; no source mutation; whole-column rebinding only for new keys",
    "C15": "path-sensitive per-key append count over the step-loop body region and add_point_to_log; take_best window terms and "
           "dominance of the start-point logging; row consistency; log() built afresh; published result arrays not modified afterwards; adopted: tolerance flag (C09), committed = last evaluated (C10)",
    "C16": "symbolic shape inference over terms; sympy identities on the scaling-map terms; Broyden secant-pair and finite-difference templates; truncation options are this call's; adopted: limits through the knob->x map (C10)",
    "C17": "frozen-guard conditions of every symbolic index effect, interprocedural fixpoint over Manager methods; who-may-write; "
           "refuse-before-write ordering; fresh schedule",
    "C18": "handler inventory on the update path; no manager-state effects while running; retry re-runs everything (must-pass rules); no task under iterator adaptors; adopted: DFS template",
    "C19": "lark parse of the grammar constant: alias/callback exhaustiveness, operator agreement; evaluator wiring and statelessness on terms; "
           "shared operand-algebra and dependency rules; adopted: navigation",
    "C20": "__cinit__ order-independence and signature agreement along each MRO; enforced-type annotations; compiled-branch inventory; "
           "set-typed iteration terms reaching order-sensitive sinks; build-independent routing in __setattr__ (path signatures); C-typed fields/locals; no ordering on hash values; adopted: inverse effects and trigger closure",
}


# obligations added / adopted in round 7 (session 5), appended to the technique text of the property
ROUND7 = {
    "C01": "adopted (round 7): both directions of every ordering edge written by register (C02), refusal of a frozen manager before anything is removed (C17)",
    "C02": "adopted (round 7): every index reset before re-registration, rebuild only through register (C03)",
    "C04": "adopted (round 7): the zero-division guard covers the division only (C18)",
    "C05": "adopted (round 7): a definition is replaced by unregister + register, never by swapping task.expr (C01)",
    "C06": "adopted (round 7): the hash is taken from the fields as stored (C20 field-assigned-by-one-cinit)",
    "C08": "round 7: name spans with a named column look both names up in that column",
    "C09": "round 7: target values read after the action loop was passed (must-pass-through from entry)",
    "C10": "adopted (round 7): reload restores the knob flags from the vary column (C09), x -> knob map works on a copy (C16)",
    "C11": "round 7: owner recognised by identity (condition terms of _check_root_owner), overwrite defaults, reference path for any BaseRef",
    "C12": "round 7: no __reduce__ of a reference class raises",
    "C13": "adopted (round 7): every _get_value is Python's operator on the evaluated operands (C04.R1/R2)",
    "C14": "round 7: no store into a selector argument or an uncopied view of it; adopted: single selector implementation (C08)",
    "C15": "round 7: start point logged on every path of its helper; adopted: target values read at the evaluated point (C09)",
    "C16": "round 7: float array before the in-place division by the weights; adopted: solver seeded from current knobs (C09)",
    "C18": "round 7: set_value never evaluates its target; housekeeping methods change no definition; adopted: no C function that cannot carry an exception (C20)",
    "C20": "round 7: decorator scan for C signatures that drop exceptions; adopted: full read sets (C05)",
}


def main():
    props = [json.loads(l) for l in (VERIF / "properties.jsonl").read_text().splitlines() if l.strip()]
    checks = []
    na = []
    for p in props:
        pid = p["id"]
        modpath = VERIF / "xsa" / "rules" / f"{pid.lower()}.py"
        if not modpath.exists() or pid in NOT_APPLICABLE:
            na.append({"property_id": pid, "reason": NOT_APPLICABLE.get(pid, "static check not built yet (work in progress); no verdict is claimed")})
            continue
        mod = importlib.import_module(f"xsa.rules.{pid.lower()}")
        meta = mod.META
        checks.append({
            "property_id": pid,
            "quick_cmd": f"python3-vt -m xsa check {pid} --tier quick",
            "thorough_cmd": f"python3-vt -m xsa check {pid} --tier thorough",
            "evidence_file": f"/verif/evidence/{pid}.json",
            "replay_cmd_template": "python3-vt -m xsa replay {path}",
            "engine": "xsa",
            "level_claimed": {
                "category": "other",
                "text": "Static discharge of structural obligations derived from /repo's current source (no execution). "
                        f"Decides: {meta['decides']}. Not decided: {meta['not_decided']}.",
                "design_ref": f"DESIGN.md section 3, {pid}",
            },
            "level_note": "Trusted base: CPython ast, the xsa engine (program model, CFG, dataflow), networkx, the Python "
                          "data-model tables in xsa. Assumes: " + "; ".join(meta.get("assumptions", [])),
            "technique": "static analysis: " + TECH[pid] + ("; " + ROUND7[pid] if pid in ROUND7 else "") + ". Engine: " + COMMON,
        })
    manifest = {
        "version": 1,
        "setup_cmd": "python3-vt -c \"import ast, networkx, lark, jsonschema, sympy, sys; sys.path.insert(0, '/verif'); import xsa.core, xsa.cfg; print('xsa ready')\"",
        "hooks": {
            "guard": "XDEPS_VERIF",
            "enable": "none: the checks are static and need no instrumentation of /repo (guard name reserved, unused)",
            "baseline_off_cmd": "cd /repo && /venv/bin/python -m pytest -ra -q -p no:cacheprovider --timeout=900 --continue-on-collection-errors",
            "source_commits": [],
            "add_only": True,
        },
        "engines": [{
            "name": "xsa",
            "path": "/verif/xsa",
            "serves_properties": [c["property_id"] for c in checks],
            "kind_free_text": "repository-specific static analyser: ast program model; source normaliser (helper inlining, lowering); "
                              "hand-built statement CFG on networkx (dominators, must-pass-through, boolean-flag refinement); reaching "
                              "definitions; symbolic term evaluator with accumulators, condition normalisation and term matching; "
                              "symbolic index-effect summaries; term-level shape inference; sympy for algebraic identities; lark for the "
                              "MAD-X grammar constant; per-property rule modules",
        }],
        "checks": checks,
        "not_applicable": na,
        "notes": "All checks are static (exit 0 holds / 1 VIOLATION / 2 ANALYSIS-ERROR = cannot decide). Known findings: "
                 "/verif/KNOWN_FINDINGS.txt. Seeded breakages used to validate the checks: /verif/seeded/. See DESIGN.md.",
    }
    (VERIF / "MANIFEST.json").write_text(json.dumps(manifest, indent=1) + "\n")
    import jsonschema
    jsonschema.validate(manifest, json.loads(Path("/root/.vp/MANIFEST.schema.json").read_text()))
    print(f"MANIFEST.json: {len(checks)} checks, {len(na)} not_applicable; valid")


if __name__ == "__main__":
    main()
