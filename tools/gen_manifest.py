#!/usr/bin/env python3
"""Regenerate /verif/MANIFEST.json from the rule modules present in xsa/rules."""
import importlib
import json
import sys
from pathlib import Path

VERIF = Path(__file__).resolve().parent.parent
sys.path.insert(0, str(VERIF))

NOT_APPLICABLE = {
    # property id -> reason (only for properties with no claimed check)
}

TECH = {
    "C01": "CFG must-pass-through/dominance + reaching definitions on Manager.set_value; DFS template check; call-graph recursion check",
    "C02": "CFG/AST template rules on run_tasks, toposort/_dfs; index-effect summary of register vs docstring reference",
    "C03": "symbolic index-effect summaries of register/unregister compared as inverses; CFG ordering in set_value/load",
    "C04": "exhaustive AST table check: dunder -> node class -> _get_value operator against the Python data model",
    "C05": "field-flow analysis: fields read by _get_value vs fields traversed by _get_dependencies; nullness of the dispatch family",
    "C06": "field-set agreement between _hash tuples and __repr__ renderings; injectivity of rendering per class",
    "C07": "writer inventory + CFG dominance: every write to the index column / cache inputs reaches a cache invalidation",
    "C08": "nullness + bound-role dataflow in _get_row_indices; unordered-to-ordered flow; single-selector routing",
    "C09": "CFG must-pass-through on Optimize.solve; typestate (flag assigned on every path) on MeritFunctionForMatch.__call__",
    "C10": "call-signature conformance, enable/disable pairing, guard dominance of knob writes, limit-test shape",
    "C11": "repr completeness/precedence rules per node class; dataflow of printed text on the dump/load/copy path",
    "C12": "__reduce__ tuple vs __cinit__ parameter->field map; Manager attribute pickle-safety",
    "C13": "template check of mk_fun/gen_fun (task list from find_tasks, header, assignments, tasks once in order)",
    "C14": "alias/escape analysis of column lists into verify=False constructors; attribute existence; no source mutation",
    "C15": "path-sensitive per-key append count over the CFG of the logging regions; take_best window dataflow",
    "C16": "symbolic shape inference over numpy expressions; inverse-pair and finite-difference template checks",
    "C17": "dominance of every definition/index mutation by the frozen guard, interprocedural over Manager methods; who-may-write",
    "C18": "handler inventory on the update path; effect summary of run_tasks; no early exit between write and propagation",
    "C19": "lark parse of the grammar constant: alias/callback exhaustiveness, operator agreement, evaluator wiring",
    "C20": "__cinit__ order-independence and signature agreement along each MRO; compiled-branch inventory; unordered-flow inventory",
}


def main():
    props = [json.loads(l) for l in (VERIF / "properties.jsonl").read_text().splitlines() if l.strip()]
    checks = []
    na = []
    for p in props:
        pid = p["id"]
        modpath = VERIF / "xsa" / "rules" / f"{pid.lower()}.py"
        if not modpath.exists() or pid in NOT_APPLICABLE:
            na.append({"property_id": pid, "reason": NOT_APPLICABLE.get(pid, "static check not built yet (work in progress); no verdict is claimed")})
            continue
        mod = importlib.import_module(f"xsa.rules.{pid.lower()}")
        meta = mod.META
        checks.append({
            "property_id": pid,
            "quick_cmd": f"python3-vt -m xsa check {pid} --tier quick",
            "thorough_cmd": f"python3-vt -m xsa check {pid} --tier thorough",
            "evidence_file": f"/verif/evidence/{pid}.json",
            "replay_cmd_template": "python3-vt -m xsa replay {path}",
            "engine": "xsa",
            "level_claimed": {
                "category": "other",
                "text": "Static discharge of structural obligations derived from /repo's current source (no execution). "
                        f"Decides: {meta['decides']}. Not decided: {meta['not_decided']}.",
                "design_ref": f"DESIGN.md section 3, {pid}",
            },
            "level_note": "Trusted base: CPython ast, the xsa engine (program model, CFG, dataflow), networkx, the Python "
                          "data-model tables in xsa. Assumes: " + "; ".join(meta.get("assumptions", [])),
            "technique": "static analysis: " + TECH[pid],
        })
    manifest = {
        "version": 1,
        "setup_cmd": "python3-vt -c \"import ast, networkx, lark, jsonschema, sympy, sys; sys.path.insert(0, '/verif'); import xsa.core, xsa.cfg; print('xsa ready')\"",
        "hooks": {
            "guard": "XDEPS_VERIF",
            "enable": "none: the checks are static and need no instrumentation of /repo (guard name reserved, unused)",
            "baseline_off_cmd": "cd /repo && /venv/bin/python -m pytest -ra -q -p no:cacheprovider --timeout=900 --continue-on-collection-errors",
            "source_commits": [],
            "add_only": True,
        },
        "engines": [{
            "name": "xsa",
            "path": "/verif/xsa",
            "serves_properties": [c["property_id"] for c in checks],
            "kind_free_text": "repository-specific static analyser: ast program model, hand-built statement CFG on networkx "
                              "(dominators, must-pass-through), reaching definitions, symbolic index-effect summaries, "
                              "per-property rule modules; lark for the MAD-X grammar constant",
        }],
        "checks": checks,
        "not_applicable": na,
        "notes": "All checks are static (exit 0 holds / 1 VIOLATION / 2 ANALYSIS-ERROR = cannot decide). Known findings: "
                 "/verif/KNOWN_FINDINGS.txt. Seeded breakages used to validate the checks: /verif/seeded/. See DESIGN.md.",
    }
    (VERIF / "MANIFEST.json").write_text(json.dumps(manifest, indent=1) + "\n")
    import jsonschema
    jsonschema.validate(manifest, json.loads(Path("/root/.vp/MANIFEST.schema.json").read_text()))
    print(f"MANIFEST.json: {len(checks)} checks, {len(na)} not_applicable; valid")


if __name__ == "__main__":
    main()
