#!/usr/bin/env python3
"""Mutation self-test of the checks: AST-computed single-point mutants of /repo/xdeps on scratch copies.

Two populations:
  * TARGET functions (the anchors of the properties): a mutant that changes behaviour there should be killed
    (exit 1) by at least one check; survivors are listed for review (some are equivalent mutants, some are gaps).
  * BYSTANDER functions (no property depends on them: plotting, printing, pandas export, ...): every check must stay
    silent (exit 0) on every mutant there -- an alarm is a false alarm of the machinery.

usage: selftest.py [--targets|--bystanders|--all] [--filter SUBSTR] [--limit N] [--jobs N] [--out FILE]
Nothing is written to /repo; scratch copies live under a temporary directory and are removed.
"""
import argparse
import ast
import copy
import json
import os
import shutil
import subprocess
import sys
import tempfile
from concurrent.futures import ThreadPoolExecutor
from pathlib import Path

VERIF = Path(__file__).resolve().parent.parent
REPO = Path("/repo")
sys.path.insert(0, str(VERIF))
from xsa.mutate import (PROPS_OF_FILE, ALL_PROPS, TARGETS, BYSTANDERS, functions, mutants_of, apply)  # noqa: E402


def make_scratch():
    d = Path(tempfile.mkdtemp(prefix="xsa_self_"))
    subprocess.check_call(f"cd {REPO} && git ls-files -z | xargs -0 cp --parents -t {d}", shell=True)
    return d


def run_mutant(job):
    rel, qual, op, desc, k, how, props = job
    d = make_scratch()
    try:
        path = d / rel
        tree = ast.parse(path.read_text())
        fn = functions(tree).get(qual)
        if fn is None or not apply(fn, k, how):
            return job, None
        ast.fix_missing_locations(tree)
        path.write_text(ast.unparse(tree))
        res = {}
        for p in props:
            c = subprocess.run(["python3-vt", "-m", "xsa", "check", p, "--repo", str(d), "--no-evidence"], cwd=VERIF, capture_output=True, text=True)
            if c.returncode != 0:
                rules = [l.strip()[:110] for l in c.stdout.splitlines() if l.startswith("  rule")][:2]
                err = [l[:160] for l in c.stdout.splitlines() if l.startswith("ANALYSIS-ERROR")][:1]
                res[p] = (c.returncode, rules or err)
        return job, res
    finally:
        shutil.rmtree(d, ignore_errors=True)


def baseline_unparse_ok():
    """ast.unparse of the untouched files must leave every check silent (the mutation vehicle itself is neutral)"""
    d = make_scratch()
    try:
        for rel in set(TARGETS) | set(BYSTANDERS):
            p = d / rel
            if p.exists():
                p.write_text(ast.unparse(ast.parse(p.read_text())))
        c = subprocess.run(["python3-vt", "-m", "xsa", "all", "--repo", str(d), "--no-evidence"], cwd=VERIF, capture_output=True, text=True)
        return c.returncode == 0, c.stdout[-400:]
    finally:
        shutil.rmtree(d, ignore_errors=True)


def main():
    ap = argparse.ArgumentParser()
    ap.add_argument("--targets", action="store_true")
    ap.add_argument("--bystanders", action="store_true")
    ap.add_argument("--all", action="store_true")
    ap.add_argument("--filter", default="")
    ap.add_argument("--ops", default="", help="comma-separated operator names to restrict to")
    ap.add_argument("--limit", type=int, default=0)
    ap.add_argument("--jobs", type=int, default=14)
    ap.add_argument("--out", default=str(VERIF / "out" / "selftest.json"))
    a = ap.parse_args()
    ok, tail = baseline_unparse_ok()
    print("baseline (ast.unparse round trip of all files):", "silent" if ok else "NOT SILENT\n" + tail)
    if not ok:
        return 2
    pops = []
    if a.targets or a.all or not (a.targets or a.bystanders):
        pops.append(("target", TARGETS))
    if a.bystanders or a.all:
        pops.append(("bystander", BYSTANDERS))
    jobs = []
    for kind, table in pops:
        for rel, quals in table.items():
            src = (REPO / rel).read_text()
            fns = functions(ast.parse(src))
            for q in quals:
                if q not in fns:
                    print(f"  (no such function {rel}:{q})")
                    continue
                if a.filter and a.filter not in q and a.filter not in rel:
                    continue
                props = ALL_PROPS if kind == "bystander" else PROPS_OF_FILE.get(rel, ALL_PROPS)
                for op, desc, k, how in mutants_of(fns[q]):
                    if a.ops and op not in a.ops.split(","):
                        continue
                    jobs.append((kind, (rel, q, op, desc, k, how, props)))
    if a.limit:
        import random
        random.Random(1).shuffle(jobs)
        jobs = jobs[:a.limit]
    print(f"{len(jobs)} mutants")
    results = []
    with ThreadPoolExecutor(a.jobs) as ex:
        for (kind, job), (_, res) in zip(jobs, ex.map(run_mutant, [j for _, j in jobs])):
            if res is None:
                continue
            rel, q, op, desc, k, how, props = job
            killed = sorted(p for p, (rc, _) in res.items() if rc == 1)
            undecided = sorted(p for p, (rc, _) in res.items() if rc == 2)
            results.append({"kind": kind, "file": rel, "function": q, "operator": op, "what": desc, "k": k, "how": how, "killed_by": killed, "cannot_decide": undecided,
                            "first_rules": {p: v[1] for p, v in res.items()}})
    tk = [r for r in results if r["kind"] == "target"]
    bs = [r for r in results if r["kind"] == "bystander"]
    if tk:
        killed = [r for r in tk if r["killed_by"]]
        und = [r for r in tk if not r["killed_by"] and r["cannot_decide"]]
        print(f"targets: {len(killed)}/{len(tk)} killed, {len(und)} only 'cannot decide', {len(tk) - len(killed) - len(und)} survived")
        byfn = {}
        for r in tk:
            s = byfn.setdefault(r["function"], [0, 0])
            s[1] += 1
            s[0] += bool(r["killed_by"])
        for fn_, (k_, n_) in sorted(byfn.items(), key=lambda x: x[1][0] / max(1, x[1][1])):
            print(f"   {fn_:50s} {k_}/{n_}")
    if bs:
        noisy = [r for r in bs if r["killed_by"] or r["cannot_decide"]]
        print(f"bystanders: {len(bs) - len(noisy)}/{len(bs)} silent")
        for r in noisy[:40]:
            print("   ALARM", r["function"], r["operator"], r["what"], r["first_rules"])
    Path(a.out).parent.mkdir(parents=True, exist_ok=True)
    Path(a.out).write_text(json.dumps(results, indent=1))
    print("written", a.out)
    return 0


if __name__ == "__main__":
    sys.exit(main())
