#!/usr/bin/env python3
"""Print the normal form of a function (debugging aid): show_normal_form.py [--repo DIR] Class.method | module:function [keep,...]"""
import ast, sys
from pathlib import Path
sys.path.insert(0, str(Path(__file__).resolve().parent.parent))
from xsa.core import Repo
from xsa.rules.common import sctx
a = sys.argv[1:]
root = "/repo"
if a and a[0] == "--repo":
    root = a[1]; a = a[2:]
repo = Repo(Path(root))
keep = a[1].split(",") if len(a) > 1 else ()
if ":" in a[0]:
    mod, fn = a[0].split(":")
    sx = sctx(repo, None, fn, mod, keep=keep)
else:
    cls, fn = a[0].split(".")
    sx = sctx(repo, cls, fn, keep=keep)
print(ast.unparse(sx.cx.fn))
print("# inlined:", sx.cx.inlined)
print("# opaque:", sx.cx.opaque)
