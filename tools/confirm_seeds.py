#!/usr/bin/env python3
"""Confirm candidate seeded breakages in scratch worktrees of /repo (never in /repo itself).

For each candidate dir (patch.diff, demo.py, meta.json):
  1. fresh worktree of /repo HEAD under /tmp/confirm/<id>, compiled extension rebuilt there
  2. demo passes on the unmodified worktree
  3. patch applies; extension rebuilt if refs.py changed
  4. demo fails with the patch
  5. the test suite gives the baseline result with the patch
Confirmed candidates are copied to /verif/seeded/<id>/ with the commands run recorded in meta.json.
usage: confirm_seeds.py [--src /tmp/seed/out] [ids...]
"""
import argparse, json, os, shutil, subprocess, sys
from concurrent.futures import ThreadPoolExecutor
from pathlib import Path

VERIF = Path(__file__).resolve().parent.parent
PY = "/venv/bin/python"


def sh(cmd, cwd, timeout=900, env=None):
    e = dict(os.environ)
    e.update(env or {})
    r = subprocess.run(cmd, shell=True, cwd=cwd, capture_output=True, text=True, timeout=timeout, env=e)
    return r.returncode, (r.stdout + r.stderr)


def build(wt):
    return sh(f"{PY} setup.py build_ext --inplace > /dev/null 2>&1; rm -rf build", wt)


def confirm(seed: Path):
    sid = seed.name
    wt = Path("/tmp/confirm") / sid
    log = []
    try:
        if wt.exists():
            sh(f"git -C /repo worktree remove --force {wt}", "/")
        rc, out = sh(f"git -C /repo worktree add -q --detach {wt} HEAD", "/")
        if rc:
            return sid, False, "worktree: " + out[-200:]
        shutil.copy("/repo/xdeps/refs.cpython-312-x86_64-linux-gnu.so", wt / "xdeps")
        env = {"PYTHONPATH": str(wt)}
        rc0, out0 = sh(f"{PY} {seed}/demo.py", wt, env=env, timeout=600)
        log.append(f"demo on unmodified worktree: exit {rc0}")
        if rc0 != 0:
            return sid, False, "demo does not pass on the unmodified tree: " + out0[-300:]
        rc, out = sh(f"git apply --whitespace=nowarn {seed}/patch.diff", wt)
        if rc:
            return sid, False, "patch does not apply: " + out[-300:]
        touched = subprocess.check_output(["git", "diff", "--name-only"], cwd=wt, text=True).split()
        if "xdeps/refs.py" in touched:
            build(wt)
            log.append("rebuilt the extension from the patched refs.py")
        rc1, out1 = sh(f"{PY} {seed}/demo.py", wt, env=env, timeout=600)
        log.append(f"demo with the patch: exit {rc1}")
        if rc1 == 0:
            return sid, False, "demo still passes with the patch"
        rc2, out2 = sh(f"{PY} -m pytest -q -p no:cacheprovider -x --deselect tests/test_table.py::test_table_from_methods 2>&1 | tail -3", wt, timeout=900)
        tail = out2.strip().splitlines()[-1] if out2.strip() else ""
        log.append(f"suite with the patch: {tail}")
        import re as _re
        if "76 passed" not in tail or _re.search(r"\b\d+ (failed|error)", tail):
            return sid, False, "suite changed: " + tail
        return sid, True, log
    except Exception as e:
        return sid, False, f"{type(e).__name__}: {e}"
    finally:
        sh(f"git -C /repo worktree remove --force {wt}", "/")


def main():
    ap = argparse.ArgumentParser()
    ap.add_argument("--src", default="/tmp/seed/out")
    ap.add_argument("ids", nargs="*")
    a = ap.parse_args()
    src = Path(a.src)
    seeds = sorted(p for p in src.iterdir() if (p / "patch.diff").exists() and (p / "demo.py").exists())
    if a.ids:
        seeds = [s for s in seeds if any(s.name.startswith(i) for i in a.ids)]
    os.makedirs("/tmp/confirm", exist_ok=True)
    with ThreadPoolExecutor(8) as ex:
        for sid, ok, info in ex.map(confirm, seeds):
            print(sid, "CONFIRMED" if ok else "REJECTED", info if not ok else "")
            if ok:
                dst = VERIF / "seeded" / sid
                dst.mkdir(parents=True, exist_ok=True)
                for f in ("patch.diff", "demo.py"):
                    shutil.copy(src / sid / f, dst / f)
                meta = json.loads((src / sid / "meta.json").read_text()) if (src / sid / "meta.json").exists() else {}
                meta["confirmed"] = info
                meta["confirmed_against"] = subprocess.check_output(["git", "-C", "/repo", "rev-parse", "--short", "HEAD"], text=True).strip()
                meta["origin"] = "independent sub-agent given only the property text and its own scratch worktree"
                (dst / "meta.json").write_text(json.dumps(meta, indent=1))
    sh("git -C /repo worktree prune", "/")


if __name__ == "__main__":
    main()
