#!/usr/bin/env python3
"""Re-run the checks on the mutants that survived both the checks and /repo's test suite (out/survivors_vs_suite.json).

Validation tooling only (scratch copies outside /repo and /verif).  usage: recheck_survivors.py [--jobs 14] [--filter SUBSTR]
"""
import argparse, ast, json, sys
from concurrent.futures import ThreadPoolExecutor
from pathlib import Path

VERIF = Path(__file__).resolve().parent.parent
sys.path.insert(0, str(VERIF))
sys.path.insert(0, str(VERIF / "tools"))
from xsa.mutate import PROPS_OF_FILE, ALL_PROPS, functions, mutants_of  # noqa: E402
from selftest import run_mutant  # noqa: E402

REPO = Path("/repo")


def main():
    ap = argparse.ArgumentParser()
    ap.add_argument("--in", dest="inp", default=str(VERIF / "out" / "survivors_vs_suite.json"))
    ap.add_argument("--jobs", type=int, default=14)
    ap.add_argument("--filter", default="")
    a = ap.parse_args()
    rows = [r for r in json.loads(Path(a.inp).read_text()) if r["suite"] == "suite-passes" and a.filter in (r["file"] + r["function"])]
    jobs = []
    for r in rows:
        fns = functions(ast.parse((REPO / r["file"]).read_text()))
        fn = fns.get(r["function"])
        if fn is None:
            continue
        for op, desc, k, how in mutants_of(fn):
            if op == r["operator"] and desc == r["what"] and (r.get("k") is None or r["k"] == k):
                jobs.append((r["file"], r["function"], op, desc, k, how, PROPS_OF_FILE.get(r["file"], ALL_PROPS)))
    print(len(jobs), "suite-passing survivors re-checked")
    killed = und = 0
    left = []
    with ThreadPoolExecutor(a.jobs) as ex:
        for job, res in ex.map(run_mutant, jobs):
            if res is None:
                continue
            k = sorted(p for p, (rc, _) in res.items() if rc == 1)
            u = sorted(p for p, (rc, _) in res.items() if rc == 2)
            if k:
                killed += 1
            elif u:
                und += 1
            else:
                left.append(job)
    print(f"now reported: {killed}; cannot decide: {und}; still silent: {len(left)}")
    for j in left:
        print(f"  {j[0].split('/')[-1]}:{j[1]}: {j[2]} `{j[3]}`")


if __name__ == "__main__":
    main()
