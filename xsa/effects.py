"""Index-effect summaries of Manager.register / Manager.unregister.

A method body is interpreted over *symbolic origins*: the loop structure is
turned into a set of abstract effects

    (index, key-origin, value-origin, op, loops, guard)

where origins are strings such as `TASKID`, `∈deps`, `∈targets`,
`∈tartasks[∈deps]`.  The summary is invariant under renaming locals,
reordering statements and introducing temporaries.
"""
from __future__ import annotations

import ast
from dataclasses import dataclass
from typing import Dict, List, Optional, Tuple

from . import astutil as A
from .core import AnalysisError

TRANSPARENT_CALLS = {"list", "tuple", "set", "sorted", "frozenset", "iter", "reversed"}
TRANSPARENT_METHODS = {"copy", "keys"}

ADDERS = {"append": 1, "add": 1}
BULK_ADDERS = {"extend", "update"}
REMOVERS = {"remove", "discard"}


@dataclass(frozen=True)
class Effect:
    index: str
    key: str
    val: str
    op: str            # '+', '-', 'set', 'delkey', 'clear', '?'
    loops: Tuple[str, ...]
    guard: str         # '' | 'member' | 'haskey' | 'other:<text>'
    line: int

    def triple(self):
        return (self.index, self.key, self.val)

    def short(self):
        sym = {"+": "⊕", "-": "⊖", "set": ":=", "delkey": "del", "clear": "clear"}.get(self.op, self.op)
        if self.op == "delkey":
            return f"del {self.index}[{self.key}]"
        return f"{self.index}[{self.key}] {sym} {self.val}"


class Summarizer:
    def __init__(self, fn: ast.FunctionDef, indices: set, task_param: Optional[str], taskid_param: Optional[str],
                 selfname: str = "self"):
        self.fn = fn
        self.indices = set(indices)
        self.selfname = selfname
        self.env: Dict[str, str] = {}
        if task_param:
            self.env[task_param] = "TASK"
        if taskid_param:
            self.env[taskid_param] = "TASKID"
        self.effects: List[Effect] = []
        self.unknown: List[str] = []
        self._block(A.strip_docstring(fn.body), (), [])

    # ---------------------------------------------------------------- symbolic evaluation
    def sym(self, e, raw: bool = False) -> str:
        if isinstance(e, ast.Name):
            return self.env.get(e.id, f"?{e.id}")
        if isinstance(e, ast.Attribute):
            base = self.sym(e.value) if not (isinstance(e.value, ast.Name) and e.value.id == self.selfname) else "SELF"
            if base == "TASK":
                return {"taskid": "TASKID", "targets": "targets", "dependencies": "deps"}.get(e.attr, f"TASK.{e.attr}")
            if base == "SELF":
                return e.attr if e.attr in self.indices else f"self.{e.attr}"
            return f"{base}.{e.attr}"
        if isinstance(e, ast.Subscript):
            base = self.sym(e.value)
            key = self.sym(e.slice)
            if base == "tasks" and key == "TASKID" and not raw:
                return "TASK"
            return f"{base}[{key}]"
        if isinstance(e, ast.Call):
            fn = e.func
            if isinstance(fn, ast.Name) and fn.id in TRANSPARENT_CALLS and len(e.args) == 1:
                return self.sym(e.args[0])
            if isinstance(fn, ast.Attribute) and fn.attr in TRANSPARENT_METHODS and not e.args:
                return self.sym(fn.value)
            if isinstance(fn, ast.Attribute) and fn.attr == "get" and e.args:
                return f"{self.sym(fn.value)}[{self.sym(e.args[0])}]"
            return f"call:{A.src(e)}"
        if isinstance(e, ast.Constant):
            return repr(e.value)
        return f"expr:{A.src(e)}"

    def _index_of(self, e) -> Optional[Tuple[str, Optional[str]]]:
        """(index, key) if e denotes self.<index>[key] (possibly through an alias); (index, None) for the index itself."""
        s = self.sym(e, raw=True)
        for ix in self.indices:
            if s == ix:
                return ix, None
            if s.startswith(ix + "[") and s.endswith("]"):
                return ix, s[len(ix) + 1:-1]
        return None

    # ---------------------------------------------------------------- statements
    def _guard_kind(self, guards, index, key, val) -> str:
        kinds = []
        for g in guards:
            kinds.append(g)
        if not kinds:
            return ""
        out = []
        for g in kinds:
            if g == ("member", index, key, val):
                out.append("member")
            elif g == ("haskey", index, key):
                out.append("haskey")
            elif g[0] == "frozen":
                continue
            else:
                out.append("other:" + g[-1] if g[0] == "other" else f"other:{g}")
        out = [o for o in out if o]
        if not out:
            return ""
        if all(o in ("member", "haskey") for o in out):
            return out[0]
        return next(o for o in out if o.startswith("other"))

    def _test_guard(self, test):
        """classify an `if` test"""
        parts = A.compare_parts(test)
        if parts and isinstance(parts[1], ast.In):
            left, _, right = parts
            r = self._index_of(right)
            if r:
                ix, key = r
                if key is None:
                    return ("haskey", ix, self.sym(left))
                return ("member", ix, key, self.sym(left))
        return ("other", A.src(test))

    def _emit(self, index, key, val, op, loops, guards, node):
        self.effects.append(Effect(index, key, val, op, tuple(sorted(set(loops))), self._guard_kind(guards, index, key, val),
                                   getattr(node, "lineno", 0)))

    def _block(self, stmts, loops, guards):
        for st in stmts:
            self._stmt(st, loops, guards)

    def _stmt(self, st, loops, guards):
        if A.is_logging_stmt(st):
            return
        if isinstance(st, ast.If):
            g = self._test_guard(st.test)
            if self._is_frozen_guard(st):
                return
            self._block(st.body, loops, guards + [g])
            if st.orelse:
                self._block(st.orelse, loops, guards + [("other", "not " + A.src(st.test))])
            return
        if isinstance(st, ast.For):
            it = self.sym(st.iter)
            names = A.target_names(st.target)
            saved = {n: self.env.get(n) for n in names}
            if len(names) == 1:
                self.env[names[0]] = f"∈{it}"
            else:
                for i, n in enumerate(names):
                    self.env[n] = f"∈{it}.{i}"
            self._block(st.body, loops + (f"∈{it}",), guards)
            for n, v in saved.items():
                if v is None:
                    self.env.pop(n, None)
                else:
                    self.env[n] = v
            if st.orelse:
                self._block(st.orelse, loops, guards)
            return
        if isinstance(st, ast.Assign) and len(st.targets) == 1:
            t = st.targets[0]
            if isinstance(t, ast.Name):
                self.env[t.id] = self.sym(st.value)
                self._expr_effects(st.value, loops, guards)
                return
            r = self._index_of(t) if isinstance(t, ast.Subscript) else None
            if r and r[1] is not None:
                self._emit(r[0], r[1], self.sym(st.value), "set", loops, guards, st)
                return
            if isinstance(t, ast.Attribute) and A.self_attr(t, self.selfname) in self.indices:
                self._emit(t.attr, "*", self.sym(st.value), "rebind", loops, guards, st)
                return
            if isinstance(t, ast.Subscript):
                # store into X[K][V] = n  (count manipulation by hand)
                inner = self._index_of(t.value)
                if inner and inner[1] is not None:
                    self._emit(inner[0], inner[1], self.sym(t.slice), "?", loops, guards, st)
                    return
            self.unknown.append(A.src(st))
            return
        if isinstance(st, ast.Delete):
            for t in st.targets:
                if isinstance(t, ast.Subscript):
                    r = self._index_of(t.value)
                    if r and r[1] is None:
                        self._emit(r[0], self.sym(t.slice), "*", "delkey", loops, guards, st)
                        continue
                    if r and r[1] is not None:
                        self._emit(r[0], r[1], self.sym(t.slice), "-", loops, guards, st)
                        continue
                self.unknown.append(A.src(st))
            return
        if isinstance(st, ast.Expr):
            self._expr_effects(st.value, loops, guards, top=True)
            return
        if isinstance(st, ast.Raise):
            return
        if isinstance(st, ast.Return):
            if st.value is not None:
                self._expr_effects(st.value, loops, guards)
            return
        if isinstance(st, (ast.AugAssign,)):
            b = st.target
            inner = self._index_of(b.value) if isinstance(b, ast.Subscript) else None
            if inner:
                self._emit(inner[0], inner[1] or self.sym(b.slice), self.sym(b.slice), "?", loops, guards, st)
                return
            self.unknown.append(A.src(st))
            return
        if isinstance(st, (ast.Try, ast.While, ast.With)):
            self.unknown.append(f"{type(st).__name__} statement: {A.src(st)[:60]}")
            for sub in getattr(st, "body", []):
                self._stmt(sub, loops, guards + [("other", type(st).__name__)])
            return
        if isinstance(st, (ast.Continue, ast.Break, ast.Assert)):
            self.unknown.append(A.src(st))
            return
        self.unknown.append(A.src(st))

    def _is_frozen_guard(self, st: ast.If) -> bool:
        return ("_tree_frozen" in A.src(st.test)) and any(isinstance(x, ast.Raise) for x in st.body)

    def _expr_effects(self, e, loops, guards, top=False):
        for c in A.calls(e):
            if not isinstance(c.func, ast.Attribute):
                continue
            recv = self._index_of(c.func.value)
            m = c.func.attr
            if recv is None:
                continue
            ix, key = recv
            if key is None:
                # operation on the whole index
                if m in ("pop",) and c.args:
                    self._emit(ix, self.sym(c.args[0]), "*", "delkey", loops, guards, c)
                elif m == "clear":
                    self._emit(ix, "*", "*", "clear", loops, guards, c)
                elif m in ("get", "items", "keys", "values", "__contains__", "copy"):
                    pass
                elif m == "setdefault":
                    pass
                else:
                    self._emit(ix, "*", "*", "?", loops, guards, c)
                continue
            if m in ADDERS and c.args:
                self._emit(ix, key, self.sym(c.args[0]), "+", loops, guards, c)
            elif m in BULK_ADDERS and c.args:
                src_ = self.sym(c.args[0])
                self._emit(ix, key, f"∈{src_}", "+", loops + (f"∈{src_}",), guards, c)
            elif m in REMOVERS and c.args:
                self._emit(ix, key, self.sym(c.args[0]), "-", loops, guards, c)
            elif m == "pop" and c.args:
                self._emit(ix, key, self.sym(c.args[0]), "-", loops, guards, c)
            elif m == "clear":
                self._emit(ix, key, "*", "clear", loops, guards, c)
            elif m in ("get", "items", "keys", "values", "copy", "__contains__"):
                pass
            else:
                self._emit(ix, key, "*", "?", loops, guards, c)


def relevant_loops(e: Effect) -> Tuple[str, ...]:
    """loops that the key/value origins do not already mention multiply the effect"""
    return e.loops


def loops_closed(e: Effect) -> bool:
    """every enclosing loop origin is mentioned by the key or value origin (directly or as a sub-origin)"""
    text = e.key + " " + e.val
    for l in e.loops:
        if l not in text:
            return False
    return True
