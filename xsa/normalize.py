"""Source-to-source normalisation applied to a function before it is analysed.

The rules reason about *what a function does*, not how it is split into helpers or which
expression forms it uses.  This module rewrites a copy of a function's AST into a normal form
(the result is again a valid Python `FunctionDef`, so the CFG / reaching-definition / effect
machinery works on it unchanged):

* **helper inlining** -- a call `self._helper(a, b)` / `_module_helper(a)` to a private helper
  defined in the same class hierarchy / module is replaced by the helper's body with its locals
  renamed (`name__k`), its parameters bound by assignments (`param__k = arg`) and its `return`s
  turned into assignments to `ret__k` (the helper is first brought into single-exit form; helpers
  whose returns sit inside loops/try blocks are left as opaque calls).  Only calls in
  *unconditionally evaluated* positions of a statement are inlined (never the right operand of
  `and`/`or`, a conditional expression's arms, comprehensions, lambdas, `while` tests), so the
  rewrite never makes a conditional effect unconditional.
* **conditional expressions** at statement level become `if` statements
  (`x = a if c else b`, `return a if c else b`, `for v in (a if c else b)`).
* **comprehensions** bound to a name or returned can (opt-in) be lowered to explicit loops that
  `append`/`add`/store into a fresh container.

Everything here is analysis-only: evaluation order inside one statement is not preserved exactly
(hoisted calls run before the rest of the statement), which none of the rules depends on.
"""
from __future__ import annotations

import ast
import copy
from typing import Callable, Dict, List, Optional, Set, Tuple

from . import astutil as A

MARKER = "__xsa_inlined__"


def _contains(node, kinds) -> bool:
    return any(isinstance(n, kinds) for n in ast.walk(node))


def _always_exits(stmts) -> bool:
    if not stmts:
        return False
    last = stmts[-1]
    if isinstance(last, (ast.Return, ast.Raise)):
        return True
    if isinstance(last, ast.If):
        return _always_exits(last.body) and _always_exits(last.orelse)
    if isinstance(last, ast.With):
        return _always_exits(last.body)
    if isinstance(last, ast.Try):
        if _always_exits(last.finalbody):
            return True
        main = _always_exits(last.orelse) if last.orelse else _always_exits(last.body)
        return main and all(_always_exits(h.body) for h in last.handlers)
    return False


def _has_return(stmts) -> bool:
    for st in stmts:
        for n in A.walk(st):
            if isinstance(n, ast.Return):
                return True
    return False


class _CannotInline(Exception):
    pass


def _breaks_set_flag(stmts, flag):
    """the loop body with every `break` of this loop preceded by `flag = True`"""
    out = []
    for st in stmts:
        if isinstance(st, ast.Break):
            out.append(ast.copy_location(ast.Assign(targets=[ast.Name(id=flag, ctx=ast.Store())], value=ast.Constant(value=True), lineno=st.lineno), st))
            out.append(st)
        elif isinstance(st, ast.If):
            st.body = _breaks_set_flag(st.body, flag)
            st.orelse = _breaks_set_flag(st.orelse, flag)
            out.append(st)
        elif isinstance(st, ast.With):
            st.body = _breaks_set_flag(st.body, flag)
            out.append(st)
        elif isinstance(st, ast.Try):
            st.body = _breaks_set_flag(st.body, flag)
            st.orelse = _breaks_set_flag(st.orelse, flag)
            st.finalbody = _breaks_set_flag(st.finalbody, flag)
            for h in st.handlers:
                h.body = _breaks_set_flag(h.body, flag)
            out.append(st)
        else:
            out.append(st)          # nested loops keep their own breaks
    return out


def _tailify(stmts: List[ast.stmt], ret: str) -> List[ast.stmt]:
    """Single-exit form: every `return v` becomes `ret = v`; code after an exiting `if` moves into the other arm."""
    out: List[ast.stmt] = []
    for i, st in enumerate(stmts):
        if isinstance(st, ast.Return):
            val = st.value if st.value is not None else ast.Constant(value=None)
            out.append(ast.copy_location(ast.Assign(targets=[ast.Name(id=ret, ctx=ast.Store())], value=val, lineno=st.lineno), st))
            return out
        if not _has_return([st]):
            out.append(st)
            continue
        rest = stmts[i + 1:]
        if isinstance(st, ast.If):
            b_exit, o_exit = _always_exits(st.body), _always_exits(st.orelse)
            b_ret, o_ret = _has_return(st.body), _has_return(st.orelse)
            new = ast.copy_location(ast.If(test=st.test, body=[], orelse=[]), st)
            if b_exit and o_exit:
                new.body = _tailify(st.body, ret)
                new.orelse = _tailify(st.orelse, ret)
                out.append(new)
                return out
            if b_exit and not o_ret:
                new.body = _tailify(st.body, ret)
                new.orelse = _tailify(list(st.orelse) + rest, ret)
                out.append(new)
                return out
            if o_exit and not b_ret:
                new.body = _tailify(list(st.body) + rest, ret)
                new.orelse = _tailify(st.orelse, ret)
                out.append(new)
                return out
            # an arm that returns on some of its paths and falls through on others: the (short, straight-line) rest is continued in
            # both arms -- `if c: [if d: return a]; X` + REST  ==  if c: [if d: return a]; X; REST  else: REST
            if len(rest) <= 4 and not any(isinstance(n, (ast.For, ast.While, ast.Try, ast.With, ast.FunctionDef, ast.Lambda))
                                          for r_ in rest for n in ast.walk(r_)):
                try:
                    new.body = _tailify(list(st.body) + copy.deepcopy(rest), ret)
                    new.orelse = _tailify(list(st.orelse) + rest, ret)
                except _CannotInline:
                    raise _CannotInline("return in a branch that does not always exit")
                out.append(new)
                return out
            raise _CannotInline("return in a branch that does not always exit")
        if isinstance(st, ast.Try) and not _has_return(st.finalbody) and (not rest or (
                _always_exits(st.body + st.orelse) and all(_always_exits(h.body) for h in st.handlers))):
            # returns inside try/except in tail position: the returned expression is still evaluated inside the try
            new = ast.copy_location(ast.Try(
                body=_tailify(st.body, ret) if not st.orelse else list(st.body),
                handlers=[ast.copy_location(ast.ExceptHandler(type=h.type, name=h.name, body=_tailify(h.body, ret)), h) for h in st.handlers],
                orelse=_tailify(st.orelse, ret) if st.orelse else [],
                finalbody=list(st.finalbody)), st)
            if st.orelse and _has_return(st.body):
                raise _CannotInline("return in a try body that has an else clause")
            out.append(new)
            return out
        if isinstance(st, (ast.For, ast.While)) and not st.orelse and not _has_own_break(st):
            # `for ..: .. return a ..` followed by `rest`: the return becomes `ret = a; break`, the code after the loop
            # runs exactly when the loop was not left that way: it is the loop's else clause
            body = _returns_to_breaks(st.body, ret)
            tail = _tailify(rest, ret) if rest else []
            if isinstance(st, ast.For):
                new = ast.For(target=st.target, iter=st.iter, body=body, orelse=tail, type_comment=None)
            else:
                new = ast.While(test=st.test, body=body, orelse=tail)
            out.append(ast.copy_location(new, st))
            ast.fix_missing_locations(new)
            return out
        if isinstance(st, (ast.For, ast.While)) and st.orelse and not _has_return(st.body) and _always_exits(st.orelse) and _has_own_break(st):
            # `for ..: .. break .. / else: return a` followed by `rest` (reached only through the break): a flag says how the loop was left
            flag = f"{ret}_broke"
            body = _breaks_set_flag(copy.deepcopy(st.body), flag)
            if isinstance(st, ast.For):
                loop = ast.For(target=st.target, iter=st.iter, body=body, orelse=[], type_comment=None)
            else:
                loop = ast.While(test=st.test, body=body, orelse=[])
            init = ast.Assign(targets=[ast.Name(id=flag, ctx=ast.Store())], value=ast.Constant(value=False), lineno=st.lineno)
            choose = ast.If(test=ast.Name(id=flag, ctx=ast.Load()), body=_tailify(rest, ret) if rest else [ast.Pass()], orelse=_tailify(st.orelse, ret))
            for x in (init, loop, choose):
                ast.copy_location(x, st)
                ast.fix_missing_locations(x)
            out.extend([init, loop, choose])
            return out
        if isinstance(st, ast.With) and not rest:
            new = ast.copy_location(ast.With(items=st.items, body=_tailify(st.body, ret)), st)
            out.append(new)
            return out
        raise _CannotInline(f"return inside {type(st).__name__}")
    return out


def _walk_own(stmts, loops: bool = True):
    """nodes of a statement list without descending into nested function / class definitions (and, with loops=False,
    without descending into nested loops)"""
    todo = list(stmts)
    while todo:
        n = todo.pop()
        yield n
        for c in ast.iter_child_nodes(n):
            if isinstance(c, (ast.FunctionDef, ast.AsyncFunctionDef, ast.ClassDef, ast.Lambda)):
                continue
            if not loops and isinstance(c, (ast.For, ast.While, ast.AsyncFor)):
                continue
            todo.append(c)


def _has_own_break(loop) -> bool:
    def walk(sts):
        for x in sts:
            if isinstance(x, ast.Break):
                return True
            if isinstance(x, (ast.For, ast.While, ast.AsyncFor, ast.FunctionDef, ast.AsyncFunctionDef, ast.ClassDef)):
                continue
            for f in ("body", "orelse", "finalbody"):
                if walk(getattr(x, f, []) or []):
                    return True
            for h in getattr(x, "handlers", []) or []:
                if walk(h.body):
                    return True
        return False
    return walk(loop.body)


class _RetToBreak(ast.NodeTransformer):
    def __init__(self, ret):
        self.ret = ret

    def visit_Return(self, node):
        val = node.value if node.value is not None else ast.Constant(value=None)
        a = ast.copy_location(ast.Assign(targets=[ast.Name(id=self.ret, ctx=ast.Store())], value=val, lineno=node.lineno), node)
        return [a, ast.copy_location(ast.Break(), node)]

    def _nested(self, node):
        if _has_return([node]):
            raise _CannotInline("return inside a nested loop")
        return node

    visit_For = visit_While = visit_AsyncFor = _nested

    def visit_FunctionDef(self, node):
        return node

    visit_AsyncFunctionDef = visit_Lambda = visit_FunctionDef


def _returns_to_breaks(stmts, ret):
    import copy
    out = []
    tr = _RetToBreak(ret)
    for st in stmts:
        r = tr.visit(copy.deepcopy(st))
        out.extend(r if isinstance(r, list) else [r])
    return out


def _falls_through(stmts) -> bool:
    return not _always_exits(stmts)


class _Renamer(ast.NodeTransformer):
    def __init__(self, mapping: Dict[str, str]):
        self.mapping = mapping

    def visit_Name(self, node):
        if node.id in self.mapping:
            return ast.copy_location(ast.Name(id=self.mapping[node.id], ctx=node.ctx), node)
        return node

    def visit_ExceptHandler(self, node):
        self.generic_visit(node)
        if node.name and node.name in self.mapping:
            node.name = self.mapping[node.name]
        return node


def _spread_tuple_stars(fn):
    """f(*t) where t is bound once, to a tuple display of never-rebound names / constants, is f(a, b, c)"""
    stores: Dict[str, int] = {}
    tuples: Dict[str, ast.Tuple] = {}
    for n in ast.walk(fn):
        if isinstance(n, ast.Name) and isinstance(n.ctx, (ast.Store, ast.Del)):
            stores[n.id] = stores.get(n.id, 0) + 1
        elif isinstance(n, (ast.For, ast.AsyncFor, ast.comprehension)):
            pass
    for n in ast.walk(fn):
        if isinstance(n, ast.Assign) and len(n.targets) == 1 and isinstance(n.targets[0], ast.Name) and isinstance(n.value, ast.Tuple):
            tuples[n.targets[0].id] = n.value
    params = {a.arg for a in fn.args.args + fn.args.kwonlyargs + fn.args.posonlyargs}
    ok = {}
    for name, tup in tuples.items():
        if stores.get(name, 0) != 1 or name in params:
            continue
        if all((isinstance(e, ast.Name) and stores.get(e.id, 0) == 0) or isinstance(e, ast.Constant) for e in tup.elts):
            ok[name] = tup
    if not ok:
        return
    for n in ast.walk(fn):
        if isinstance(n, ast.Call) and any(isinstance(x, ast.Starred) and isinstance(x.value, ast.Name) and x.value.id in ok for x in n.args):
            new_args = []
            for x in n.args:
                if isinstance(x, ast.Starred) and isinstance(x.value, ast.Name) and x.value.id in ok:
                    new_args.extend(copy.deepcopy(e) for e in ok[x.value.id].elts)
                else:
                    new_args.append(x)
            n.args = new_args


def _scalar_replace_records(fn, records: Dict[str, tuple]):
    """A local bound once to a record constructor `r = Rec(a, b)` (Rec a namedtuple of the module) and only read afterwards is
    split into one local per field: `r.f` becomes `r__f`, a bare `r` becomes `Rec(r__f1, r__f2)`.  Mutations through a field
    (`r.data[k] = v`) then are mutations of a plain local, which the term layer follows."""
    stores: Dict[str, list] = {}
    for n in ast.walk(fn):
        if isinstance(n, ast.Name) and isinstance(n.ctx, (ast.Store, ast.Del)):
            stores.setdefault(n.id, []).append(n)
    params = {a.arg for a in fn.args.args + fn.args.kwonlyargs + fn.args.posonlyargs}
    cand = {}
    for n in ast.walk(fn):
        if isinstance(n, ast.Assign) and len(n.targets) == 1 and isinstance(n.targets[0], ast.Name) and isinstance(n.value, ast.Call) \
                and isinstance(n.value.func, ast.Name) and n.value.func.id in records:
            name = n.targets[0].id
            fields = records[n.value.func.id]
            if len(stores.get(name, [])) != 1 or name in params or any(isinstance(a, ast.Starred) for a in n.value.args) \
                    or any(k.arg is None for k in n.value.keywords) or len(n.value.args) > len(fields):
                continue
            vals = list(n.value.args)
            kw = {k.arg: k.value for k in n.value.keywords}
            ok = True
            for f in fields[len(vals):]:
                if f not in kw:
                    ok = False
                    break
                vals.append(kw[f])
            if ok:
                cand[name] = (n, n.value.func.id, fields, vals)
    if not cand:
        return

    # a field initialised from a plain local that is bound once (or a never-rebound parameter) *is* that local
    def field_name(rec, f):
        _n, _c, fields, vals = cand[rec]
        v = vals[fields.index(f)]
        if isinstance(v, ast.Name) and v.id not in cand and len(stores.get(v.id, [])) <= 1:
            return v.id
        return f"{rec}__{f}"

    class _R(ast.NodeTransformer):
        def visit_Attribute(self, node):
            if isinstance(node.value, ast.Name) and node.value.id in cand and node.attr in cand[node.value.id][2]:
                return ast.copy_location(ast.Name(id=field_name(node.value.id, node.attr), ctx=node.ctx), node)
            self.generic_visit(node)
            return node

        def visit_Name(self, node):
            if isinstance(node.ctx, ast.Load) and node.id in cand:
                _n, cls_, fields, _v = cand[node.id]
                return ast.copy_location(ast.Call(func=ast.Name(id=cls_, ctx=ast.Load()),
                                                  args=[ast.Name(id=field_name(node.id, f), ctx=ast.Load()) for f in fields], keywords=[]), node)
            return node

    class _A(ast.NodeTransformer):
        def _stmts(self, body):
            out = []
            for st in body:
                hit = next((nm for nm, (n, *_r) in cand.items() if n is st), None)
                if hit is not None:
                    _n, cls_, fields, vals = cand[hit]
                    for f, v in zip(fields, vals):
                        if field_name(hit, f) != f"{hit}__{f}":
                            continue        # the field is the local it was initialised from
                        a = ast.copy_location(ast.Assign(targets=[ast.Name(id=f"{hit}__{f}", ctx=ast.Store())], value=_R().visit(v), lineno=st.lineno), st)
                        out.append(a)
                    continue
                st2 = self.visit(st)
                out.append(st2)
            return out

        def generic_visit(self, node):
            for field in ("body", "orelse", "finalbody"):
                val = getattr(node, field, None)
                if isinstance(val, list) and val and isinstance(val[0], ast.stmt):
                    setattr(node, field, self._stmts(val))
            for h in getattr(node, "handlers", []) or []:
                h.body = self._stmts(h.body)
            # expressions of this statement
            for field, val in ast.iter_fields(node):
                if field in ("body", "orelse", "finalbody", "handlers"):
                    continue
                if isinstance(val, ast.AST):
                    setattr(node, field, _R().visit(val))
                elif isinstance(val, list):
                    setattr(node, field, [(_R().visit(x) if isinstance(x, ast.AST) else x) for x in val])
            return node
    fn.body = _A()._stmts(fn.body)
    ast.fix_missing_locations(fn)


class _SubstName(ast.NodeTransformer):
    """replace loads of a name by a (constant) expression"""
    def __init__(self, mapping):
        self.mapping = mapping

    def visit_Name(self, node):
        if isinstance(node.ctx, ast.Load) and node.id in self.mapping:
            return ast.copy_location(copy.deepcopy(self.mapping[node.id]), node)
        return node


def _stored_names(fn) -> Set[str]:
    out = set()
    for n in ast.walk(fn):
        if isinstance(n, ast.Name) and isinstance(n.ctx, (ast.Store, ast.Del)):
            out.add(n.id)
        elif isinstance(n, ast.ExceptHandler) and n.name:
            out.add(n.name)
    return out


def _continue_guards_to_ifs(body: List[ast.stmt]) -> List[ast.stmt]:
    out: List[ast.stmt] = []
    for i, b in enumerate(body):
        if isinstance(b, ast.If) and len(b.body) == 1 and isinstance(b.body[0], ast.Continue) and not b.orelse:
            rest = _continue_guards_to_ifs(body[i + 1:])
            if rest:
                neg = b.test.operand if (isinstance(b.test, ast.UnaryOp) and isinstance(b.test.op, ast.Not)) else ast.UnaryOp(op=ast.Not(), operand=b.test)
                guard = ast.copy_location(ast.If(test=neg, body=rest, orelse=[]), b)
                ast.fix_missing_locations(guard)
                out.append(guard)
            else:
                # a trailing `if c: continue` only evaluates c
                ex = ast.copy_location(ast.Expr(value=b.test), b)
                if any(isinstance(n, (ast.Call, ast.Await, ast.NamedExpr)) for n in ast.walk(b.test)):
                    out.append(ex)
            return out
        out.append(b)
    return out


def _bare_returns_to_nesting(body: List[ast.stmt]) -> Optional[List[ast.stmt]]:
    """`if c: A; return` followed by REST  is  `if c: A else: REST` (for statement lists whose bare returns all sit at the end of an
    if-arm of the list itself, or are the last statement); None if a return sits anywhere else (in a loop, a try, a with)"""
    out: List[ast.stmt] = []
    for i, st in enumerate(body):
        if isinstance(st, ast.Return):
            if st.value is not None:
                return None
            return out          # what follows is dead
        if isinstance(st, ast.If) and any(isinstance(n, ast.Return) for n in ast.walk(st)):
            b = _bare_returns_to_nesting(st.body)
            o = _bare_returns_to_nesting(st.orelse) if st.orelse else []
            if b is None or o is None:
                return None
            body_returns = bool(st.body) and isinstance(st.body[-1], ast.Return)
            else_returns = bool(st.orelse) and isinstance(st.orelse[-1], ast.Return)
            rest = _bare_returns_to_nesting(body[i + 1:])
            if rest is None:
                return None
            if body_returns and else_returns:
                new_if = ast.If(test=st.test, body=b or [ast.Pass()], orelse=o)
                out.append(ast.fix_missing_locations(ast.copy_location(new_if, st)))
                return out
            if body_returns:
                new_if = ast.If(test=st.test, body=b or [ast.Pass()], orelse=o + rest)
                out.append(ast.fix_missing_locations(ast.copy_location(new_if, st)))
                return out
            if else_returns:
                new_if = ast.If(test=st.test, body=b + rest, orelse=o or [])
                if not new_if.body:
                    new_if.body = [ast.Pass()]
                out.append(ast.fix_missing_locations(ast.copy_location(new_if, st)))
                return out
            return None          # a return deeper inside the arms: not the guard-clause shape
        if any(isinstance(n, ast.Return) for n in ast.walk(st)):
            return None
        out.append(st)
    return out


def _simple_or_rows_display(v, max_items=8) -> bool:
    """a tuple display of names / attributes / constants, or of rows of those (a small table written in place)"""
    def simple(x):
        return isinstance(x, (ast.Name, ast.Attribute, ast.Constant)) or _signed_literal(x)
    if not (isinstance(v, (ast.Tuple, ast.List)) and 0 < len(v.elts) <= max_items):
        return False
    return all(simple(x) or (isinstance(x, ast.Tuple) and 0 < len(x.elts) <= 4 and all(simple(y) for y in x.elts)) for x in v.elts)


def _signed_literal(x) -> bool:
    return isinstance(x, ast.UnaryOp) and isinstance(x.op, (ast.USub, ast.UAdd)) and isinstance(x.operand, ast.Constant) \
        and isinstance(x.operand.value, (int, float)) and not isinstance(x.operand.value, bool)


def _sink_returns(fn: ast.FunctionDef) -> None:
    """`if c: r = A else: r = B` / `try: r = A except E: r = B`, immediately followed by `return r`, is the multi-exit form
    `if c: return A else: return B` / `try: return A except E: return B` (r is a plain local, not read in between)."""
    def ends_with_assign(block, x):
        if not block:
            return False
        last = block[-1]
        if isinstance(last, ast.Assign) and len(last.targets) == 1 and isinstance(last.targets[0], ast.Name) and last.targets[0].id == x:
            return True
        if isinstance(last, ast.If) and last.orelse:
            return ends_with_assign(last.body, x) and ends_with_assign(last.orelse, x)
        if isinstance(last, ast.Try) and not last.finalbody and not last.orelse and last.handlers:
            return ends_with_assign(last.body, x) and all(ends_with_assign(h.body, x) for h in last.handlers)
        if isinstance(last, ast.Raise):
            return True
        return False

    def sink(block, x):
        last = block[-1]
        if isinstance(last, ast.Assign):
            block[-1] = ast.copy_location(ast.Return(value=last.value), last)
            block[-1]._xsa_sunk = True
        elif isinstance(last, ast.If):
            sink(last.body, x)
            sink(last.orelse, x)
        elif isinstance(last, ast.Try):
            sink(last.body, x)
            for h in last.handlers:
                sink(h.body, x)

    def blocks(node):
        for n in ast.walk(node):
            for f in ("body", "orelse", "finalbody"):
                b = getattr(n, f, None)
                if isinstance(b, list) and b and isinstance(b[0], ast.stmt):
                    yield b
            if isinstance(n, ast.Try):
                for h in n.handlers:
                    yield h.body
    changed = True
    while changed:
        changed = False
        for blk in blocks(fn):
            if len(blk) >= 2 and isinstance(blk[-1], ast.Return) and blk[-1].value is not None and isinstance(blk[-2], (ast.If, ast.Try)):
                # the returned expression is the local itself, or reads it first and once (`return base[self.index]`)
                rv = blk[-1].value
                first = rv
                while isinstance(first, (ast.Subscript, ast.Attribute)) or (isinstance(first, ast.Call) and isinstance(first.func, ast.Attribute)):
                    first = first.value if isinstance(first, (ast.Subscript, ast.Attribute)) else first.func
                if not isinstance(first, ast.Name):
                    continue
                x = first.id
                if sum(1 for n in ast.walk(rv) if isinstance(n, ast.Name) and n.id == x) != 1:
                    continue
                wrap = None if rv is first else rv
                st = blk[-2]
                if isinstance(st, ast.If) and not st.orelse:
                    continue
                if isinstance(st, ast.Try) and (st.finalbody or st.orelse or not st.handlers):
                    continue
                # x is read nowhere inside the statement (each arm only ends by assigning it)
                reads = [n for n in ast.walk(st) if isinstance(n, ast.Name) and n.id == x and isinstance(n.ctx, ast.Load)]
                if reads or not ends_with_assign([st], x):
                    continue
                if wrap is not None and isinstance(st, ast.Try):
                    continue        # `try: r = A` ... `return r[i]`: the subscript would move into the try
                if isinstance(st, ast.If):
                    sink(st.body, x)
                    sink(st.orelse, x)
                else:
                    sink(st.body, x)
                    for h in st.handlers:
                        sink(h.body, x)
                if wrap is not None:
                    for n in ast.walk(st):
                        if isinstance(n, ast.Return) and getattr(n, "_xsa_sunk", False):
                            n.value = _SubstName({x: n.value}).visit(copy.deepcopy(wrap))
                for n in ast.walk(st):
                    if isinstance(n, ast.Return) and getattr(n, "_xsa_sunk", False):
                        n._xsa_sunk = False
                del blk[-1]
                changed = True
                break
    ast.fix_missing_locations(fn)


def _collapse_result_copies(fn: ast.FunctionDef) -> None:
    """Inlining a helper that returns one of its locals leaves `ret__k = None; ...; ret__k = v__k; x = ret__k`: three names for one
    object.  A machine-made result variable (`ret__k`) that is assigned a plain local exactly once, after a dead `= None`, is that local;
    and a name assigned exactly once from such a variable (`x = ret__k`) is it too.  Only copies of *names* are collapsed (aliasing is
    preserved by construction), only for single assignments, only in straight-line position of one block."""
    def stores(name):
        return [n for n in ast.walk(fn) if isinstance(n, ast.Name) and n.id == name and isinstance(n.ctx, (ast.Store, ast.Del))]

    def blocks(node):
        for n in ast.walk(node):
            for f in ("body", "orelse", "finalbody"):
                b = getattr(n, f, None)
                if isinstance(b, list) and b and isinstance(b[0], ast.stmt):
                    yield b
            if isinstance(n, ast.Try):
                for h in n.handlers:
                    yield h.body
    params = {a.arg for a in fn.args.args + fn.args.kwonlyargs + fn.args.posonlyargs}

    def loads(name):
        return [n for n in ast.walk(fn) if isinstance(n, ast.Name) and n.id == name and isinstance(n.ctx, ast.Load)]

    def is_none_init(p, x):
        return isinstance(p, ast.Assign) and len(p.targets) == 1 and isinstance(p.targets[0], ast.Name) and p.targets[0].id == x \
            and isinstance(p.value, ast.Constant) and p.value.value is None
    # (a) `a, b = ret__k` where every other assignment of ret__k is a tuple display of that arity (or the dead `= None`): the unpacking
    #     moves to the assignments
    for blk in list(blocks(fn)):
        for i, st in enumerate(list(blk)):
            if not (isinstance(st, ast.Assign) and len(st.targets) == 1 and isinstance(st.targets[0], ast.Tuple) and isinstance(st.value, ast.Name)
                    and st.value.id.startswith("ret__") and all(isinstance(t, ast.Name) for t in st.targets[0].elts)):
                continue
            x = st.value.id
            if len(loads(x)) != 1:
                continue
            n = len(st.targets[0].elts)
            defs = [(b, j, q) for b in blocks(fn) for j, q in enumerate(b)
                    if isinstance(q, ast.Assign) and len(q.targets) == 1 and isinstance(q.targets[0], ast.Name) and q.targets[0].id == x]
            real = [(b, j, q) for b, j, q in defs if not is_none_init(q, x)]
            if len(defs) != len(stores(x)) or not real or not all(isinstance(q.value, ast.Tuple) and len(q.value.elts) == n
                                                                  and not any(isinstance(e, ast.Starred) for e in q.value.elts) for _b, _j, q in real):
                continue
            names = [t.id for t in st.targets[0].elts]
            for b, j, q in sorted(real, key=lambda t: -t[1]):
                new = [ast.copy_location(ast.Assign(targets=[ast.Name(id=nm, ctx=ast.Store())], value=e, lineno=q.lineno), q)
                       for nm, e in zip(names, q.value.elts)]
                k = next(k for k, z in enumerate(b) if z is q)
                b[k:k + 1] = new
            for b, j, q in defs:
                if is_none_init(q, x) and q in b:
                    b.remove(q)
                    if not b:
                        b.append(ast.Pass())
            if st in blk:
                blk.remove(st)
                if not blk:
                    blk.append(ast.Pass())
    # (b) `ret__k = E` used exactly once, by the very next statement of the same block: that statement with E in its place
    for blk in list(blocks(fn)):
        i = 0
        while i + 1 < len(blk):
            st, nxt = blk[i], blk[i + 1]
            if isinstance(st, ast.Assign) and len(st.targets) == 1 and isinstance(st.targets[0], ast.Name) and st.targets[0].id.startswith("ret__") \
                    and not isinstance(st.value, ast.Name) and isinstance(nxt, (ast.Assign, ast.Expr, ast.Return, ast.AugAssign)):
                x = st.targets[0].id
                ls = loads(x)
                here = [n for n in ast.walk(nxt) if isinstance(n, ast.Name) and n.id == x and isinstance(n.ctx, ast.Load)]
                xs = stores(x)
                inits = [q for q in blk[:i] if is_none_init(q, x)]
                if len(ls) == 1 and len(here) == 1 and len(xs) == 1 + len(inits) and len(inits) <= 1:
                    blk[i + 1] = _SubstName({x: st.value}).visit(nxt)
                    del blk[i]
                    for q in inits:
                        blk.remove(q)
                        i -= 1
                    continue
            i += 1
    changed = True
    rounds = 0
    while changed and rounds < 20:
        changed = False
        rounds += 1
        for blk in blocks(fn):
            for i, st in enumerate(blk):
                if not (isinstance(st, ast.Assign) and len(st.targets) == 1 and isinstance(st.targets[0], ast.Name) and isinstance(st.value, ast.Name)):
                    continue
                x, y = st.targets[0].id, st.value.id
                if x == y or x in params:
                    continue
                xs = stores(x)
                machine = x.startswith("ret__")
                dead_init = None
                if machine and len(xs) == 2:
                    # `ret__k = None` earlier in the same block, not read in between
                    for j in range(i):
                        p = blk[j]
                        if isinstance(p, ast.Assign) and len(p.targets) == 1 and isinstance(p.targets[0], ast.Name) and p.targets[0].id == x \
                                and isinstance(p.value, ast.Constant) and p.value.value is None \
                                and not any(isinstance(n, ast.Name) and n.id == x and isinstance(n.ctx, ast.Load) for q in blk[j + 1:i] for n in ast.walk(q)):
                            dead_init = j
                    if dead_init is None:
                        continue
                elif len(xs) != 1:
                    continue
                if not (machine or y.startswith("ret__") or "__" in y):
                    continue        # only copies produced by inlining
                # y is not stored after this statement (in this block or anywhere textually later), and this block is not in a loop that stores y
                later = [n for q in blk[i + 1:] for n in ast.walk(q) if isinstance(n, ast.Name) and n.id == y and isinstance(n.ctx, (ast.Store, ast.Del))]
                if later:
                    continue
                in_loop_storing_y = any(isinstance(l, (ast.For, ast.While)) and any(b is blk or any(q is st for q in ast.walk(l)) for b in (l.body,))
                                        and any(isinstance(n, ast.Name) and n.id == y and isinstance(n.ctx, (ast.Store, ast.Del)) for n in ast.walk(l))
                                        for l in ast.walk(fn))
                if in_loop_storing_y:
                    continue
                # x is read only after this statement: within the rest of this block or in statements that follow the block's owner
                for n in ast.walk(fn):
                    if isinstance(n, ast.Name) and n.id == x and isinstance(n.ctx, ast.Load):
                        n.id = y
                del blk[i]
                if dead_init is not None:
                    del blk[dead_init]
                if not blk:
                    blk.append(ast.Pass())
                changed = True
                break
            if changed:
                break


class _FoldDisplayIndex(ast.NodeTransformer):
    """(a, b, c)[1] is b"""

    def visit_Subscript(self, node):
        self.generic_visit(node)
        if isinstance(node.value, ast.Tuple) and isinstance(node.slice, ast.Constant) and isinstance(node.slice.value, int) \
                and -len(node.value.elts) <= node.slice.value < len(node.value.elts) and not any(isinstance(x, ast.Starred) for x in node.value.elts):
            return node.value.elts[node.slice.value]
        return node


class _StoreCtx(ast.NodeVisitor):
    """turn a comprehension target into a loop target (Store context throughout)"""
    def visit_Name(self, node):
        node.ctx = ast.Store()

    def visit_Tuple(self, node):
        node.ctx = ast.Store()
        self.generic_visit(node)

    visit_List = visit_Tuple


class _PruneConstantIfExp(ast.NodeTransformer):
    """`A if True else B` is A (a mode constant substituted for a name)"""

    def visit_IfExp(self, node):
        self.generic_visit(node)
        t, neg = node.test, False
        while isinstance(t, ast.UnaryOp) and isinstance(t.op, ast.Not):
            t, neg = t.operand, not neg
        if isinstance(t, ast.Constant) and isinstance(t.value, (bool, type(None))):
            return node.body if (bool(t.value) != neg) else node.orelse
        return node


class _ApplyCallable(ast.NodeTransformer):
    """calls of the local name `g` become calls of the callable it stands for"""

    def __init__(self, g, arm):
        self.g, self.arm = g, arm

    def visit_Call(self, node):
        self.generic_visit(node)
        if isinstance(node.func, ast.Name) and node.func.id == self.g:
            kind = self.arm[0]
            if kind == "ref":
                return ast.copy_location(ast.Call(func=copy.deepcopy(self.arm[1]), args=node.args, keywords=node.keywords), node)
            if kind == "partial":
                return ast.copy_location(ast.Call(func=copy.deepcopy(self.arm[1]), args=[copy.deepcopy(a) for a in self.arm[2]] + node.args,
                                                  keywords=node.keywords), node)
            params, body = self.arm[1], self.arm[2]
            if len(params) == len(node.args) and not node.keywords:
                return ast.copy_location(_SubstName(dict(zip(params, node.args))).visit(copy.deepcopy(body)), node)
        return node


class Normalizer:
    """Rewrites one function.  `resolve(call, cls) -> (qualname, FunctionDef, ClassInfo|None, bind_self: bool) | None`."""

    def __init__(self, resolve: Callable, cls=None, keep: Optional[Set[str]] = None, depth: int = 3,
                 lower_ifexp: bool = True, lower_comps: bool = False, max_stmts: int = 160):
        self.resolve = resolve
        self.cls = cls
        self.keep = set(keep or ())
        self.depth = depth
        self.lower_ifexp = lower_ifexp
        self.lower_comps = lower_comps
        self.max_stmts = max_stmts
        self.k = 0
        self.inlined: List[str] = []      # qualnames of helpers inlined
        self.opaque: List[str] = []       # helpers that could not be inlined, with reason
        self._stack: List[str] = []

    # ------------------------------------------------------------------ entry
    def run(self, fn: ast.FunctionDef) -> ast.FunctionDef:
        new = copy.deepcopy(fn)
        _spread_tuple_stars(new)
        try:
            self.resolve.current_fn = fn
        except AttributeError:
            pass
        self._assigned_names = {n.id for n in ast.walk(new) if isinstance(n, ast.Name) and isinstance(n.ctx, (ast.Store, ast.Del))} | \
            {a.arg for a in new.args.args + new.args.kwonlyargs + new.args.posonlyargs}
        # nested one-expression functions / lambdas bound to a local name: called through that name they are the expression
        self._local_fns = {}
        for st_ in new.body:
            if isinstance(st_, ast.FunctionDef) and not st_.decorator_list and not st_.args.vararg and not st_.args.kwarg:
                b_ = A.strip_docstring(st_.body)
                if len(b_) == 1 and isinstance(b_[0], ast.Return) and b_[0].value is not None:
                    self._local_fns[st_.name] = ([a.arg for a in st_.args.args], b_[0].value)
            elif isinstance(st_, ast.Assign) and len(st_.targets) == 1 and isinstance(st_.targets[0], ast.Name) and isinstance(st_.value, ast.Lambda) \
                    and not st_.value.args.vararg and not st_.value.args.kwarg:
                self._local_fns[st_.targets[0].id] = ([a.arg for a in st_.value.args.args], st_.value.body)
        new.body = self._block(new.body, self.cls, self.depth, top=True)
        if self.inlined:
            _collapse_result_copies(new)
        _sink_returns(new)
        recs = getattr(self, "records", None)
        if recs:
            _scalar_replace_records(new, recs)
        ast.fix_missing_locations(new)
        return new

    # ------------------------------------------------------------------ blocks / statements
    @staticmethod
    def _explicit_iteration(prev, st, last_of_function=False):
        """(target, iterable, body, orelse) if `prev; st` is a spelled-out for loop:
             it = iter(X)                                   it = iter(X)
             while (v := next(it, S)) is not S: BODY        while True:
                                                                try: v = next(it)
                                                                except StopIteration: break
                                                                BODY
           (`it` used nowhere else in the loop), else None"""
        if not (isinstance(prev, ast.Assign) and len(prev.targets) == 1 and isinstance(prev.targets[0], ast.Name)
                and isinstance(prev.value, ast.Call) and isinstance(prev.value.func, ast.Name) and prev.value.func.id == "iter"
                and len(prev.value.args) == 1 and isinstance(st, ast.While)):
            return None
        it = prev.targets[0].id
        X = prev.value.args[0]

        def uses_it(nodes):
            return any(isinstance(n, ast.Name) and n.id == it for x in nodes for n in ast.walk(x))
        t = st.test
        # pattern A
        if isinstance(t, ast.Compare) and len(t.ops) == 1 and isinstance(t.ops[0], ast.IsNot) and isinstance(t.left, ast.NamedExpr) \
                and isinstance(t.left.value, ast.Call) and isinstance(t.left.value.func, ast.Name) and t.left.value.func.id == "next" \
                and len(t.left.value.args) == 2 and isinstance(t.left.value.args[0], ast.Name) and t.left.value.args[0].id == it \
                and ast.dump(t.left.value.args[1]) == ast.dump(t.comparators[0]) and not uses_it(st.body + st.orelse):
            return t.left.target, X, st.body, st.orelse
        # pattern B
        if isinstance(t, ast.Constant) and t.value is True and st.body and isinstance(st.body[0], ast.Try) and not st.orelse:
            tr = st.body[0]
            if len(tr.body) == 1 and isinstance(tr.body[0], ast.Assign) and len(tr.body[0].targets) == 1 \
                    and isinstance(tr.body[0].value, ast.Call) and isinstance(tr.body[0].value.func, ast.Name) and tr.body[0].value.func.id == "next" \
                    and len(tr.body[0].value.args) == 1 and isinstance(tr.body[0].value.args[0], ast.Name) and tr.body[0].value.args[0].id == it \
                    and len(tr.handlers) == 1 and (A.dotted(tr.handlers[0].type) or "") == "StopIteration" and len(tr.handlers[0].body) == 1 \
                    and (isinstance(tr.handlers[0].body[0], ast.Break) or (
                        last_of_function and isinstance(tr.handlers[0].body[0], ast.Return) and tr.handlers[0].body[0].value is None)) \
                    and not tr.finalbody and not uses_it(st.body[1:] + tr.orelse):
                return tr.body[0].targets[0], X, list(tr.orelse) + st.body[1:], []
        return None

    def _block(self, stmts, cls, depth, top: bool = False) -> List[ast.stmt]:
        out: List[ast.stmt] = []
        stmts = list(stmts)
        # spelled-out iteration (explicit iterator + while) is the for loop it abbreviates
        i = 0
        while i + 1 < len(stmts):
            # the iterator may be created a few statements before the loop (nothing in between mentions it)
            j = i + 1
            while j < len(stmts) and j - i <= 3 and not isinstance(stmts[j], ast.While) and isinstance(stmts[i], ast.Assign) \
                    and isinstance(stmts[i].targets[0], ast.Name) and not any(
                        isinstance(n, ast.Name) and n.id == stmts[i].targets[0].id for n in ast.walk(stmts[j])):
                j += 1
            ex = self._explicit_iteration(stmts[i], stmts[j], top and j == len(stmts) - 1) if j < len(stmts) else None
            if ex is not None:
                tgt, X, body, orelse = ex
                tgt = copy.deepcopy(tgt)
                for n in ast.walk(tgt):
                    if isinstance(n, ast.Name):
                        n.ctx = ast.Store()
                loop = ast.copy_location(ast.For(target=tgt, iter=X, body=body, orelse=orelse, type_comment=None), stmts[j])
                ast.fix_missing_locations(loop)
                stmts[j] = loop
                del stmts[i]
                continue
            i += 1
        # g = (self._a if c else self._b); y = g(args)   is   if c: y = self._a(args) else: y = self._b(args)
        i = 0
        while i + 1 < len(stmts):
            a, nxt = stmts[i], stmts[i + 1]
            if isinstance(a, ast.Assign) and len(a.targets) == 1 and isinstance(a.targets[0], ast.Name) and isinstance(a.value, ast.IfExp) \
                    and all(isinstance(x, (ast.Attribute, ast.Name)) for x in (a.value.body, a.value.orelse)) \
                    and isinstance(nxt, (ast.Assign, ast.Expr, ast.Return, ast.AugAssign)):
                g = a.targets[0].id
                uses = [n for n in ast.walk(nxt) if isinstance(n, ast.Name) and n.id == g]
                called = [n for n in ast.walk(nxt) if isinstance(n, ast.Call) and isinstance(n.func, ast.Name) and n.func.id == g]
                later = any(isinstance(n, ast.Name) and n.id == g for x in stmts[i + 2:] for n in ast.walk(x))
                if len(uses) == 1 and len(called) == 1 and not later:
                    arms = []
                    for alt_ in (a.value.body, a.value.orelse):
                        arms.append(_SubstName({g: alt_}).visit(copy.deepcopy(nxt)))
                    new_if = ast.copy_location(ast.If(test=a.value.test, body=[arms[0]], orelse=[arms[1]]), a)
                    ast.fix_missing_locations(new_if)
                    stmts[i:i + 2] = [new_if]
                    continue
            i += 1
        stmts = self._distribute_callable_aliases(stmts)
        # k = 0; while k < n: BODY; k += 1   is   for k in range(n): BODY   (n not written in BODY, no continue)
        i = 0
        while i + 1 < len(stmts):
            a, lp = stmts[i], stmts[i + 1]
            if isinstance(a, ast.Assign) and len(a.targets) == 1 and isinstance(a.targets[0], ast.Name) and isinstance(a.value, ast.Constant) \
                    and a.value.value == 0 and not isinstance(a.value.value, bool) and isinstance(lp, ast.While) and not lp.orelse and len(lp.body) >= 2:
                k = a.targets[0].id
                t = lp.test
                last = lp.body[-1]
                if isinstance(t, ast.Compare) and len(t.ops) == 1 and isinstance(t.ops[0], ast.Lt) and isinstance(t.left, ast.Name) and t.left.id == k \
                        and isinstance(last, ast.AugAssign) and isinstance(last.op, ast.Add) and isinstance(last.target, ast.Name) and last.target.id == k \
                        and isinstance(last.value, ast.Constant) and last.value.value == 1:
                    bound = t.comparators[0]
                    bnames = {n.id for n in ast.walk(bound) if isinstance(n, ast.Name)}
                    written = {n.id for b in lp.body[:-1] for n in ast.walk(b) if isinstance(n, ast.Name) and isinstance(n.ctx, (ast.Store, ast.Del))}
                    if k not in written and not (bnames & written) and not any(isinstance(n, ast.Continue) for n in _walk_own(lp.body, loops=False)) \
                            and not any(isinstance(n, ast.Call) for n in ast.walk(bound) if not (isinstance(n, ast.Call) and isinstance(n.func, ast.Name) and n.func.id == "len")):
                        it = ast.Call(func=ast.Name(id="range", ctx=ast.Load()), args=[bound], keywords=[])
                        new_lp = ast.copy_location(ast.For(target=ast.Name(id=k, ctx=ast.Store()), iter=it, body=lp.body[:-1], orelse=[], type_comment=None), lp)
                        ast.fix_missing_locations(new_lp)
                        stmts[i + 1] = new_lp
            i += 1
        # a hand-kept position counter (k = -1 ... for x in xs: k += 1; ...) is enumerate
        i = 0
        while i + 1 < len(stmts):
            a, lp = stmts[i], stmts[i + 1]
            if isinstance(a, ast.Assign) and len(a.targets) == 1 and isinstance(a.targets[0], ast.Name) and isinstance(lp, ast.For) \
                    and isinstance(lp.target, ast.Name) and lp.body and not lp.orelse:
                k = a.targets[0].id
                v = a.value
                neg1 = isinstance(v, ast.UnaryOp) and isinstance(v.op, ast.USub) and isinstance(v.operand, ast.Constant) and v.operand.value == 1 \
                    or (isinstance(v, ast.Constant) and v.value == -1)
                zero = isinstance(v, ast.Constant) and v.value == 0 and not isinstance(v.value, bool)

                def is_inc(x):
                    return isinstance(x, ast.AugAssign) and isinstance(x.op, ast.Add) and isinstance(x.target, ast.Name) and x.target.id == k \
                        and isinstance(x.value, ast.Constant) and x.value.value == 1
                others = [n for b in lp.body for n in ast.walk(b) if isinstance(n, ast.Name) and n.id == k and isinstance(n.ctx, (ast.Store, ast.Del))]
                has_cont = any(isinstance(n, ast.Continue) for n in _walk_own(lp.body, loops=False))
                body = None
                if neg1 and is_inc(lp.body[0]) and len(others) == 1:
                    body = lp.body[1:]
                elif zero and is_inc(lp.body[-1]) and len(others) == 1 and not has_cont:
                    body = lp.body[:-1]
                if body is not None and body:
                    tgt = ast.Tuple(elts=[ast.Name(id=k, ctx=ast.Store()), lp.target], ctx=ast.Store())
                    it = ast.Call(func=ast.Name(id="enumerate", ctx=ast.Load()), args=[lp.iter], keywords=[])
                    new_lp = ast.copy_location(ast.For(target=tgt, iter=it, body=body, orelse=[], type_comment=None), lp)
                    ast.fix_missing_locations(new_lp)
                    stmts[i + 1] = new_lp        # the initial assignment stays (value of k if the loop does not run)
            i += 1
        for st in stmts:
            out.extend(self._stmt(st, cls, depth))
        return out

    # ------------------------------------------------------------------ match statements
    BUILTIN_SELF_MATCH = {"bool", "bytearray", "bytes", "dict", "float", "frozenset", "int", "list", "set", "str", "tuple"}

    def _pattern(self, pat, subj: ast.expr):
        """(test expression or None for 'always', [(name, expr)] bindings) of pattern `pat` against the pure expression `subj`;
        raises _CannotInline for pattern kinds not modelled"""
        def conj(ts):
            ts = [t for t in ts if t is not None]
            if not ts:
                return None
            return ts[0] if len(ts) == 1 else ast.BoolOp(op=ast.And(), values=ts)
        if isinstance(pat, ast.MatchValue):
            return ast.Compare(left=copy.deepcopy(subj), ops=[ast.Eq()], comparators=[pat.value]), []
        if isinstance(pat, ast.MatchSingleton):
            return ast.Compare(left=copy.deepcopy(subj), ops=[ast.Is()], comparators=[ast.Constant(value=pat.value)]), []
        if isinstance(pat, ast.MatchAs):
            if pat.pattern is None:
                return None, ([(pat.name, copy.deepcopy(subj))] if pat.name else [])
            t, b = self._pattern(pat.pattern, subj)
            return t, b + ([(pat.name, copy.deepcopy(subj))] if pat.name else [])
        if isinstance(pat, ast.MatchOr):
            parts = [self._pattern(p, subj) for p in pat.patterns]
            if any(b for _, b in parts):
                raise _CannotInline("alternative patterns with captures")
            if any(t is None for t, _ in parts):
                return None, []
            return ast.BoolOp(op=ast.Or(), values=[t for t, _ in parts]), []
        if isinstance(pat, ast.MatchClass):
            tests = [ast.Call(func=ast.Name(id="isinstance", ctx=ast.Load()), args=[copy.deepcopy(subj), pat.cls], keywords=[])]
            binds = []
            cname = (A.dotted(pat.cls) or "").split(".")[-1]
            if pat.patterns:
                if len(pat.patterns) == 1 and cname in self.BUILTIN_SELF_MATCH:
                    t, b = self._pattern(pat.patterns[0], subj)
                    tests.append(t)
                    binds += b
                else:
                    raise _CannotInline("positional class patterns need __match_args__")
            for attr, sub in zip(pat.kwd_attrs, pat.kwd_patterns):
                t, b = self._pattern(sub, ast.Attribute(value=copy.deepcopy(subj), attr=attr, ctx=ast.Load()))
                tests.append(t)
                binds += b
            return conj(tests), binds
        if isinstance(pat, ast.MatchSequence):
            if any(isinstance(p, ast.MatchStar) for p in pat.patterns):
                raise _CannotInline("star patterns")
            if isinstance(subj, ast.Tuple) and len(subj.elts) == len(pat.patterns):
                tests, binds = [], []
                for el, p in zip(subj.elts, pat.patterns):
                    t, b = self._pattern(p, el)
                    tests.append(t)
                    binds += b
                return conj(tests), binds
            tests = [ast.Call(func=ast.Name(id="isinstance", ctx=ast.Load()), args=[copy.deepcopy(subj), ast.Tuple(
                elts=[ast.Name(id="tuple", ctx=ast.Load()), ast.Name(id="list", ctx=ast.Load())], ctx=ast.Load())], keywords=[]),
                ast.Compare(left=ast.Call(func=ast.Name(id="len", ctx=ast.Load()), args=[copy.deepcopy(subj)], keywords=[]),
                            ops=[ast.Eq()], comparators=[ast.Constant(value=len(pat.patterns))])]
            binds = []
            for i, p in enumerate(pat.patterns):
                t, b = self._pattern(p, ast.Subscript(value=copy.deepcopy(subj), slice=ast.Constant(value=i), ctx=ast.Load()))
                tests.append(t)
                binds += b
            return conj(tests), binds
        raise _CannotInline(f"pattern {type(pat).__name__}")

    def _lower_match(self, st) -> Optional[List[ast.stmt]]:
        """match/case as the if/elif chain it abbreviates (captures become assignments at the head of the arm; a guard that
        uses a capture reads the captured sub-expression instead)"""
        pre: List[ast.stmt] = []
        subj = st.subject
        pure = isinstance(subj, (ast.Name, ast.Constant)) or (isinstance(subj, ast.Tuple) and all(
            isinstance(e, (ast.Name, ast.Constant, ast.Attribute, ast.Compare)) for e in subj.elts)) or \
            (isinstance(subj, ast.Attribute) and isinstance(subj.value, ast.Name))
        if isinstance(subj, ast.Tuple) and not all(isinstance(e, (ast.Name, ast.Constant)) for e in subj.elts):
            # element expressions are evaluated once, in order
            elts = []
            for e in subj.elts:
                if isinstance(e, (ast.Name, ast.Constant)):
                    elts.append(e)
                else:
                    tmp = self._fresh("m")
                    pre.append(ast.copy_location(ast.Assign(targets=[ast.Name(id=tmp, ctx=ast.Store())], value=e, lineno=st.lineno), st))
                    elts.append(ast.Name(id=tmp, ctx=ast.Load()))
            subj = ast.Tuple(elts=elts, ctx=ast.Load())
        elif not pure:
            tmp = self._fresh("m")
            pre.append(ast.copy_location(ast.Assign(targets=[ast.Name(id=tmp, ctx=ast.Store())], value=subj, lineno=st.lineno), st))
            subj = ast.Name(id=tmp, ctx=ast.Load())
        arms = []
        try:
            for case in st.cases:
                test, binds = self._pattern(case.pattern, subj)
                guard = case.guard
                if guard is not None and binds:
                    guard = _SubstName({n: e for n, e in binds}).visit(copy.deepcopy(guard))
                if guard is not None:
                    test = guard if test is None else ast.BoolOp(op=ast.And(), values=[test, guard])
                body = [ast.copy_location(ast.Assign(targets=[ast.Name(id=n, ctx=ast.Store())], value=e, lineno=case.body[0].lineno), case.body[0])
                        for n, e in binds] + list(case.body)
                arms.append((test, body))
        except _CannotInline:
            return None
        # build the chain from the last arm backwards
        tail: List[ast.stmt] = []
        for test, body in reversed(arms):
            if test is None:
                tail = body
            else:
                tail = [ast.copy_location(ast.If(test=test, body=body, orelse=tail), st)]
        out = pre + tail
        for x in out:
            ast.fix_missing_locations(x)
        return out

    def _lower_matches_in(self, stmts):
        out = []
        for st in stmts:
            if isinstance(st, ast.Match):
                try:
                    low = self._lower_match(st)
                except _CannotInline:
                    low = None
                if low is not None:
                    out.extend(self._lower_matches_in(low))
                    continue
            for f in ("body", "orelse", "finalbody"):
                b = getattr(st, f, None)
                if isinstance(b, list) and b and isinstance(b[0], ast.stmt):
                    setattr(st, f, self._lower_matches_in(b))
            if isinstance(st, ast.Try):
                for h in st.handlers:
                    h.body = self._lower_matches_in(h.body)
            out.append(st)
        return out

    def _distribute_callable_aliases(self, stmts):
        stmts = list(stmts)
        # f = x.meth (a bound method of a local or of self.<field>, kept in a local) ... f(args): the calls are x.meth(args)
        i = 0
        while i < len(stmts):
            a = stmts[i]
            if isinstance(a, ast.Assign) and len(a.targets) == 1 and isinstance(a.targets[0], ast.Name) and isinstance(a.value, ast.Attribute) \
                    and isinstance(a.value.ctx, ast.Load):
                g = a.targets[0].id
                root = a.value
                while isinstance(root, ast.Attribute):
                    root = root.value
                rest = stmts[i + 1:]
                uses = [n for x in rest for n in ast.walk(x) if isinstance(n, ast.Name) and n.id == g]
                called = [n for x in rest for n in ast.walk(x) if isinstance(n, ast.Call) and isinstance(n.func, ast.Name) and n.func.id == g]
                if isinstance(root, ast.Name) and uses and len(uses) == len(called):
                    stored = {n.id for x in rest for n in ast.walk(x) if isinstance(n, ast.Name) and isinstance(n.ctx, (ast.Store, ast.Del))}
                    # attributes on the path (self.deptasks.update): not re-bound in between
                    attr_stores = [n for x in rest for n in ast.walk(x) if isinstance(n, ast.Attribute) and isinstance(n.ctx, (ast.Store, ast.Del))
                                   and n.attr in {t.attr for t in ast.walk(a.value) if isinstance(t, ast.Attribute)}]
                    if root.id not in stored and g not in stored and not attr_stores:
                        stmts[i + 1:] = [_ApplyCallable(g, ("ref", a.value)).visit(x) for x in rest]
                        del stmts[i]
                        continue
            i += 1
        # if C: f = X  else: f = Y / def f(..): return E / f = lambda ..: E / f = partial(G, a)   ...   r = f(args)
        # is, for a test C whose names nobody writes in between:   ... if C: r = X(args) else: r = <E with the arguments>
        i = 0
        while i < len(stmts):
            st0 = stmts[i]
            alias = self._callable_arms(st0)
            if alias is not None:
                g, test, arms = alias
                rest = stmts[i + 1:]
                tnames = {n.id for n in ast.walk(test) if isinstance(n, ast.Name)}
                stored = {n.id for x in rest for n in ast.walk(x) if isinstance(n, ast.Name) and isinstance(n.ctx, (ast.Store, ast.Del))}
                uses = [n for x in rest for n in ast.walk(x) if isinstance(n, ast.Name) and n.id == g]
                called = [n for x in rest for n in ast.walk(x) if isinstance(n, ast.Call) and isinstance(n.func, ast.Name) and n.func.id == g
                          and not n.keywords and not any(isinstance(a_, ast.Starred) for a_ in n.args)
                          and all(isinstance(a_, (ast.Name, ast.Attribute, ast.Subscript, ast.Constant)) for a_ in n.args)]
                pure_test = not any(isinstance(n, (ast.Call, ast.Await, ast.NamedExpr)) for n in ast.walk(test))
                if uses and len(uses) == len(called) and not (tnames & stored) and g not in stored and pure_test and len(rest) <= 12:
                    new_rest = []
                    okk = True
                    for x in rest:
                        if not any(isinstance(n, ast.Name) and n.id == g for n in ast.walk(x)):
                            new_rest.append(x)
                            continue
                        variants = []
                        for arm in arms:
                            y = _ApplyCallable(g, arm).visit(copy.deepcopy(x))
                            if any(isinstance(n, ast.Name) and n.id == g for n in ast.walk(y)):
                                okk = False
                            variants.append(y)
                        new_if = ast.copy_location(ast.If(test=copy.deepcopy(test), body=[variants[0]], orelse=[variants[1]]), x)
                        ast.fix_missing_locations(new_if)
                        new_rest.append(new_if)
                    if okk:
                        stmts[i:] = new_rest
                        continue
            i += 1
        return stmts

    @staticmethod
    def _callable_arms(st):
        """(name, test, [arm_true, arm_false]) when `st` is `if C: f = <callable> else: f = <callable>` with each arm one of: an attribute
        or name (a bound method), a one-expression `def f(params): return E`, a lambda, `functools.partial(G, a, ..)`"""
        if not (isinstance(st, ast.If) and len(st.body) == 1 and len(st.orelse) == 1):
            return None
        arms, names = [], set()
        for b in (st.body[0], st.orelse[0]):
            if isinstance(b, ast.Assign) and len(b.targets) == 1 and isinstance(b.targets[0], ast.Name):
                names.add(b.targets[0].id)
                v = b.value
                if isinstance(v, (ast.Attribute, ast.Name)):
                    arms.append(("ref", v))
                elif isinstance(v, ast.Lambda) and not v.args.vararg and not v.args.kwarg and not v.args.defaults and not v.args.kwonlyargs:
                    arms.append(("fn", [a.arg for a in v.args.args], v.body))
                elif isinstance(v, ast.Call) and (A.dotted(v.func) or "") in ("partial", "functools.partial") and v.args and not v.keywords \
                        and all(isinstance(a, (ast.Name, ast.Attribute, ast.Subscript, ast.Constant)) for a in v.args):
                    arms.append(("partial", v.args[0], v.args[1:]))
                else:
                    return None
            elif isinstance(b, ast.FunctionDef) and not b.decorator_list and not b.args.vararg and not b.args.kwarg and not b.args.defaults \
                    and not b.args.kwonlyargs:
                body = A.strip_docstring(b.body)
                if len(body) == 1 and isinstance(body[0], ast.Return) and body[0].value is not None:
                    names.add(b.name)
                    arms.append(("fn", [a.arg for a in b.args.args], body[0].value))
                else:
                    return None
            else:
                return None
        if len(names) != 1 or all(a[0] == "ref" and isinstance(a[1], ast.Name) for a in arms):
            return None
        return names.pop(), st.test, arms

    def _display_of(self, e, binds, zipped: bool = True):
        """the tuple display an iterable expression denotes, when the text fixes it: a display, a local bound once to one, a module-level
        constant tuple of constants that the function does not assign, `zip(d1, d2)` of two such of equal length (as a display of rows)"""
        if isinstance(e, (ast.Tuple, ast.List)) and not any(isinstance(x, ast.Starred) for x in e.elts):
            return e
        if isinstance(e, ast.Name):
            if e.id in binds and isinstance(binds[e.id], (ast.Tuple, ast.List)):
                return copy.deepcopy(binds[e.id])
            mc = getattr(self, "module_consts", None) or {}
            v = mc.get(e.id)
            if isinstance(v, (ast.Tuple, ast.List)) and 0 < len(v.elts) <= 8 and all(isinstance(x, ast.Constant) for x in v.elts) \
                    and e.id not in getattr(self, "_assigned_names", ()):
                return copy.deepcopy(v)
            return None
        if zipped and isinstance(e, ast.Call) and isinstance(e.func, ast.Name) and e.func.id == "zip" and len(e.args) == 2 and not e.keywords:
            a, b = (self._display_of(x, binds, False) for x in e.args)
            if a is not None and b is not None and len(a.elts) == len(b.elts) and 0 < len(a.elts) <= 4 and \
                    all(isinstance(x, (ast.Name, ast.Attribute, ast.Constant, ast.Subscript)) for x in a.elts + b.elts):
                rows = ast.Tuple(elts=[ast.Tuple(elts=[copy.deepcopy(x), copy.deepcopy(y)], ctx=ast.Load()) for x, y in zip(a.elts, b.elts)], ctx=ast.Load())
                return ast.fix_missing_locations(ast.copy_location(rows, e))
        return None

    def _stmt(self, st, cls, depth) -> List[ast.stmt]:
        pre: List[ast.stmt] = []
        # `x = next((E for v in IT if C), D)` is the search loop  for v in IT: if C: x = E; break / else: x = D
        if isinstance(st, ast.Assign) and len(st.targets) == 1 and isinstance(st.targets[0], ast.Name) and isinstance(st.value, ast.Call) \
                and isinstance(st.value.func, ast.Name) and st.value.func.id == "next" and len(st.value.args) == 2 and not st.value.keywords \
                and isinstance(st.value.args[0], ast.GeneratorExp) and len(st.value.args[0].generators) == 1 \
                and not st.value.args[0].generators[0].is_async \
                and isinstance(st.value.args[1], (ast.Name, ast.Constant, ast.Attribute)):
            ge = st.value.args[0]
            g0 = ge.generators[0]
            tgt = st.targets[0]
            found = [ast.Assign(targets=[copy.deepcopy(tgt)], value=copy.deepcopy(ge.elt), lineno=st.lineno), ast.Break()]
            inner = found
            if g0.ifs:
                test = g0.ifs[0] if len(g0.ifs) == 1 else ast.BoolOp(op=ast.And(), values=[copy.deepcopy(f_) for f_ in g0.ifs])
                inner = [ast.If(test=copy.deepcopy(test), body=found, orelse=[])]
            loop = ast.For(target=copy.deepcopy(g0.target), iter=copy.deepcopy(g0.iter), body=inner,
                           orelse=[ast.Assign(targets=[copy.deepcopy(tgt)], value=copy.deepcopy(st.value.args[1]), lineno=st.lineno)], type_comment=None)
            _StoreCtx().visit(loop.target)
            ast.copy_location(loop, st)
            ast.fix_missing_locations(loop)
            return self._stmt(loop, cls, depth)
        # `a, b = (E(c) for c in (c1, c2))`: a = E(c1); b = E(c2)   (a comprehension over a display of as many simple elements as targets)
        if isinstance(st, ast.Assign) and len(st.targets) == 1 and isinstance(st.targets[0], (ast.Tuple, ast.List)) \
                and all(isinstance(t_, ast.Name) for t_ in st.targets[0].elts) \
                and isinstance(st.value, (ast.GeneratorExp, ast.ListComp)) and len(st.value.generators) == 1 and not st.value.generators[0].ifs \
                and isinstance(st.value.generators[0].target, ast.Name) \
                and isinstance(st.value.generators[0].iter, (ast.Tuple, ast.List)) \
                and len(st.value.generators[0].iter.elts) == len(st.targets[0].elts) \
                and all(isinstance(x, (ast.Constant, ast.Name, ast.Attribute)) for x in st.value.generators[0].iter.elts):
            var = st.value.generators[0].target.id
            names_ = {t_.id for t_ in st.targets[0].elts}
            used = {n_.id for n_ in ast.walk(st.value.elt) if isinstance(n_, ast.Name)}
            if not (names_ & used):
                res = []
                for t_, x in zip(st.targets[0].elts, st.value.generators[0].iter.elts):
                    a_ = ast.Assign(targets=[ast.Name(id=t_.id, ctx=ast.Store())], value=_SubstName({var: x}).visit(copy.deepcopy(st.value.elt)), lineno=st.lineno)
                    ast.copy_location(a_, st)
                    ast.fix_missing_locations(a_)
                    res.extend(self._stmt(a_, cls, depth))
                return res
        # `for a, v in zip(NAMES, f())` over a display of n names and a computed tuple: the rows (name_i, t[i]) of `t = f()`
        # (model assumption, as for `a, b, c = f()`: the computed tuple has the display's length)
        if isinstance(st, ast.For) and not st.orelse and isinstance(st.iter, ast.Call) and isinstance(st.iter.func, ast.Name) \
                and st.iter.func.id == "zip" and len(st.iter.args) == 2 and not st.iter.keywords:
            _b = getattr(self, "_iter_bind", None) or {}
            ds = [self._display_of(x, _b, False) for x in st.iter.args]
            if (ds[0] is None) != (ds[1] is None):
                di = 0 if ds[0] is not None else 1
                disp, other = ds[di], st.iter.args[1 - di]
                if 0 < len(disp.elts) <= 4 and isinstance(other, (ast.Call, ast.Name)) and not isinstance(other, ast.Starred) \
                        and not (isinstance(other, ast.Call) and isinstance(other.func, ast.Name) and other.func.id in ("range", "enumerate", "iter", "map", "zip")):
                    self._zipn = getattr(self, "_zipn", 0) + 1
                    tmp = other.id if isinstance(other, ast.Name) else f"zipped__{self._zipn}"
                    rows = []
                    for i_, d_ in enumerate(disp.elts):
                        sub_ = ast.Subscript(value=ast.Name(id=tmp, ctx=ast.Load()), slice=ast.Constant(value=i_), ctx=ast.Load())
                        pair = [copy.deepcopy(d_), sub_] if di == 0 else [sub_, copy.deepcopy(d_)]
                        rows.append(ast.Tuple(elts=pair, ctx=ast.Load()))
                    loop = copy.copy(st)
                    loop.iter = ast.Tuple(elts=rows, ctx=ast.Load())
                    outs = []
                    if not isinstance(other, ast.Name):
                        outs.append(ast.copy_location(ast.Assign(targets=[ast.Name(id=tmp, ctx=ast.Store())], value=other, lineno=st.lineno), st))
                    outs.append(loop)
                    res = []
                    for o_ in outs:
                        ast.fix_missing_locations(o_)
                        res.extend(self._stmt(o_, cls, depth))
                    return res
        if isinstance(st, (ast.Return, ast.Assign, ast.Expr, ast.AugAssign)) and st.value is not None:
            for n in ast.walk(st.value):
                if isinstance(n, ast.Call) and isinstance(n.func, ast.Attribute) and n.func.attr == "join" and len(n.args) == 1 and not n.keywords \
                        and self._gen_target(n.args[0], cls) is not None:
                    # sep.join(self._lines(..)) consumes the generator helper like sep.join(list(self._lines(..)))
                    n.args = [ast.copy_location(ast.Call(func=ast.Name(id="list", ctx=ast.Load()), args=[n.args[0]], keywords=[]), n.args[0])]
                    ast.fix_missing_locations(n)
        # `it = chain(a, b)` / `it = (x, y)` ... `for v in it:` loops over that expression (remembered until `it` is stored again)
        binds = getattr(self, "_iter_bind", None)
        if binds is None:
            binds = self._iter_bind = {}
        if isinstance(st, ast.For) and isinstance(st.iter, ast.Name) and st.iter.id in binds:
            st = copy.copy(st)
            st.iter = copy.deepcopy(binds[st.iter.id])
        if isinstance(st, (ast.For, ast.While)) and any(isinstance(b, ast.If) and len(b.body) == 1 and isinstance(b.body[0], ast.Continue) and not b.orelse
                                                         for b in st.body):
            # `if c: continue` at the top of a loop body guards the rest of the body by `not c`
            st = copy.copy(st)
            st.body = _continue_guards_to_ifs(st.body)
        flt = getattr(self, "_iter_filters", None) or {}
        if isinstance(st, ast.For) and isinstance(st.iter, ast.Name) and st.iter.id in flt and not st.orelse:
            disp, var, ifs = flt[st.iter.id]
            rows = [r for r in disp.elts]
            if all(isinstance(r, ast.Tuple) for r in rows) and isinstance(st.target, ast.Tuple) and all(isinstance(t, ast.Name) for t in st.target.elts) \
                    and all(len(r.elts) == len(st.target.elts) for r in rows):
                out = []
                for r in rows:
                    test = ifs[0] if len(ifs) == 1 else ast.BoolOp(op=ast.And(), values=list(ifs))
                    test = _SubstName({var: r}).visit(copy.deepcopy(test))
                    test = _FoldDisplayIndex().visit(test)
                    one = ast.For(target=copy.deepcopy(st.target), iter=ast.Tuple(elts=[copy.deepcopy(r)], ctx=ast.Load()), body=copy.deepcopy(st.body),
                                  orelse=[], type_comment=None)
                    guard = ast.copy_location(ast.If(test=test, body=[one], orelse=[]), st)
                    ast.fix_missing_locations(guard)
                    out.extend(self._stmt(guard, cls, depth))
                return out
        if isinstance(st, ast.For):
            # a module-level constant tuple of constants (a table of names), and `zip` of two displays of equal length: the display itself
            disp = self._display_of(st.iter, binds)
            if disp is not None and disp is not st.iter:
                st = copy.copy(st)
                st.iter = disp
        _prev_binds = dict(binds)
        for n in ast.walk(st) if not isinstance(st, (ast.For, ast.While, ast.If, ast.With, ast.Try)) else []:
            if isinstance(n, ast.Name) and isinstance(n.ctx, (ast.Store, ast.Del)):
                binds.pop(n.id, None)
                (getattr(self, "_iter_filters", None) or {}).pop(n.id, None)
        if isinstance(st, ast.Assign) and len(st.targets) == 1 and isinstance(st.targets[0], ast.Name):
            v = st.value
            if (isinstance(v, ast.Call) and (A.dotted(v.func) or "") in ("chain", "itertools.chain") and not v.keywords) or \
                    _simple_or_rows_display(v):
                binds[st.targets[0].id] = v
            elif isinstance(v, ast.Name) and v.id in binds:
                binds[st.targets[0].id] = binds[v.id]       # a plain copy of such a name denotes the same display
            elif isinstance(v, (ast.ListComp, ast.GeneratorExp)) and len(v.generators) == 1 and isinstance(v.generators[0].iter, ast.Name) \
                    and v.generators[0].iter.id in _prev_binds and isinstance(_prev_binds[v.generators[0].iter.id], (ast.Tuple, ast.List)) \
                    and isinstance(v.generators[0].target, ast.Name) and isinstance(v.elt, ast.Name) and v.elt.id == v.generators[0].target.id \
                    and v.generators[0].ifs and not any(isinstance(n, (ast.Call, ast.NamedExpr)) for f in v.generators[0].ifs for n in ast.walk(f)):
                # xs = [x for x in xs if p(x)] over a display written in place: remembered as (display, variable, filters); a loop over it
                # is the loop over the display with the filters as a guard
                flt = getattr(self, "_iter_filters", None)
                if flt is None:
                    flt = self._iter_filters = {}
                flt[st.targets[0].id] = (copy.deepcopy(_prev_binds[v.generators[0].iter.id]), v.generators[0].target.id, copy.deepcopy(v.generators[0].ifs))
                binds.pop(st.targets[0].id, None)
                return [st]
        # setattr(obj, "name", v) with a literal identifier is the assignment obj.name = v
        if isinstance(st, ast.Expr) and isinstance(st.value, ast.Call) and isinstance(st.value.func, ast.Name) and st.value.func.id == "setattr" \
                and len(st.value.args) == 3 and not st.value.keywords and isinstance(st.value.args[1], ast.Constant) \
                and isinstance(st.value.args[1].value, str) and st.value.args[1].value.isidentifier() \
                and isinstance(st.value.args[0], (ast.Name, ast.Attribute)):
            o, nm, v = st.value.args
            asg = ast.copy_location(ast.Assign(targets=[ast.Attribute(value=o, attr=nm.value, ctx=ast.Store())], value=v, lineno=st.lineno), st)
            ast.fix_missing_locations(asg)
            return self._stmt(asg, cls, depth)
        if isinstance(st, ast.Match):
            low = self._lower_match(st)
            if low is not None:
                return self._block(low, cls, depth)
        # a test that is a literal constant (a mode flag of an inlined helper): only the live arm remains
        if isinstance(st, ast.If):
            t, neg_ = st.test, False
            while isinstance(t, ast.UnaryOp) and isinstance(t.op, ast.Not):
                t, neg_ = t.operand, not neg_
            if isinstance(t, ast.Constant) and isinstance(t.value, (bool, type(None))):
                live = st.body if (bool(t.value) != neg_) else st.orelse
                return self._block(live, cls, depth)
        # idiom: `x[:0] = [a, b]` / `x[0:0] = [a]` is x.insert(0, ...) (front insertion by slice assignment)
        if isinstance(st, ast.Assign) and len(st.targets) == 1 and isinstance(st.targets[0], ast.Subscript) \
                and isinstance(st.targets[0].slice, ast.Slice) and isinstance(st.value, ast.List) and 0 < len(st.value.elts) <= 4 \
                and not any(isinstance(e, ast.Starred) for e in st.value.elts):
            sl = st.targets[0].slice
            zero = lambda n: isinstance(n, ast.Constant) and n.value == 0 and not isinstance(n.value, bool)   # noqa: E731
            if sl.step is None and (sl.lower is None or zero(sl.lower)) and zero(sl.upper):
                out = []
                for e in reversed(st.value.elts):
                    call = ast.Call(func=ast.Attribute(value=copy.deepcopy(st.targets[0].value), attr="insert", ctx=ast.Load()),
                                    args=[ast.Constant(value=0), e], keywords=[])
                    ex = ast.copy_location(ast.Expr(value=call), st)
                    ast.fix_missing_locations(ex)
                    out.extend(self._stmt(ex, cls, depth))
                return out
        if isinstance(st, ast.If):
            st.test = self._hoist(st.test, pre, cls, depth, st)
            st.body = self._block(st.body, cls, depth)
            st.orelse = self._block(st.orelse, cls, depth)
            return pre + [st]
        if isinstance(st, ast.For) and isinstance(st.iter, (ast.Tuple, ast.List)) and isinstance(st.target, ast.Name) \
                and 0 < len(st.iter.elts) <= 6 and all(isinstance(x, ast.Constant) for x in st.iter.elts) and not st.orelse \
                and len(st.body) <= 3 and not any(isinstance(n, (ast.Break, ast.Continue, ast.Return, ast.For, ast.While)) for b in st.body for n in ast.walk(b)) \
                and not any(isinstance(n, ast.Name) and n.id == st.target.id and isinstance(n.ctx, (ast.Store, ast.Del)) for b in st.body for n in ast.walk(b)):
            # a loop over a literal tuple of constants is its body written out once per constant
            out = []
            for c in st.iter.elts:
                for b in st.body:
                    nb = _SubstName({st.target.id: c}).visit(copy.deepcopy(b))
                    out.extend(self._stmt(nb, cls, depth))
            return out
        # functools.reduce(f, xs, init): acc = init; for x in xs: acc = f(acc, x)
        if isinstance(st, (ast.Assign, ast.Return)) and isinstance(st.value, ast.Call) and (A.dotted(st.value.func) or "") in ("reduce", "functools.reduce") \
                and len(st.value.args) == 3 and not st.value.keywords and not any(isinstance(a, ast.Starred) for a in st.value.args) \
                and (isinstance(st, ast.Return) or (len(st.targets) == 1 and isinstance(st.targets[0], ast.Name))):
            f_, xs_, init_ = st.value.args
            acc = st.targets[0].id if isinstance(st, ast.Assign) else self._fresh("acc")
            it = self._fresh("it")
            a0 = ast.Assign(targets=[ast.Name(id=acc, ctx=ast.Store())], value=init_, lineno=st.lineno)
            step = ast.Assign(targets=[ast.Name(id=acc, ctx=ast.Store())],
                              value=ast.Call(func=f_, args=[ast.Name(id=acc, ctx=ast.Load()), ast.Name(id=it, ctx=ast.Load())], keywords=[]), lineno=st.lineno)
            loop = ast.For(target=ast.Name(id=it, ctx=ast.Store()), iter=xs_, body=[step], orelse=[], type_comment=None)
            seq: List[ast.stmt] = [a0, loop]
            if isinstance(st, ast.Return):
                seq.append(ast.Return(value=ast.Name(id=acc, ctx=ast.Load())))
            for x in seq:
                ast.copy_location(x, st)
                ast.fix_missing_locations(x)
            return self._block(seq, cls, depth)
        # X = list(gen()) / set(...) / dict(...) of a generator helper: X is the accumulator itself (no alias)
        if isinstance(st, ast.Assign) and len(st.targets) == 1 and isinstance(st.targets[0], ast.Name) and isinstance(st.value, ast.Call) \
                and isinstance(st.value.func, ast.Name) and st.value.func.id in ("list", "set", "dict") and len(st.value.args) == 1 \
                and not st.value.keywords:
            pre2: List[ast.stmt] = []
            low = self._lower_gen_consumer(st.value, pre2, cls, depth, st)
            if low is not None and isinstance(low, ast.Name) and pre2:
                tmp_name = low.id
                ren = _Renamer({tmp_name: st.targets[0].id})
                return [ren.visit(x) for x in pre2]
        if isinstance(st, ast.For) and isinstance(st.iter, ast.Call):
            g = self._inline_gen_for(st, cls, depth)
            if g is not None:
                return g
        # `yield from helper()` of a generator helper is `for x in helper(): yield x`
        if isinstance(st, ast.Expr) and isinstance(st.value, ast.YieldFrom) and self._gen_target(st.value.value, cls) is not None:
            tmp = self._fresh("y")
            loop = ast.For(target=ast.Name(id=tmp, ctx=ast.Store()), iter=st.value.value,
                           body=[ast.Expr(value=ast.Yield(value=ast.Name(id=tmp, ctx=ast.Load())))], orelse=[], type_comment=None)
            ast.copy_location(loop, st)
            ast.fix_missing_locations(loop)
            return self._stmt(loop, cls, depth)
        # for x in itertools.chain(a, b): BODY  is  for x in a: BODY; for x in b: BODY
        if isinstance(st, ast.For) and isinstance(st.iter, ast.Call) and (A.dotted(st.iter.func) or "").split(".")[-1] == "chain" \
                and (A.dotted(st.iter.func) or "") in ("chain", "itertools.chain") and not st.iter.keywords and not st.orelse \
                and 0 < len(st.iter.args) <= 4 and not any(isinstance(a, ast.Starred) for a in st.iter.args) \
                and not any(isinstance(n, (ast.Break, ast.Continue)) for n in _walk_own(st.body, loops=False)):
            out = []
            for a in st.iter.args:
                loop = ast.For(target=copy.deepcopy(st.target), iter=a, body=copy.deepcopy(st.body), orelse=[], type_comment=None)
                ast.copy_location(loop, st)
                ast.fix_missing_locations(loop)
                out.extend(self._stmt(loop, cls, depth))
            return out
        # a *search* over a short display: `for a, b in ((x1, y1), (x2, y2)): if T: BODY; break` [else: E]  is the chain
        # a, b = x1, y1; if T: BODY  else: a, b = x2, y2; if T: BODY else: E
        if isinstance(st, ast.For) and isinstance(st.iter, (ast.Tuple, ast.List)) and 0 < len(st.iter.elts) <= 4 \
                and len(st.body) == 1 and isinstance(st.body[0], ast.If) and not st.body[0].orelse and st.body[0].body \
                and isinstance(st.body[0].body[-1], ast.Break) \
                and not any(isinstance(n, (ast.Break, ast.Continue)) for n in _walk_own(st.body[0].body[:-1], loops=False)) \
                and not any(isinstance(n, (ast.Break, ast.Continue)) for n in _walk_own(st.orelse, loops=False)):
            tnames = [x.id for x in st.target.elts] if (isinstance(st.target, ast.Tuple) and all(isinstance(x, ast.Name) for x in st.target.elts)) \
                else ([st.target.id] if isinstance(st.target, ast.Name) else None)
            rows = []
            for r in st.iter.elts:
                cells = list(r.elts) if (isinstance(st.target, ast.Tuple) and isinstance(r, (ast.Tuple, ast.List))) else [r]
                rows.append(cells)
            simple = tnames is not None and all(len(c) == len(tnames) and all(isinstance(x, (ast.Name, ast.Attribute, ast.Constant, ast.Subscript))
                                                                              or _signed_literal(x) for x in c) for c in rows)
            if simple and len(set(tnames)) == len(tnames):
                iff = st.body[0]
                stored = {n.id for b in iff.body for n in ast.walk(b) if isinstance(n, ast.Name) and isinstance(n.ctx, (ast.Store, ast.Del))}
                chain = [copy.deepcopy(x) for x in st.orelse]
                for cells in reversed(rows):
                    sub, assigns = {}, []
                    for nm, x in zip(tnames, cells):
                        if (isinstance(x, ast.Constant) or _signed_literal(x)) and nm not in stored:
                            sub[nm] = x
                        else:
                            assigns.append(ast.Assign(targets=[ast.Name(id=nm, ctx=ast.Store())], value=copy.deepcopy(x), lineno=st.lineno))
                    test = _SubstName(sub).visit(copy.deepcopy(iff.test)) if sub else copy.deepcopy(iff.test)
                    body = [(_SubstName(sub).visit(copy.deepcopy(b)) if sub else copy.deepcopy(b)) for b in iff.body[:-1]] or [ast.Pass()]
                    chain = assigns + [ast.If(test=test, body=body, orelse=chain)]
                out = []
                for c_ in chain:
                    ast.copy_location(c_, st)
                    ast.fix_missing_locations(c_)
                    out.extend(self._stmt(c_, cls, depth))
                return out
        # a loop over a short display of rows `for a, b in ((x1, y1), (x2, y2))`: the body once per row; constant columns are substituted,
        # the others assigned first
        if isinstance(st, ast.For) and isinstance(st.iter, (ast.Tuple, ast.List)) and isinstance(st.target, ast.Tuple) \
                and all(isinstance(x, ast.Name) for x in st.target.elts) and 0 < len(st.iter.elts) <= 8 and not st.orelse \
                and all(isinstance(r, (ast.Tuple, ast.List)) and len(r.elts) == len(st.target.elts)
                        and all(isinstance(x, (ast.Name, ast.Attribute, ast.Constant, ast.Subscript)) or _signed_literal(x) for x in r.elts)
                        for r in st.iter.elts) \
                and len(st.body) <= 4 and not any(isinstance(n, (ast.Break, ast.Continue)) for n in _walk_own(st.body, loops=False)):
            stored = {n.id for b in st.body for n in ast.walk(b) if isinstance(n, ast.Name) and isinstance(n.ctx, (ast.Store, ast.Del))}
            names = [x.id for x in st.target.elts]
            rownames = {n.id for r in st.iter.elts for x in r.elts for n in ast.walk(x) if isinstance(n, ast.Name)}
            if len(set(names)) == len(names) and not (set(names) & rownames):
                out = []
                for r in st.iter.elts:
                    sub = {}
                    for nm, x in zip(names, r.elts):
                        if (isinstance(x, ast.Constant) or _signed_literal(x)) and nm not in stored:
                            sub[nm] = x
                        else:
                            a = ast.copy_location(ast.Assign(targets=[ast.Name(id=nm, ctx=ast.Store())], value=copy.deepcopy(x), lineno=st.lineno), st)
                            ast.fix_missing_locations(a)
                            out.extend(self._stmt(a, cls, depth))
                    for b in st.body:
                        nb = _SubstName(sub).visit(copy.deepcopy(b)) if sub else copy.deepcopy(b)
                        nb = _PruneConstantIfExp().visit(nb)
                        ast.fix_missing_locations(nb)
                        out.extend(self._stmt(nb, cls, depth))
                return out
        # a loop over a short tuple display of arbitrary expressions: the body once per element, the element assigned first
        if isinstance(st, ast.For) and isinstance(st.iter, (ast.Tuple, ast.List)) and isinstance(st.target, ast.Name) \
                and 0 < len(st.iter.elts) <= 4 and not all(isinstance(x, ast.Constant) for x in st.iter.elts) and not st.orelse \
                and not any(isinstance(x, ast.Starred) for x in st.iter.elts) \
                and all(isinstance(x, (ast.Name, ast.Attribute, ast.Constant, ast.Subscript)) for x in st.iter.elts) \
                and len(st.body) <= 4 and not any(isinstance(n, (ast.Break, ast.Continue)) for n in _walk_own(st.body, loops=False)):
            out = []
            for c in st.iter.elts:
                a = ast.copy_location(ast.Assign(targets=[ast.Name(id=st.target.id, ctx=ast.Store())], value=copy.deepcopy(c), lineno=st.lineno), st)
                ast.fix_missing_locations(a)
                out.extend(self._stmt(a, cls, depth))
                for b in st.body:
                    out.extend(self._stmt(copy.deepcopy(b), cls, depth))
            return out
        # X.extend(gen()) / X.update(gen()) as statements
        if isinstance(st, ast.Expr) and isinstance(st.value, ast.Call) and isinstance(st.value.func, ast.Attribute) \
                and st.value.func.attr in ("extend", "update") and len(st.value.args) == 1 and not st.value.keywords \
                and self._gen_target(st.value.args[0], cls) is not None:
            recv = st.value.func.value
            if st.value.func.attr == "extend":
                it = self._fresh("it")
                leaf = ast.Expr(value=ast.Call(func=ast.Attribute(value=copy.deepcopy(recv), attr="append", ctx=ast.Load()),
                                               args=[ast.Name(id=it, ctx=ast.Load())], keywords=[]))
                tgt = ast.Name(id=it, ctx=ast.Store())
            else:
                kk, vv = self._fresh("k"), self._fresh("v")
                tgt = ast.Tuple(elts=[ast.Name(id=kk, ctx=ast.Store()), ast.Name(id=vv, ctx=ast.Store())], ctx=ast.Store())
                leaf = ast.Assign(targets=[ast.Subscript(value=copy.deepcopy(recv), slice=ast.Name(id=kk, ctx=ast.Load()), ctx=ast.Store())],
                                  value=ast.Name(id=vv, ctx=ast.Load()), lineno=st.lineno)
            loop = ast.copy_location(ast.For(target=tgt, iter=st.value.args[0], body=[leaf], orelse=[], type_comment=None), st)
            ast.fix_missing_locations(loop)
            return self._stmt(loop, cls, depth)
        if isinstance(st, (ast.For, ast.AsyncFor)):
            if self.lower_ifexp and isinstance(st.iter, ast.IfExp):
                tmp = self._fresh("it")
                pre.extend(self._stmt(ast.copy_location(
                    ast.Assign(targets=[ast.Name(id=tmp, ctx=ast.Store())], value=st.iter, lineno=st.lineno), st), cls, depth))
                st.iter = ast.copy_location(ast.Name(id=tmp, ctx=ast.Load()), st)
            else:
                st.iter = self._hoist(st.iter, pre, cls, depth, st)
            st.body = self._block(st.body, cls, depth)
            st.orelse = self._block(st.orelse, cls, depth)
            return pre + [st]
        if isinstance(st, ast.While):
            st.body = self._block(st.body, cls, depth)
            st.orelse = self._block(st.orelse, cls, depth)
            return [st]
        if isinstance(st, ast.With) and len(st.items) == 1 and isinstance(st.items[0].context_expr, ast.Call):
            cm = self._inline_cm(st, cls, depth)
            if cm is not None:
                return cm
        if isinstance(st, (ast.With, ast.AsyncWith)):
            for it in st.items:
                it.context_expr = self._hoist(it.context_expr, pre, cls, depth, st)
            st.body = self._block(st.body, cls, depth)
            return pre + [st]
        # EAFP spelling of dict.get: try: t = d[k] / except KeyError: t = default
        if isinstance(st, ast.Try) and len(st.body) == 1 and len(st.handlers) == 1 and not st.orelse and not st.finalbody \
                and st.handlers[0].name is None and (A.dotted(st.handlers[0].type) or "") == "KeyError" and len(st.handlers[0].body) == 1:
            b, h = st.body[0], st.handlers[0].body[0]
            same_kind = (isinstance(b, ast.Assign) and isinstance(h, ast.Assign) and len(b.targets) == 1 and len(h.targets) == 1
                         and isinstance(b.targets[0], ast.Name) and isinstance(h.targets[0], ast.Name) and b.targets[0].id == h.targets[0].id) \
                or (isinstance(b, ast.Return) and isinstance(h, ast.Return))
            bv, hv = getattr(b, "value", None), getattr(h, "value", None)
            if same_kind and isinstance(bv, ast.Subscript) and not isinstance(bv.slice, ast.Slice) \
                    and isinstance(bv.value, (ast.Name, ast.Attribute)) and isinstance(hv, (ast.Constant, ast.Name)):
                args = [bv.slice] if (isinstance(hv, ast.Constant) and hv.value is None) else [bv.slice, hv]
                call = ast.Call(func=ast.Attribute(value=bv.value, attr="get", ctx=ast.Load()), args=args, keywords=[])
                new = copy.copy(b)
                new.value = ast.copy_location(call, bv)
                ast.fix_missing_locations(new)
                return self._stmt(new, cls, depth)
            # try: t = d[k] / except KeyError: return c   --  t = d.get(k); if t is None: return c  (model: stored values are not None)
            if isinstance(b, ast.Assign) and len(b.targets) == 1 and isinstance(b.targets[0], ast.Name) and isinstance(h, ast.Return) \
                    and isinstance(bv, ast.Subscript) and not isinstance(bv.slice, ast.Slice) and isinstance(bv.value, (ast.Name, ast.Attribute)) \
                    and (hv is None or isinstance(hv, ast.Constant)):
                call = ast.Call(func=ast.Attribute(value=bv.value, attr="get", ctx=ast.Load()), args=[bv.slice], keywords=[])
                a1 = copy.copy(b)
                a1.value = ast.copy_location(call, bv)
                test = ast.Compare(left=ast.Name(id=b.targets[0].id, ctx=ast.Load()), ops=[ast.Is()], comparators=[ast.Constant(value=None)])
                i1 = ast.copy_location(ast.If(test=test, body=[h], orelse=[]), st)
                for x in (a1, i1):
                    ast.fix_missing_locations(x)
                return self._stmt(a1, cls, depth) + self._stmt(i1, cls, depth)
        if isinstance(st, ast.Try) or st.__class__.__name__ == "TryStar":
            st.body = self._block(st.body, cls, depth)
            st.orelse = self._block(st.orelse, cls, depth)
            st.finalbody = self._block(st.finalbody, cls, depth)
            for h in st.handlers:
                h.body = self._block(h.body, cls, depth)
            return [st]
        if isinstance(st, (ast.FunctionDef, ast.AsyncFunctionDef, ast.ClassDef)):
            return [st]
        # ---- simple statements
        if self.lower_ifexp:
            low = self._lower_ifexp_stmt(st)
            if isinstance(low, list):
                return self._block(low, cls, depth)
            if low is not None:
                return self._stmt(low, cls, depth)
        if self.lower_comps or self._comp_calls_helper(st, cls):
            low = self._lower_comp_stmt(st)
            if low is not None:
                return self._block(low, cls, depth)
        if isinstance(st, ast.Return) and isinstance(st.value, ast.Call):
            # `return helper(...)`: the helper's own returns return from the caller -- path conditions are preserved
            c = st.value
            c.args = [self._hoist(a, pre, cls, depth, st) for a in c.args]
            for kw in c.keywords:
                kw.value = self._hoist(kw.value, pre, cls, depth, st)
            if isinstance(c.func, ast.Attribute):
                c.func.value = self._hoist(c.func.value, pre, cls, depth, st)
            blk = self._inline(c, cls, depth, st, tail=True)
            if blk is not None:
                return pre + blk[0]
            return pre + [st]
        if isinstance(st, ast.Expr) and isinstance(st.value, ast.Call):
            # a bare helper call: its block replaces the statement
            c = st.value
            c.args = [self._hoist(a, pre, cls, depth, st) for a in c.args]
            for kw in c.keywords:
                kw.value = self._hoist(kw.value, pre, cls, depth, st)
            if isinstance(c.func, ast.Attribute):
                c.func.value = self._hoist(c.func.value, pre, cls, depth, st)
            blk = self._inline(c, cls, depth, st)
            if blk is not None:
                stmts, _ret = blk
                return pre + stmts
            return pre + [st]
        for field in ("value", "exc", "cause"):
            v = getattr(st, field, None)
            if isinstance(v, ast.expr):
                setattr(st, field, self._hoist(v, pre, cls, depth, st))
        if isinstance(st, ast.Assign):
            st.targets = [self._hoist_target(t, pre, cls, depth, st) for t in st.targets]
        elif isinstance(st, (ast.AugAssign, ast.AnnAssign)):
            st.target = self._hoist_target(st.target, pre, cls, depth, st)
        return pre + [st]

    def _hoist_target(self, t, pre, cls, depth, st):
        # subscripts / attribute owners in assignment targets are evaluated unconditionally
        if isinstance(t, ast.Subscript):
            t.value = self._hoist(t.value, pre, cls, depth, st)
            t.slice = self._hoist(t.slice, pre, cls, depth, st)
        elif isinstance(t, ast.Attribute):
            t.value = self._hoist(t.value, pre, cls, depth, st)
        return t

    # ------------------------------------------------------------------ generators
    def _gen_target(self, call, cls):
        """(qual, fn, callee_cls, bind_self) if `call` resolves to a private generator function that may be dissolved"""
        if not isinstance(call, ast.Call):
            return None
        r = self.resolve(call, cls)
        if r is None:
            return None
        qual, fn, callee_cls, bind_self = r
        if fn.name in self.keep or qual in self.keep or qual in self._stack:
            return None
        body = A.strip_docstring(fn.body)
        own = [n for n in _walk_own(body) if isinstance(n, (ast.Yield, ast.YieldFrom))]
        if not own or fn.decorator_list and any((A.dotted(d) or "").split(".")[-1] == "contextmanager" for d in fn.decorator_list):
            return None
        return r

    def _inline_gen_for(self, st: ast.For, cls, depth) -> Optional[List[ast.stmt]]:
        """`for T in self._gen(args): BODY` with _gen a generator helper: the helper's body with every `yield E` replaced by
        `T = E; BODY` (lazy consumption interleaves exactly like that).  BODY must not break/continue out of the loop."""
        if depth <= 0 or st.orelse:
            return None
        r = self._gen_target(st.iter, cls)
        if r is None:
            return None
        qual, fn, callee_cls, bind_self = r
        if any(isinstance(n, (ast.Break, ast.Continue)) for n in _walk_own(st.body, loops=False)):
            return None
        body = A.strip_docstring(copy.deepcopy(fn.body))
        own = [n for n in _walk_own(body)]
        ys = [n for n in own if isinstance(n, (ast.Yield, ast.YieldFrom))]
        n_body = sum(1 for n in ast.walk(ast.Module(body=st.body, type_ignores=[])) if isinstance(n, ast.stmt))
        if len(ys) > 24 or n_body > 25 or len(ys) * n_body > 200:
            return None
        # only statement-level yields; a `return` only as the last statement
        stmt_yields = {id(n.value) for n in own if isinstance(n, ast.Expr) and isinstance(n.value, (ast.Yield, ast.YieldFrom))}
        if any(id(y) not in stmt_yields for y in ys):
            return None
        rets = [n for n in own if isinstance(n, ast.Return)]
        if rets and not (len(rets) == 1 and body and body[-1] is rets[0] and rets[0].value is None):
            # early `return`s in guard clauses (`if c: yield x; return`) are the else-nesting of what follows
            nested = _bare_returns_to_nesting(body) if all(r.value is None for r in rets) else None
            if nested is None:
                return None
            body = nested
            rets = []
        if rets:
            body = body[:-1]
        try:
            self.k += 1
            k = self.k
            binds = self._bind(st.iter, fn, bind_self, k)
        except _CannotInline as e:
            self.opaque.append(f"{qual}: {e}")
            return None
        selfname = fn.args.args[0].arg if (fn.args.args and bind_self is not None) else None
        locals_ = _stored_names(ast.Module(body=body, type_ignores=[])) | {a.arg for a in fn.args.args + fn.args.kwonlyargs}
        if fn.args.vararg:
            locals_.add(fn.args.vararg.arg)
        mapping = {n: f"{n}__{k}" for n in locals_}
        if selfname and bind_self is True:
            mapping.pop(selfname, None)
        rebound = _stored_names(ast.Module(body=body, type_ignores=[]))
        direct = {}
        for pname, val in binds:
            if isinstance(val, ast.Name) and pname not in rebound and pname in mapping and not (selfname and pname == selfname and bind_self is True):
                direct[pname] = val.id
                mapping[pname] = val.id
        binds = [(pn, v) for pn, v in binds if pn not in direct]
        ren = _Renamer(mapping)
        body = [ren.visit(x) for x in body]
        consts = {mapping.get(pn, pn): v for pn, v in binds if pn not in rebound and (
            isinstance(v, ast.Constant) or (isinstance(v, ast.Tuple) and 0 < len(v.elts) <= 4 and all(
                isinstance(x, (ast.Name, ast.Attribute, ast.Constant)) for x in v.elts)))}
        if consts:
            sub = _SubstName(consts)
            body = [sub.visit(x) for x in body]
            binds = [(pn, v) for pn, v in binds if mapping.get(pn, pn) not in consts]
        loop_body = st.body
        target = st.target

        class _Y(ast.NodeTransformer):
            def visit_Expr(self_, node):
                v = node.value
                if isinstance(v, ast.Yield):
                    val = v.value if v.value is not None else ast.Constant(value=None)
                    a = ast.copy_location(ast.Assign(targets=[copy.deepcopy(target)], value=val, lineno=node.lineno), node)
                    return [a] + copy.deepcopy(loop_body)
                if isinstance(v, ast.YieldFrom):
                    f = ast.For(target=copy.deepcopy(target), iter=v.value, body=copy.deepcopy(loop_body), orelse=[], type_comment=None)
                    return [ast.copy_location(f, node)]
                return node

            def visit_FunctionDef(self_, node):
                return node
            visit_AsyncFunctionDef = visit_Lambda = visit_ClassDef = visit_FunctionDef
        tr = _Y()
        new_body = []
        for x in body:
            r_ = tr.visit(x)
            new_body.extend(r_ if isinstance(r_, list) else [r_])
        marker = ast.Expr(value=ast.Call(func=ast.Name(id=MARKER, ctx=ast.Load()), args=[ast.Constant(value=qual)], keywords=[]))
        out: List[ast.stmt] = [ast.copy_location(marker, st)]
        for pname, val in binds:
            tgt_ = mapping.get(pname, pname)
            if tgt_ == pname and isinstance(val, ast.Name) and val.id == pname:
                continue
            out.append(ast.copy_location(ast.Assign(targets=[ast.Name(id=tgt_, ctx=ast.Store())], value=val, lineno=st.lineno), st))
        for x in out + new_body:
            ast.fix_missing_locations(x)
        self._stack.append(qual)
        try:
            out.extend(self._block(new_body, cls, depth - 1))
        finally:
            self._stack.pop()
        self.inlined.append(qual)
        return out

    CONSUMERS = {"list": ("list", "append"), "tuple": ("list", "append"), "set": ("set", "add"), "dict": ("dict", None), "sorted": ("list", "append")}

    def _lower_gen_consumer(self, e: ast.Call, pre, cls, depth, st):
        """list(self._gen(..)) / tuple / set / dict / sorted of a generator helper: an explicit accumulation loop"""
        nm = e.func.id if isinstance(e.func, ast.Name) else None
        if nm not in self.CONSUMERS or len(e.args) != 1 or e.keywords and nm != "sorted":
            return None
        src, elt_of = e.args[0], None
        # map(F, gen()) and (f(x) for x in gen()) consume the helper element by element as well
        if isinstance(src, ast.Call) and isinstance(src.func, ast.Name) and src.func.id == "map" and len(src.args) == 2 and not src.keywords:
            F = src.args[0]
            fn_ = (A.dotted(F.func) or "").split(".")[-1] if isinstance(F, ast.Call) else None
            if fn_ == "itemgetter" and len(F.args) == 1:
                elt_of = lambda x, F=F: ast.Subscript(value=x, slice=copy.deepcopy(F.args[0]), ctx=ast.Load())      # noqa: E731
            elif fn_ == "attrgetter" and len(F.args) == 1 and isinstance(F.args[0], ast.Constant) and isinstance(F.args[0].value, str):
                elt_of = lambda x, F=F: ast.Attribute(value=x, attr=F.args[0].value, ctx=ast.Load())      # noqa: E731
            else:
                elt_of = lambda x, F=F: ast.Call(func=copy.deepcopy(F), args=[x], keywords=[])      # noqa: E731
            src = src.args[1]
        elif isinstance(src, (ast.GeneratorExp, ast.ListComp)) and len(src.generators) == 1 and not src.generators[0].ifs \
                and isinstance(src.generators[0].target, ast.Name):
            tname, elt = src.generators[0].target.id, src.elt
            elt_of = lambda x, tname=tname, elt=elt: _SubstName({tname: x}).visit(copy.deepcopy(elt))      # noqa: E731
            src = src.generators[0].iter
        if self._gen_target(src, cls) is None:
            return None
        if elt_of is not None and nm == "dict":
            return None
        e = copy.copy(e)
        e.args = [src]
        kind, add = self.CONSUMERS[nm]
        tmp = self._fresh("acc")
        init = {"list": ast.List(elts=[], ctx=ast.Load()), "set": ast.Call(func=ast.Name(id="set", ctx=ast.Load()), args=[], keywords=[]),
                "dict": ast.Dict(keys=[], values=[])}[kind]
        pre.append(ast.copy_location(ast.Assign(targets=[ast.Name(id=tmp, ctx=ast.Store())], value=init, lineno=st.lineno), st))
        if kind == "dict":
            kk, vv = self._fresh("k"), self._fresh("v")
            tgt = ast.Tuple(elts=[ast.Name(id=kk, ctx=ast.Store()), ast.Name(id=vv, ctx=ast.Store())], ctx=ast.Store())
            leaf = ast.Assign(targets=[ast.Subscript(value=ast.Name(id=tmp, ctx=ast.Load()), slice=ast.Name(id=kk, ctx=ast.Load()), ctx=ast.Store())],
                              value=ast.Name(id=vv, ctx=ast.Load()), lineno=st.lineno)
        else:
            it = self._fresh("it")
            tgt = ast.Name(id=it, ctx=ast.Store())
            item = ast.Name(id=it, ctx=ast.Load())
            if elt_of is not None:
                item = elt_of(item)
            leaf = ast.Expr(value=ast.Call(func=ast.Attribute(value=ast.Name(id=tmp, ctx=ast.Load()), attr=add, ctx=ast.Load()),
                                           args=[item], keywords=[]))
        loop = ast.copy_location(ast.For(target=tgt, iter=e.args[0], body=[leaf], orelse=[], type_comment=None), st)
        ast.fix_missing_locations(loop)
        pre.extend(self._stmt(loop, cls, depth))
        res = ast.Name(id=tmp, ctx=ast.Load())
        if nm == "tuple":
            res = ast.Call(func=ast.Name(id="tuple", ctx=ast.Load()), args=[res], keywords=[])
        elif nm == "sorted":
            res = ast.Call(func=ast.Name(id="sorted", ctx=ast.Load()), args=[res], keywords=e.keywords)
        return ast.copy_location(res, e)

    # ------------------------------------------------------------------ expression hoisting
    def _hoist(self, e, pre, cls, depth, st):
        """Inline helper calls found in unconditionally evaluated positions of expression e (innermost first)."""
        if e is None or depth <= 0:
            return e
        if isinstance(e, (ast.Lambda, ast.ListComp, ast.SetComp, ast.DictComp, ast.GeneratorExp, ast.IfExp)):
            if isinstance(e, ast.IfExp):
                e.test = self._hoist(e.test, pre, cls, depth, st)
            elif isinstance(e, (ast.ListComp, ast.SetComp, ast.DictComp, ast.GeneratorExp)):
                e.generators[0].iter = self._hoist(e.generators[0].iter, pre, cls, depth, st)
            return e
        if isinstance(e, ast.Call) and isinstance(e.func, ast.Attribute) and e.func.attr == "join" and len(e.args) == 1 and not e.keywords \
                and self._gen_target(e.args[0], cls) is not None:
            # sep.join(self._lines(..)) consumes the generator helper like sep.join(list(self._lines(..)))
            e.args = [ast.copy_location(ast.Call(func=ast.Name(id="list", ctx=ast.Load()), args=[e.args[0]], keywords=[]), e.args[0])]
            ast.fix_missing_locations(e)
        if isinstance(e, ast.BoolOp):
            e.values[0] = self._hoist(e.values[0], pre, cls, depth, st)
            return e
        if isinstance(e, ast.NamedExpr):
            e.value = self._hoist(e.value, pre, cls, depth, st)
            return e
        for name, val in ast.iter_fields(e):
            if isinstance(val, ast.expr):
                setattr(e, name, self._hoist(val, pre, cls, depth, st))
            elif isinstance(val, list):
                for i, x in enumerate(val):
                    if isinstance(x, ast.expr):
                        val[i] = self._hoist(x, pre, cls, depth, st)
                    elif isinstance(x, ast.keyword):
                        x.value = self._hoist(x.value, pre, cls, depth, st)
        if isinstance(e, ast.Call) and isinstance(e.func, ast.Name) and e.func.id in getattr(self, "_local_fns", {}) and not e.keywords \
                and not any(isinstance(a, ast.Starred) for a in e.args):
            params, body = self._local_fns[e.func.id]
            if len(params) == len(e.args) and all(isinstance(a, (ast.Name, ast.Attribute, ast.Subscript, ast.Constant)) for a in e.args):
                return ast.copy_location(_SubstName(dict(zip(params, e.args))).visit(copy.deepcopy(body)), e)
        if isinstance(e, ast.Call):
            low = self._lower_gen_consumer(e, pre, cls, depth, st)
            if low is not None:
                return low
            blk = self._inline(e, cls, depth, st)
            if blk is not None:
                stmts, ret = blk
                pre.extend(stmts)
                return ast.copy_location(ast.Name(id=ret, ctx=ast.Load()), e)
        return e

    # ------------------------------------------------------------------ inlining one call
    def _fresh(self, stem: str) -> str:
        self.k += 1
        return f"{stem}__{self.k}"

    def _inline(self, call: ast.Call, cls, depth, at_stmt, tail: bool = False) -> Optional[Tuple[List[ast.stmt], str]]:
        if depth <= 0:
            return None
        r = self.resolve(call, cls)
        if r is None:
            return None
        qual, fn, callee_cls, bind_self = r
        short = fn.name
        if short in self.keep or qual in self.keep:
            return None
        if qual in self._stack:
            return None
        try:
            body = A.strip_docstring(copy.deepcopy(fn.body))
            if _contains(ast.Module(body=body, type_ignores=[]), (ast.Match,)):
                body = self._lower_matches_in(body)          # `match` with returns in its cases: the if/elif chain it abbreviates
            if _contains(ast.Module(body=body, type_ignores=[]), (ast.FunctionDef, ast.Lambda)):
                body = self._distribute_callable_aliases(body)      # a conditionally chosen local callable is dissolved at its call sites
            if _contains(ast.Module(body=body, type_ignores=[]),
                         (ast.FunctionDef, ast.AsyncFunctionDef, ast.ClassDef, ast.Lambda, ast.Global, ast.Nonlocal,
                          ast.Yield, ast.YieldFrom, ast.Await)):
                raise _CannotInline("nested definitions / generator")
            if sum(1 for _ in ast.walk(ast.Module(body=body, type_ignores=[])) if isinstance(_, ast.stmt)) > self.max_stmts:
                raise _CannotInline("too large")
            self.k += 1
            k = self.k
            ret = f"ret__{k}"
            binds = self._bind(call, fn, bind_self, k)
            if not tail:
                body = _tailify(body, ret)
        except _CannotInline as e:
            self.opaque.append(f"{qual}: {e}")
            return None
        selfname = fn.args.args[0].arg if (fn.args.args and bind_self is not None) else None
        locals_ = _stored_names(ast.Module(body=body, type_ignores=[])) | {a.arg for a in fn.args.args + fn.args.kwonlyargs + fn.args.posonlyargs}
        if fn.args.vararg:
            locals_.add(fn.args.vararg.arg)
        if fn.args.kwarg:
            locals_.add(fn.args.kwarg.arg)
        mapping = {n: f"{n}__{k}" for n in locals_}
        mapping[ret] = ret
        if selfname and bind_self is True:
            mapping.pop(selfname, None)     # receiver is the caller's own `self`
        # a parameter bound to a plain local name that the helper never rebinds *is* that local (mutations through it
        # are mutations of the caller's object): use the caller's name instead of an alias
        rebound = _stored_names(ast.Module(body=body, type_ignores=[]))
        direct = {}
        for pname, val in binds:
            if isinstance(val, ast.Name) and pname not in rebound and pname in mapping and not (selfname and pname == selfname and bind_self is True):
                direct[pname] = val.id
                mapping[pname] = val.id
        binds = [(pn, v) for pn, v in binds if pn not in direct]
        ren = _Renamer(mapping)
        body = [ren.visit(s) for s in body]
        # a parameter bound to a call of a generator helper and consumed once is that call (its body runs lazily, where it is consumed)
        gens = {}
        for pn, v in binds:
            tgt = mapping.get(pn, pn)
            if pn not in rebound and isinstance(v, ast.Call) and self._gen_target(v, cls) is not None:
                uses = [n for x in body for n in ast.walk(x) if isinstance(n, ast.Name) and n.id == tgt and isinstance(n.ctx, ast.Load)]
                if len(uses) == 1:
                    gens[tgt] = v
        if gens:
            sub = _SubstName(gens)
            body = [sub.visit(x) for x in body]
            binds = [(pn, v) for pn, v in binds if mapping.get(pn, pn) not in gens]
        # a parameter bound to a constant that the helper never rebinds is that constant (mode flags: `undo=False`)
        def _simple_display(v, rows=True):
            return isinstance(v, ast.Tuple) and 0 < len(v.elts) <= 4 and all(
                (isinstance(x, (ast.Name, ast.Attribute, ast.Constant)) and not isinstance(x, ast.Starred)) or (rows and _simple_display(x, False))
                for x in v.elts)
        def _operator_fn(v, tgt_):
            # a parameter bound to `operator.<f>` that the helper only calls: the calls are calls of that function
            if not (isinstance(v, ast.Attribute) and isinstance(v.value, ast.Name) and v.value.id == "operator"):
                return False
            uses = [n for x in body for n in ast.walk(x) if isinstance(n, ast.Name) and n.id == tgt_]
            called = [n for x in body for n in ast.walk(x) if isinstance(n, ast.Call) and isinstance(n.func, ast.Name) and n.func.id == tgt_]
            return bool(uses) and len(uses) == len(called)
        consts = {mapping.get(pn, pn): v for pn, v in binds if pn not in rebound and (isinstance(v, ast.Constant) or _simple_display(v)
                                                                                        or _operator_fn(v, mapping.get(pn, pn)))}
        if consts:
            sub = _SubstName(consts)
            body = [sub.visit(s) for s in body]
            binds = [(pn, v) for pn, v in binds if mapping.get(pn, pn) not in consts]
        # **kwargs that the helper only forwards (`g(x, **kwargs)`): the collected keywords written out at the forwarding call
        if fn.args.kwarg is not None:
            kwn = mapping.get(fn.args.kwarg.arg, fn.args.kwarg.arg)
            kwv = next((v for pn, v in binds if pn == fn.args.kwarg.arg), None)
            uses = [n for x in body for n in ast.walk(x) if isinstance(n, ast.Name) and n.id == kwn]
            fwd = [(c, kw) for x in body for c in ast.walk(x) if isinstance(c, ast.Call) for kw in c.keywords
                   if kw.arg is None and isinstance(kw.value, ast.Name) and kw.value.id == kwn]
            simple = isinstance(kwv, ast.Dict) and all(isinstance(v, (ast.Name, ast.Attribute, ast.Constant, ast.Subscript)) for v in kwv.values)
            if uses and len(uses) == len(fwd) and simple and fn.args.kwarg.arg not in rebound:
                for c, kw in fwd:
                    i_ = c.keywords.index(kw)
                    c.keywords[i_:i_ + 1] = [ast.keyword(arg=k_.value, value=copy.deepcopy(v_)) for k_, v_ in zip(kwv.keys, kwv.values)]
                binds = [(pn, v) for pn, v in binds if pn != fn.args.kwarg.arg]
        # a parameter bound to a one-expression lambda that the helper only calls: the calls are that expression
        lam = {}
        for pn, v in binds:
            tgt_ = mapping.get(pn, pn)
            if isinstance(v, ast.Lambda) and pn not in rebound and not v.args.vararg and not v.args.kwarg and not v.args.defaults and not v.args.kwonlyargs:
                uses = [n for x in body for n in ast.walk(x) if isinstance(n, ast.Name) and n.id == tgt_]
                called = [n for x in body for n in ast.walk(x) if isinstance(n, ast.Call) and isinstance(n.func, ast.Name) and n.func.id == tgt_]
                if uses and len(uses) == len(called):
                    lam[tgt_] = ([a.arg for a in v.args.args], v.body)
        if lam:
            if getattr(self, "_local_fns", None) is None:
                self._local_fns = {}
            self._local_fns.update(lam)
            binds = [(pn, v) for pn, v in binds if mapping.get(pn, pn) not in lam]
        marker = ast.Expr(value=ast.Call(func=ast.Name(id=MARKER, ctx=ast.Load()),
                                         args=[ast.Constant(value=qual)], keywords=[]))
        ast.copy_location(marker, at_stmt)
        stmts: List[ast.stmt] = [marker]
        for pname, val in binds:
            tgt = mapping.get(pname, pname)
            if tgt == pname and isinstance(val, ast.Name) and val.id == pname:
                continue
            a = ast.Assign(targets=[ast.Name(id=tgt, ctx=ast.Store())], value=val, lineno=getattr(at_stmt, "lineno", 0))
            stmts.append(ast.copy_location(a, at_stmt))
            if (isinstance(val, ast.Call) and (A.dotted(val.func) or "") in ("chain", "itertools.chain") and not val.keywords) or \
                    _simple_or_rows_display(val):
                if getattr(self, "_iter_bind", None) is None:
                    self._iter_bind = {}
                self._iter_bind[tgt] = val
        if _falls_through(body) and not tail:
            a = ast.Assign(targets=[ast.Name(id=ret, ctx=ast.Store())], value=ast.Constant(value=None), lineno=getattr(at_stmt, "lineno", 0))
            stmts.append(ast.copy_location(a, at_stmt))
        self._stack.append(qual)
        try:
            stmts.extend(self._block(body, callee_cls, depth - 1))
        finally:
            self._stack.pop()
        if tail and _falls_through(body):
            stmts.append(ast.copy_location(ast.Return(value=ast.Constant(value=None)), at_stmt))
        self.inlined.append(qual)
        for s in stmts:
            ast.fix_missing_locations(s)
        return stmts, ret

    def _inline_cm(self, st: ast.With, cls, depth) -> Optional[List[ast.stmt]]:
        """`with self._helper(args) [as v]: BODY` where _helper is a @contextmanager generator of the shape
        `PRE; yield [x]; POST` or `PRE; try: yield [x] finally: POST`  becomes  PRE; [v = x]; BODY; POST  resp.
        PRE; [v = x]; try: BODY finally: POST  (an exception in BODY skips POST in the first shape, exactly as it does there)"""
        if depth <= 0:
            return None
        call = st.items[0].context_expr
        r = self.resolve(call, cls)
        if r is None:
            return None
        qual, fn, callee_cls, bind_self = r
        if fn.name in self.keep or qual in self.keep or qual in self._stack:
            return None
        decs = [(A.dotted(d) or "").split(".")[-1] for d in fn.decorator_list]
        if "contextmanager" not in decs:
            return None
        body = A.strip_docstring(copy.deepcopy(fn.body))
        ys = [n for n in ast.walk(ast.Module(body=body, type_ignores=[])) if isinstance(n, (ast.Yield, ast.YieldFrom))]
        if len(ys) != 1 or not isinstance(ys[0], ast.Yield):
            return None

        def is_yield_stmt(x):
            return isinstance(x, ast.Expr) and x.value is ys[0]
        pre = post = None
        guarded = False
        for i, x in enumerate(body):
            if is_yield_stmt(x):
                pre, post = body[:i], body[i + 1:]
                break
            if isinstance(x, ast.Try) and len(x.body) == 1 and is_yield_stmt(x.body[0]):
                if body[i + 1:]:
                    return None
                pre, post, guarded = body[:i], list(x.finalbody), x
                break
        if pre is None or _has_return(pre + post):
            return None
        if guarded is not False and _has_return([guarded]):
            return None
        try:
            self.k += 1
            k = self.k
            binds = self._bind(call, fn, bind_self, k)
        except _CannotInline as e:
            self.opaque.append(f"{qual}: {e}")
            return None
        selfname = fn.args.args[0].arg if (fn.args.args and bind_self is not None) else None
        whole = ast.Module(body=pre + post + ([guarded] if guarded is not False else []), type_ignores=[])
        locals_ = _stored_names(whole) | {a.arg for a in fn.args.args + fn.args.kwonlyargs}
        mapping = {n: f"{n}__{k}" for n in locals_}
        if selfname and bind_self is True:
            mapping.pop(selfname, None)
        # a parameter bound to a plain local that the helper never rebinds *is* that local
        rebound_cm = _stored_names(whole)
        with_body_stores = {n.id for b in st.body for n in ast.walk(b) if isinstance(n, ast.Name) and isinstance(n.ctx, (ast.Store, ast.Del))}
        direct_cm = {}
        for pname, val in binds:
            if isinstance(val, ast.Name) and pname not in rebound_cm and pname in mapping and val.id not in with_body_stores \
                    and not (selfname and pname == selfname and bind_self is True):
                direct_cm[pname] = val.id
                mapping[pname] = val.id
        binds = [(pn, v) for pn, v in binds if pn not in direct_cm]
        ren = _Renamer(mapping)
        yval = ren.visit(copy.deepcopy(ys[0].value)) if ys[0].value is not None else ast.Constant(value=None)
        pre = [ren.visit(x) for x in pre]
        post = [ren.visit(x) for x in post]
        marker = ast.Expr(value=ast.Call(func=ast.Name(id=MARKER, ctx=ast.Load()), args=[ast.Constant(value=qual)], keywords=[]))
        out: List[ast.stmt] = [ast.copy_location(marker, st)]
        for pname, val in binds:
            tgt = mapping.get(pname, pname)
            if tgt == pname and isinstance(val, ast.Name) and val.id == pname:
                continue
            out.append(ast.copy_location(ast.Assign(targets=[ast.Name(id=tgt, ctx=ast.Store())], value=val, lineno=st.lineno), st))
        self._stack.append(qual)
        try:
            out.extend(self._block(pre, callee_cls, depth - 1))
            if st.items[0].optional_vars is not None:
                out.append(ast.copy_location(ast.Assign(targets=[st.items[0].optional_vars], value=yval, lineno=st.lineno), st))
            inner = self._block(st.body, cls, depth)
            post_n = self._block(post, callee_cls, depth - 1)
        finally:
            self._stack.pop()
        if guarded is not False:
            # the generator's own try statement around the yield, with the `with` body in the yield's place
            handlers = []
            for h in guarded.handlers:
                h2 = ren.visit(copy.deepcopy(h))
                h2.body = self._block(h2.body, callee_cls, depth - 1)
                handlers.append(h2)
            orelse = self._block([ren.visit(copy.deepcopy(x)) for x in guarded.orelse], callee_cls, depth - 1)
            out.append(ast.copy_location(ast.Try(body=inner, handlers=handlers, orelse=orelse, finalbody=post_n), st))
        else:
            out.extend(inner)
            out.extend(post_n)
        self.inlined.append(qual)
        for x in out:
            ast.fix_missing_locations(x)
        return out

    def _bind(self, call: ast.Call, fn, bind_self, k) -> List[Tuple[str, ast.expr]]:
        a = fn.args
        if a.posonlyargs:
            raise _CannotInline("positional-only parameters in the helper's signature")
        if any(isinstance(x, ast.Starred) for x in call.args) or any(kw.arg is None for kw in call.keywords):
            raise _CannotInline("star arguments at the call site")
        params = [p.arg for p in a.args]
        defaults = A.param_defaults(fn)
        out: List[Tuple[str, ast.expr]] = []
        pos = list(call.args)
        extra = None
        if a.vararg:
            # *rest collects the surplus positional arguments into a tuple
            n_fixed = len(params) - (1 if bind_self is not None else 0)
            extra = ast.Tuple(elts=pos[n_fixed:], ctx=ast.Load())
            pos = pos[:n_fixed]
        if bind_self is not None:       # method: first parameter is the receiver
            if not params:
                raise _CannotInline("method without self")
            recv = call.func.value if isinstance(call.func, ast.Attribute) else None
            if recv is None:
                raise _CannotInline("no receiver")
            out.append((params[0], recv))
            params = params[1:]
        if len(pos) > len(params):
            raise _CannotInline("too many positional arguments")
        given: Dict[str, ast.expr] = {}
        for p, v in zip(params, pos):
            given[p] = v
        surplus: List[ast.keyword] = []
        for kw in call.keywords:
            if kw.arg in given:
                raise _CannotInline(f"keyword {kw.arg} does not match the helper's signature")
            if kw.arg not in params and kw.arg not in [x.arg for x in a.kwonlyargs]:
                if a.kwarg is None:
                    raise _CannotInline(f"keyword {kw.arg} does not match the helper's signature")
                surplus.append(kw)      # collected by **kwargs
                continue
            given[kw.arg] = kw.value
        for p in params + [x.arg for x in a.kwonlyargs]:
            if p in given:
                out.append((p, given[p]))
            elif p in defaults:
                out.append((p, copy.deepcopy(defaults[p])))
            else:
                raise _CannotInline(f"missing argument {p}")
        if extra is not None:
            out.append((a.vararg.arg, extra))
        if a.kwarg is not None:
            out.append((a.kwarg.arg, ast.Dict(keys=[ast.Constant(value=kw.arg) for kw in surplus], values=[kw.value for kw in surplus])))
        return out

    # ------------------------------------------------------------------ lowering
    @staticmethod
    def _first_nested_ifexp(e, budget=[0]):
        """the first conditional expression in an unconditionally evaluated position of expression e (not the expression itself
        handled elsewhere), searched depth-first left to right; None if there is none"""
        if e is None:
            return None
        if isinstance(e, ast.IfExp):
            return e
        if isinstance(e, (ast.Lambda, ast.ListComp, ast.SetComp, ast.DictComp, ast.GeneratorExp)):
            return None
        if isinstance(e, ast.BoolOp):
            return Normalizer._first_nested_ifexp(e.values[0])
        for _f, val in ast.iter_fields(e):
            if isinstance(val, ast.expr):
                r = Normalizer._first_nested_ifexp(val)
                if r is not None:
                    return r
            elif isinstance(val, list):
                for x in val:
                    if isinstance(x, ast.keyword):
                        x = x.value
                    if isinstance(x, ast.expr):
                        r = Normalizer._first_nested_ifexp(x)
                        if r is not None:
                            return r
        return None

    @staticmethod
    def _plain_choice(ie) -> bool:
        """test and arms read names, attributes and constants only (so making the choice earlier changes nothing)"""
        ok = (ast.Name, ast.Attribute, ast.Constant, ast.Compare, ast.Is, ast.IsNot, ast.Eq, ast.NotEq, ast.Load, ast.UnaryOp, ast.Not)
        return all(isinstance(n, ok) for part in (ie.test, ie.body, ie.orelse) for n in ast.walk(part))

    @staticmethod
    def _is_private_helper_argument(e, ie) -> bool:
        """ie is directly an argument of a call of a private helper (`_x(...)` / `self._x(...)`), itself evaluated unconditionally
        and not after another call's effects in e"""
        for n in ast.walk(e):
            if isinstance(n, ast.Call) and (any(a is ie for a in n.args) or any(k.value is ie for k in n.keywords)):
                f = n.func
                name = f.id if isinstance(f, ast.Name) else f.attr if isinstance(f, ast.Attribute) and isinstance(f.value, ast.Name) and f.value.id == "self" else None
                return name is not None and name.startswith("_") and not name.startswith("__")
        return False

    def _lower_ifexp_stmt(self, st) -> Optional[ast.stmt]:
        def mk(test, a, b):
            return ast.copy_location(ast.If(test=test, body=[a], orelse=[b]), st)
        # a conditional expression nested in a simple statement: the statement once per arm
        if isinstance(st, (ast.Return, ast.Assign, ast.Expr, ast.AugAssign)) and st.value is not None and not isinstance(st.value, ast.IfExp):
            ie = self._first_nested_ifexp(st.value)
            if ie is not None and self._is_private_helper_argument(st.value, ie) and self._plain_choice(ie):
                # a plain choice handed to a private helper: the choice is made once, then the helper is called (one inlined
                # copy with the argument an alternative of both, as if the caller had rebound a local before the call)
                self._hoist_n = getattr(self, "_hoist_n", 0) + 1
                tmp = f"choice__{self._hoist_n}"
                c = copy.deepcopy(st)
                orig = [n for n in ast.walk(st) if isinstance(n, ast.IfExp)]
                dup = [n for n in ast.walk(c) if isinstance(n, ast.IfExp)]
                tgt = dup[orig.index(ie)]

                class _Rep2(ast.NodeTransformer):
                    def visit_IfExp(self_, node):
                        if node is tgt:
                            return ast.copy_location(ast.Name(id=tmp, ctx=ast.Load()), node)
                        self_.generic_visit(node)
                        return node
                c = _Rep2().visit(c)
                first = mk(copy.deepcopy(ie.test),
                           ast.copy_location(ast.Assign(targets=[ast.Name(id=tmp, ctx=ast.Store())], value=copy.deepcopy(ie.body), lineno=st.lineno), st),
                           ast.copy_location(ast.Assign(targets=[ast.Name(id=tmp, ctx=ast.Store())], value=copy.deepcopy(ie.orelse), lineno=st.lineno), st))
                ast.fix_missing_locations(first)
                ast.fix_missing_locations(c)
                return [first, c]
            if ie is not None and sum(1 for n in ast.walk(st) if isinstance(n, ast.IfExp)) <= 3:
                def variant(arm):
                    c = copy.deepcopy(st)
                    # locate the corresponding IfExp in the copy by position in walk order
                    orig = [n for n in ast.walk(st) if isinstance(n, ast.IfExp)]
                    dup = [n for n in ast.walk(c) if isinstance(n, ast.IfExp)]
                    tgt = dup[orig.index(ie)]

                    class _Rep(ast.NodeTransformer):
                        def visit_IfExp(self_, node):
                            if node is tgt:
                                return node.body if arm else node.orelse
                            self_.generic_visit(node)
                            return node
                    return _Rep().visit(c)
                a, b = variant(True), variant(False)
                res = mk(copy.deepcopy(ie.test), a, b)
                ast.fix_missing_locations(res)
                return res
        if isinstance(st, ast.Assign) and isinstance(st.value, ast.IfExp):
            v = st.value
            return mk(v.test, ast.copy_location(ast.Assign(targets=copy.deepcopy(st.targets), value=v.body, lineno=st.lineno), st),
                      ast.copy_location(ast.Assign(targets=copy.deepcopy(st.targets), value=v.orelse, lineno=st.lineno), st))
        if isinstance(st, ast.Return) and isinstance(st.value, ast.IfExp):
            v = st.value
            return mk(v.test, ast.copy_location(ast.Return(value=v.body), st), ast.copy_location(ast.Return(value=v.orelse), st))
        return None

    def _comp_calls_helper(self, st, cls) -> bool:
        """a comprehension assigned / returned whose element expression calls a helper that would be inlined as a statement: only the
        loop form can show what the helper does per element"""
        v = getattr(st, "value", None)
        if not isinstance(st, (ast.Assign, ast.Return)) or not isinstance(v, (ast.ListComp, ast.SetComp, ast.DictComp)):
            return False
        parts = [v.key, v.value] if isinstance(v, ast.DictComp) else [v.elt]
        # ... or it ranges over a generator helper, which is dissolved only at a `for` statement
        if any(isinstance(g.iter, ast.Call) and self._gen_target(g.iter, cls) is not None for g in v.generators):
            return True
        for part in parts:
            for c in ast.walk(part):
                if isinstance(c, ast.Call):
                    r = self.resolve(c, cls)
                    if r is not None and r[1].name not in self.keep and r[0] not in self.keep and r[0] not in self._stack:
                        body = A.strip_docstring(r[1].body)
                        if not (len(body) == 1 and isinstance(body[0], ast.Return)):      # one-expression helpers are substituted in place anyway
                            return True
        return False

    def _lower_comp_stmt(self, st) -> Optional[List[ast.stmt]]:
        comp = None
        if isinstance(st, ast.Assign) and len(st.targets) == 1 and isinstance(st.targets[0], ast.Name) \
                and isinstance(st.value, (ast.ListComp, ast.SetComp, ast.DictComp)):
            comp, name, tail = st.value, st.targets[0].id, []
        elif isinstance(st, ast.Return) and isinstance(st.value, (ast.ListComp, ast.SetComp, ast.DictComp)):
            comp, name = st.value, self._fresh("comp")
            tail = [ast.copy_location(ast.Return(value=ast.Name(id=name, ctx=ast.Load())), st)]
        if comp is None:
            return None
        self.k += 1
        k = self.k
        bound = set()
        for g in comp.generators:
            bound |= set(A.target_names(g.target))
        ren = _Renamer({n: f"{n}__c{k}" for n in bound})
        comp = ren.visit(copy.deepcopy(comp))
        if isinstance(comp, ast.ListComp):
            init = ast.List(elts=[], ctx=ast.Load())
            leaf = ast.Expr(value=ast.Call(func=ast.Attribute(value=ast.Name(id=name, ctx=ast.Load()), attr="append", ctx=ast.Load()),
                                           args=[comp.elt], keywords=[]))
        elif isinstance(comp, ast.SetComp):
            init = ast.Call(func=ast.Name(id="set", ctx=ast.Load()), args=[], keywords=[])
            leaf = ast.Expr(value=ast.Call(func=ast.Attribute(value=ast.Name(id=name, ctx=ast.Load()), attr="add", ctx=ast.Load()),
                                           args=[comp.elt], keywords=[]))
        else:
            init = ast.Dict(keys=[], values=[])
            leaf = ast.Assign(targets=[ast.Subscript(value=ast.Name(id=name, ctx=ast.Load()), slice=comp.key, ctx=ast.Store())],
                              value=comp.value, lineno=st.lineno)
        inner: ast.stmt = leaf
        for g in reversed(comp.generators):
            for cond in reversed(g.ifs):
                inner = ast.If(test=cond, body=[inner], orelse=[])
            inner = ast.For(target=g.target, iter=g.iter, body=[inner], orelse=[], lineno=st.lineno)
        out = [ast.Assign(targets=[ast.Name(id=name, ctx=ast.Store())], value=init, lineno=st.lineno), inner] + tail
        for s in out:
            ast.copy_location(s, st)
            for n in ast.walk(s):
                if not hasattr(n, "lineno") and isinstance(n, (ast.stmt, ast.expr)):
                    ast.copy_location(n, st)
            ast.fix_missing_locations(s)
        return out


# ---------------------------------------------------------------------- resolver over the Repo model

_FIELD_CLASS_CACHE: Dict[tuple, object] = {}


def _field_class(repo, cls, field: str):
    key = (id(repo), cls.name, field)
    if key in _FIELD_CLASS_CACHE:
        return _FIELD_CLASS_CACHE[key]
    found = set()
    other = False
    for k in repo.mro(cls):
        for fn in k.methods.values():
            for n in ast.walk(fn):
                if isinstance(n, ast.Assign):
                    for t in n.targets:
                        if isinstance(t, ast.Attribute) and isinstance(t.value, ast.Name) and t.value.id == "self" and t.attr == field:
                            v = n.value
                            nm = A.dotted(v.func).split(".")[-1] if isinstance(v, ast.Call) and A.dotted(v.func) else None
                            if nm and nm in repo.classes:
                                found.add(nm)
                            else:
                                other = True
    res = repo.classes[next(iter(found))] if (len(found) == 1 and not other) else None
    if res is None and not found and not other:
        res = _property_class(repo, cls, field)
    _FIELD_CLASS_CACHE[key] = res
    return res


def _class_of_expr(repo, e, fn, cls=None, depth=1):
    """class constructed by expression e (a constructor call, or a local bound once to one) inside function fn (a method of cls):
    `K(..)`, `self.__class__(..)` / `type(self)(..)`, or `self._helper(..)` whose every return is such a construction"""
    if isinstance(e, ast.Call) and A.dotted(e.func) and A.dotted(e.func).split(".")[-1] in repo.classes:
        return repo.classes[A.dotted(e.func).split(".")[-1]]
    if isinstance(e, ast.Call) and cls is not None:
        f = e.func
        if A.dotted(f) == "self.__class__" or (isinstance(f, ast.Call) and A.dotted(f.func) == "type" and len(f.args) == 1
                                                and A.dotted(f.args[0]) == "self"):
            return cls
        if depth > 0 and isinstance(f, ast.Attribute) and isinstance(f.value, ast.Name) and f.value.id == "self" and f.attr.startswith("_"):
            r = repo.lookup(cls, f.attr)
            if r is not None and f.attr not in r[0].properties:
                rets = [n for n in ast.walk(r[1]) if isinstance(n, ast.Return)]
                ks = {id(k): k for k in (_class_of_expr(repo, x.value, r[1], cls, depth - 1) if x.value is not None else None for x in rets)}
                if rets and len(ks) == 1 and None not in ks.values():
                    return next(iter(ks.values()))
    if isinstance(e, ast.Name):
        vals = [n.value for n in ast.walk(fn) if isinstance(n, ast.Assign) and any(isinstance(t, ast.Name) and t.id == e.id for t in n.targets)]
        if len(vals) == 1:
            return _class_of_expr(repo, vals[0], fn, cls, depth) if not isinstance(vals[0], ast.Name) else None
    return None


def _property_class(repo, cls, field: str):
    """property `field` that returns self.A.B: B is set by A's constructor from an argument whose class is known"""
    r = repo.lookup(cls, field)
    if r is None or field not in r[0].properties:
        return None
    body = A.strip_docstring(r[1].body)
    if not (len(body) == 1 and isinstance(body[0], ast.Return)):
        return None
    e = body[0].value
    if not (isinstance(e, ast.Attribute) and isinstance(e.value, ast.Attribute) and isinstance(e.value.value, ast.Name) and e.value.value.id == "self"):
        return None
    a_name, b_name = e.value.attr, e.attr
    ka = _field_class(repo, cls, a_name)
    if ka is None:
        return None
    init = repo.lookup(ka, "__init__")
    if init is None:
        return None
    params = [p.arg for p in init[1].args.args][1:]
    src_param = None
    for n in ast.walk(init[1]):
        if isinstance(n, ast.Assign) and isinstance(n.value, ast.Name) and n.value.id in params:
            for t in n.targets:
                if isinstance(t, ast.Attribute) and isinstance(t.value, ast.Name) and t.value.id == "self" and t.attr == b_name:
                    src_param = n.value.id
    if src_param is None:
        return None
    found = set()
    for k in repo.mro(cls):
        for fn in k.methods.values():
            for n in ast.walk(fn):
                if isinstance(n, ast.Assign) and isinstance(n.value, ast.Call) and any(
                        isinstance(t, ast.Attribute) and isinstance(t.value, ast.Name) and t.value.id == "self" and t.attr == a_name for t in n.targets):
                    c = n.value
                    arg = next((kw.value for kw in c.keywords if kw.arg == src_param), None)
                    if arg is None and params.index(src_param) < len(c.args):
                        arg = c.args[params.index(src_param)]
                    kc = _class_of_expr(repo, arg, fn) if arg is not None else None
                    found.add(kc.name if kc is not None else None)
    if len(found) == 1 and None not in found:
        return repo.classes[next(iter(found))]
    return None


def make_resolver(repo, module, private_only: bool = True, also: Optional[Set[str]] = None):
    """Resolve `self.m(...)` through the class hierarchy and bare `f(...)` to module functions.

    By default only *private* helpers (leading underscore, no dunder) are resolved: public methods are the
    units the rules name as anchors.  `also` adds further method / function names.
    """
    also = set(also or ())

    def wanted(name: str) -> bool:
        if name in also:
            return True
        if not private_only:
            return not (name.startswith("__") and name.endswith("__"))
        return name.startswith("_") and not (name.startswith("__") and name.endswith("__"))

    def resolve(call: ast.Call, cls):
        f = call.func
        if isinstance(f, ast.Attribute) and isinstance(f.value, ast.Name) and f.value.id == "self" and cls is not None:
            if not wanted(f.attr):
                return None
            r = repo.lookup(cls, f.attr)
            if r is None:
                return None
            k, fn = r
            if f.attr in k.properties:
                return None
            # dynamic dispatch: a method overridden in a subclass of the receiver's class is not a single target
            for sub in repo.subclasses(cls.name):
                if sub is not cls and f.attr in sub.methods and sub.methods[f.attr] is not fn:
                    return None
            body = A.strip_docstring(fn.body)
            if len(body) == 1 and isinstance(body[0], ast.Raise):
                return None     # abstract
            decs = [A.dotted(d) or "" for d in fn.decorator_list]
            if "classmethod" in decs:
                return None
            if "staticmethod" in decs:
                return f"{k.name}.{fn.name}", fn, cls, None
            if not fn.args.args or fn.args.args[0].arg != "self":
                return None
            return f"{k.name}.{fn.name}", fn, cls, True
        if isinstance(f, ast.Attribute) and isinstance(f.value, ast.Attribute) and isinstance(f.value.value, ast.Name) \
                and f.value.value.id == "self" and cls is not None and wanted(f.attr):
            # self.<field>.<helper>(...): the field's class is known when every assignment to it constructs the same class
            k = _field_class(repo, cls, f.value.attr)
            if k is None:
                return None
            r = repo.lookup(k, f.attr)
            if r is None:
                return None
            k2, fn = r
            if f.attr in k2.properties:
                return None
            for sub in repo.subclasses(k.name):
                if sub is not k and f.attr in sub.methods and sub.methods[f.attr] is not fn:
                    return None
            body = A.strip_docstring(fn.body)
            if len(body) == 1 and isinstance(body[0], ast.Raise):
                return None
            decs = [A.dotted(d) or "" for d in fn.decorator_list]
            if decs or not fn.args.args or fn.args.args[0].arg != "self":
                return None
            return f"{k2.name}.{fn.name}", fn, k, False     # False: the receiver is bound to the helper's `self`
        cur = getattr(resolve, "current_fn", None)
        if isinstance(f, ast.Attribute) and isinstance(f.value, ast.Name) and f.value.id not in ("self", "cls") and cur is not None \
                and f.attr.startswith("_") and not f.attr.startswith("__"):
            # local.<helper>(...) where `local` is bound exactly once, to a fresh instance of a class of the package
            k = _class_of_expr(repo, f.value, cur, cls)
            params = {a.arg for a in cur.args.args + cur.args.kwonlyargs + cur.args.posonlyargs}
            if k is not None and f.value.id not in params:
                r = repo.lookup(k, f.attr)
                if r is not None:
                    k2, fn = r
                    body = A.strip_docstring(fn.body)
                    decs = [A.dotted(d) or "" for d in fn.decorator_list]
                    if f.attr not in k2.properties and not decs and fn.args.args and fn.args.args[0].arg == "self" \
                            and not (len(body) == 1 and isinstance(body[0], ast.Raise)) \
                            and not any(sub is not k and f.attr in sub.methods and sub.methods[f.attr] is not fn for sub in repo.subclasses(k.name)):
                        return f"{k2.name}.{fn.name}", fn, k, False
        if isinstance(f, ast.Name):
            mod = module
            if not wanted(f.id):
                # a public module function that is one `return <expression>` is a named expression: dissolve it too
                fn0 = mod.functions.get(f.id)
                body0 = A.strip_docstring(fn0.body) if fn0 is not None else []
                if not (len(body0) == 1 and isinstance(body0[0], ast.Return) and body0[0].value is not None
                        and not fn0.decorator_list and not fn0.args.vararg and not fn0.args.kwarg):
                    return None
            if f.id in mod.functions:
                return f"{mod.name.split('.')[-1]}.{f.id}", mod.functions[f.id], None, None
            tgt = mod.imports.get(f.id)
            if tgt:
                # from .sorting import toposort  ->  xdeps.sorting.toposort
                parts = tgt.lstrip(".").split(".")
                if len(parts) >= 2:
                    mname, fname = ".".join(parts[:-1]), parts[-1]
                    for cand in (f"xdeps.{mname}", mname, f"{mod.name.rsplit('.', 1)[0]}.{mname}"):
                        m2 = repo.modules.get(cand)
                        if m2 is not None and fname in m2.functions:
                            return f"{mname.split('.')[-1]}.{fname}", m2.functions[fname], None, None
            return None
        return None

    return resolve
