"""Abstract interpretation of a numpy expression subset over symbolic array shapes.

A shape is a tuple of dimension symbols (strings) or ints; () is a scalar.  Two
dimensions are compatible only if they are the same symbol (or one of them is
the literal 1, numpy broadcasting).  Distinct symbols stand for lengths that
differ in general, so a transposition or axis slip that happens to work on
square / symmetric samples is a shape error here.
"""
from __future__ import annotations

import ast
from typing import Dict, Optional, Tuple

from . import astutil as A

Shape = Tuple


class ShapeError(Exception):
    pass


class Unsupported(Exception):
    pass


def broadcast(a: Shape, b: Shape, what: str) -> Shape:
    out = []
    ra, rb = list(reversed(a)), list(reversed(b))
    for i in range(max(len(ra), len(rb))):
        x = ra[i] if i < len(ra) else 1
        y = rb[i] if i < len(rb) else 1
        if x == y or y == 1:
            out.append(x)
        elif x == 1:
            out.append(y)
        else:
            raise ShapeError(f"cannot broadcast {a} with {b} in `{what}` (axis lengths {x} and {y} differ in general)")
    return tuple(reversed(out))


def matmul(a: Shape, b: Shape, what: str) -> Shape:
    if len(a) == 0 or len(b) == 0:
        raise ShapeError(f"matmul with a scalar in `{what}`")
    if len(a) == 1 and len(b) == 1:
        if a[0] != b[0]:
            raise ShapeError(f"inner dimensions {a[0]} and {b[0]} differ in `{what}`")
        return ()
    if len(a) == 2 and len(b) == 1:
        if a[1] != b[0]:
            raise ShapeError(f"inner dimensions {a[1]} and {b[0]} differ in `{what}`")
        return (a[0],)
    if len(a) == 1 and len(b) == 2:
        if a[0] != b[0]:
            raise ShapeError(f"inner dimensions {a[0]} and {b[0]} differ in `{what}`")
        return (b[1],)
    if len(a) == 2 and len(b) == 2:
        if a[1] != b[0]:
            raise ShapeError(f"inner dimensions {a[1]} and {b[0]} differ in `{what}`")
        return (a[0], b[1])
    raise Unsupported(f"matmul of ranks {len(a)} and {len(b)}")


class Interp:
    def __init__(self, env: Dict[str, Shape], bounds: Dict[str, str] = None):
        self.env = dict(env)
        self.bounds = dict(bounds or {})   # name of an integer variable -> dimension symbol it stands for when used as slice bound
        self.result: Optional[Shape] = None
        self.returns = []

    # ------------------------------------------------------------------ expressions
    def ev(self, e) -> Shape:
        s = A.src(e)
        if isinstance(e, ast.Constant):
            return ()
        d = A.dotted(e)
        if d is not None and d in self.env:
            return self.env[d]
        if isinstance(e, ast.Attribute) and e.attr == "T":
            return tuple(reversed(self.ev(e.value)))
        if isinstance(e, ast.Attribute) and e.attr in ("real", "imag"):
            return self.ev(e.value)
        if isinstance(e, ast.UnaryOp):
            return self.ev(e.operand)
        if isinstance(e, ast.BinOp):
            if isinstance(e.op, ast.MatMult):
                return matmul(self.ev(e.left), self.ev(e.right), s)
            return broadcast(self.ev(e.left), self.ev(e.right), s)
        if isinstance(e, ast.Compare) and len(e.ops) == 1:
            return broadcast(self.ev(e.left), self.ev(e.comparators[0]), s)
        if isinstance(e, ast.Subscript):
            return self.index(self.ev(e.value), e.slice, s)
        if isinstance(e, ast.Call):
            n = A.call_name(e) or ""
            if n in ("np.dot", "numpy.dot"):
                a, b = self.ev(e.args[0]), self.ev(e.args[1])
                if len(a) == 0 or len(b) == 0:
                    return broadcast(a, b, s)
                return matmul(a, b, s)
            if n in ("np.outer", "numpy.outer"):
                a, b = self.ev(e.args[0]), self.ev(e.args[1])
                if len(a) != 1 or len(b) != 1:
                    raise ShapeError(f"np.outer of shapes {a}, {b} in `{s}`")
                return (a[0], b[0])
            if n in ("np.diag", "numpy.diag"):
                a = self.ev(e.args[0])
                if len(a) == 1:
                    return (a[0], a[0])
                if len(a) == 2:
                    if a[0] != a[1]:
                        raise ShapeError(f"np.diag of a non-square {a} in `{s}`")
                    return (a[0],)
            if n in ("np.zeros_like", "np.ones_like", "np.abs", "np.sqrt", "np.array", "np.asarray", "np.copy", "np.atleast_1d"):
                return self.ev(e.args[0])
            if n in ("np.zeros", "np.ones", "np.empty") and e.args:
                a = e.args[0]
                elts = a.elts if isinstance(a, ast.Tuple) else [a]
                return tuple(self.dim_of(x) for x in elts)
            if n == "len":
                return ()
            if n in ("np.sum", "np.linalg.norm", "float", "int"):
                return ()
            if isinstance(e.func, ast.Attribute) and e.func.attr == "copy":
                return self.ev(e.func.value)
            raise Unsupported(f"call `{s}`")
        raise Unsupported(f"expression `{s}`")

    def dim_of(self, e):
        """dimension symbol denoted by an integer expression such as len(x) or a bound variable"""
        if isinstance(e, ast.Call) and A.call_name(e) == "len" and e.args:
            sh = self.ev(e.args[0])
            if not sh:
                raise ShapeError(f"len() of a scalar `{A.src(e)}`")
            return sh[0]
        if isinstance(e, ast.Constant) and isinstance(e.value, int):
            return e.value
        d = A.dotted(e)
        if d in self.bounds:
            return self.bounds[d]
        raise Unsupported(f"dimension `{A.src(e)}`")

    def index(self, base: Shape, sl, what: str) -> Shape:
        items = sl.elts if isinstance(sl, ast.Tuple) else [sl]
        if len(items) > len(base):
            raise ShapeError(f"too many indices for shape {base} in `{what}`")
        out = []
        for i, it in enumerate(items):
            dim = base[i]
            if isinstance(it, ast.Slice):
                if it.lower is None and it.upper is None:
                    out.append(dim)
                elif it.lower is None and A.dotted(it.upper) in self.bounds:
                    out.append(self.bounds[A.dotted(it.upper)])
                else:
                    raise Unsupported(f"slice `{A.src(it)}`")
            elif isinstance(it, ast.Constant) and isinstance(it.value, int):
                continue
            else:
                ish = None
                try:
                    ish = self.ev(it)
                except Unsupported:
                    ish = None
                if ish == ():
                    continue                      # integer index
                if ish is not None and len(ish) == 1:
                    # boolean mask / index array over this axis: must have been built for this axis length
                    if ish[0] != dim and not str(ish[0]).startswith("idx"):
                        raise ShapeError(f"mask/index of length {ish[0]} applied to an axis of length {dim} in `{what}`")
                    out.append(f"sel({A.src(it)})")
                elif isinstance(it, ast.Name):
                    continue                      # loop index
                else:
                    raise Unsupported(f"index `{A.src(it)}`")
        out += list(base[len(items):])
        return tuple(out)

    # ------------------------------------------------------------------ statements
    def run(self, stmts):
        for st in stmts:
            self.stmt(st)

    def stmt(self, st):
        if isinstance(st, ast.Expr) and isinstance(st.value, ast.Constant):
            return
        if isinstance(st, ast.Assign) and len(st.targets) == 1:
            t = st.targets[0]
            if isinstance(t, ast.Name):
                self.env[t.id] = self.ev(st.value)
                return
            if isinstance(t, ast.Subscript):
                lhs = self.index(self.ev(t.value), t.slice, A.src(st))
                rhs = self.ev(st.value)
                broadcast(lhs, rhs, A.src(st))
                return
            if isinstance(t, ast.Attribute):
                self.env[A.dotted(t)] = self.ev(st.value)
                return
        if isinstance(st, ast.AugAssign):
            if isinstance(st.target, ast.Subscript):
                lhs = self.index(self.ev(st.target.value), st.target.slice, A.src(st))
            else:
                lhs = self.ev(st.target)
            broadcast(lhs, self.ev(st.value), A.src(st))
            return
        if isinstance(st, ast.If):
            before = dict(self.env)
            ends_a = bool(st.body) and isinstance(st.body[-1], (ast.Return, ast.Raise, ast.Continue, ast.Break))
            ends_b = bool(st.orelse) and isinstance(st.orelse[-1], (ast.Return, ast.Raise, ast.Continue, ast.Break))
            self.run(st.body)
            a = self.env
            self.env = dict(before)
            self.run(st.orelse)
            b = self.env
            if ends_a and not ends_b:
                self.env = b
                return
            if ends_b and not ends_a:
                self.env = a
                return
            merged = {}
            for k in set(a) | set(b):
                if k in a and k in b:
                    if a[k] != b[k]:
                        raise ShapeError(f"`{k}` has shape {a[k]} on one branch and {b[k]} on the other of `if {A.src(st.test)}`")
                    merged[k] = a[k]
                else:
                    merged[k] = a.get(k, b.get(k))
            self.env = merged
            return
        if isinstance(st, ast.Return):
            if st.value is not None:
                try:
                    self.returns.append(self.ev(st.value))
                except Unsupported:
                    self.returns.append(None)
            return
        if isinstance(st, (ast.Raise, ast.Assert)):
            return
        if isinstance(st, (ast.Pass,)):
            return
        raise Unsupported(f"statement `{A.src(st)[:60]}`")


# ---------------------------------------------------------------------- the same on symbolic terms (xsa.sym)


class TermShapes:
    """Shapes of xsa.sym terms.  `env` maps leaf terms (self.U, a parameter, ...) to shapes; `bounds` maps integer-valued
    terms used as slice bounds / sizes to the dimension symbol they stand for.  Alternatives must agree."""

    def __init__(self, env: Dict[tuple, Shape], bounds: Dict[tuple, str] = None):
        self.env = dict(env)
        self.bounds = dict(bounds or {})

    def of(self, t) -> Shape:
        from . import sym as S
        if t in self.env:
            return self.env[t]
        k = t[0] if isinstance(t, tuple) and t else None
        s = S.show(t)[:80]
        if k == "alt":
            shapes = {self.of(a) for a in t[1]}
            if len(shapes) != 1:
                raise ShapeError(f"alternatives of `{s}` have different shapes {sorted(map(str, shapes))}")
            return shapes.pop()
        if k == "const":
            return ()
        if k == "attr":
            if t[2] == "T":
                return tuple(reversed(self.of(t[1])))
            if t[2] in ("real", "imag"):
                return self.of(t[1])
            raise Unsupported(f"attribute `{s}`")
        if k == "uop":
            return self.of(t[2])
        if k in ("op", "aug"):
            if t[1] == "@":
                return matmul(self.of(t[2]), self.of(t[3]), s)
            return broadcast(self.of(t[2]), self.of(t[3]), s)
        if k == "cmp":
            return broadcast(self.of(t[2]), self.of(t[3]), s)
        if k == "sub":
            return self.index(self.of(t[1]), t[2], s)
        if k == "item":
            raise Unsupported(f"tuple component `{s}`")
        if k == "call":
            f = t[1]
            name = None
            if f[:1] == ("attr",) and f[1] in (("glob", "np"), ("glob", "numpy")):
                name = "np." + f[2]
            elif f[:1] == ("glob",):
                name = f[1]
            a = t[2]
            if name == "np.dot":
                x, y = self.of(a[0]), self.of(a[1])
                if len(x) == 0 or len(y) == 0:
                    return broadcast(x, y, s)
                return matmul(x, y, s)
            if name == "np.outer":
                x, y = self.of(a[0]), self.of(a[1])
                if len(x) != 1 or len(y) != 1:
                    raise ShapeError(f"np.outer of shapes {x}, {y} in `{s}`")
                return (x[0], y[0])
            if name == "np.diag":
                x = self.of(a[0])
                if len(x) == 1:
                    return (x[0], x[0])
                if len(x) == 2:
                    if x[0] != x[1]:
                        raise ShapeError(f"np.diag of a non-square {x} in `{s}`")
                    return (x[0],)
            if name in ("np.zeros_like", "np.ones_like", "np.abs", "np.sqrt", "np.array", "np.asarray", "np.copy", "np.atleast_1d", "np.squeeze"):
                return self.of(a[0])
            if name in ("np.zeros", "np.ones", "np.empty") and a:
                elts = a[0][1] if a[0][:1] == ("tuple",) else (a[0],)
                return tuple(self.dim_of(x) for x in elts)
            if name in ("len", "np.sum", "float", "int") or (f[:1] == ("attr",) and f[1] == ("attr", ("glob", "np"), "linalg") and f[2] == "norm"):
                return ()
            if f[:1] == ("attr",) and f[2] == "copy":
                return self.of(f[1])
            raise Unsupported(f"call `{s}`")
        raise Unsupported(f"expression `{s}`")

    def dim_of(self, t):
        from . import sym as S
        if t in self.bounds:
            return self.bounds[t]
        if t[:1] == ("bool",) and t[1] == "or":
            t = ("alt", t[2])       # `a or b` is one of them
        if t[:1] == ("alt",):
            ds = {self.dim_of(a) for a in t[1]}
            if len(ds) == 1:
                return ds.pop()
            raise ShapeError(f"size `{S.show(t)}` stands for different lengths {sorted(map(str, ds))}")
        if S.is_call_of(t, ("glob", "len")) and t[2]:
            sh = self.of(t[2][0])
            if not sh:
                raise ShapeError(f"len() of a scalar `{S.show(t)}`")
            return sh[0]
        if t[:1] == ("const",):
            try:
                return int(t[1])
            except ValueError:
                pass
        raise Unsupported(f"dimension `{S.show(t)}`")

    def index(self, base: Shape, sl, what: str) -> Shape:
        from . import sym as S
        items = sl[1] if sl[:1] == ("tuple",) else (sl,)
        if len(items) > len(base):
            raise ShapeError(f"too many indices for shape {base} in `{what}`")
        out = []
        for i, it in enumerate(items):
            dim = base[i]
            if it[:1] == ("slice",):
                lo, hi, st = it[1], it[2], it[3]
                if lo is None and hi is None:
                    out.append(dim)
                elif lo is None and hi is not None:
                    out.append(self.dim_of(hi))
                else:
                    raise Unsupported(f"slice `{S.show(it)}`")
            elif it[:1] == ("const",):
                continue
            elif it[:1] in (("elem",), ("index",)):
                continue    # loop index
            else:
                ish = self.of(it)
                if ish == ():
                    continue
                if len(ish) == 1:
                    if ish[0] != dim:
                        raise ShapeError(f"mask/index of length {ish[0]} applied to an axis of length {dim} in `{what}`")
                    out.append(f"sel({S.show(it)[:40]})")
                else:
                    raise Unsupported(f"index `{S.show(it)}`")
        out += list(base[len(items):])
        return tuple(out)
