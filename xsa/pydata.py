"""Python data-model tables (language-level facts, not copies of the repository)."""
import ast

# forward dunder -> (ast operator class, source token, reflected dunder or None, in-place dunder or None)
BINARY = {
    "__add__": (ast.Add, "+", "__radd__", "__iadd__"),
    "__sub__": (ast.Sub, "-", "__rsub__", "__isub__"),
    "__mul__": (ast.Mult, "*", "__rmul__", "__imul__"),
    "__matmul__": (ast.MatMult, "@", "__rmatmul__", "__imatmul__"),
    "__truediv__": (ast.Div, "/", "__rtruediv__", "__itruediv__"),
    "__floordiv__": (ast.FloorDiv, "//", "__rfloordiv__", "__ifloordiv__"),
    "__mod__": (ast.Mod, "%", "__rmod__", "__imod__"),
    "__pow__": (ast.Pow, "**", "__rpow__", "__ipow__"),
    "__and__": (ast.BitAnd, "&", "__rand__", "__iand__"),
    "__or__": (ast.BitOr, "|", "__ror__", "__ior__"),
    "__xor__": (ast.BitXor, "^", "__rxor__", "__ixor__"),
    "__lshift__": (ast.LShift, "<<", "__rlshift__", "__ilshift__"),
    "__rshift__": (ast.RShift, ">>", "__rrshift__", "__irshift__"),
}
# rich comparisons: Python itself reflects `a < ref` into `ref > a`; there is no __rlt__ protocol name
COMPARE = {
    "__lt__": (ast.Lt, "<"),
    "__le__": (ast.LtE, "<="),
    "__gt__": (ast.Gt, ">"),
    "__ge__": (ast.GtE, ">="),
}
# deferred (in)equality is offered under non-protocol names because __eq__ is identity of refs
EQUALITY_HELPERS = {"_eq": (ast.Eq, "=="), "_neq": (ast.NotEq, "!=")}
UNARY = {
    "__neg__": (ast.USub, "-"),
    "__pos__": (ast.UAdd, "+"),
    "__invert__": (ast.Invert, "~"),
}
# dunder -> (callable it must defer to, names of extra parameters Python passes, their defaults in Python's own builtin)
BUILTINS = {
    "__abs__": ("builtins.abs", [], {}),
    "__round__": ("builtins.round", ["ndigits"], {"ndigits": None}),
    "__divmod__": ("builtins.divmod", ["other"], {}),
    "__trunc__": ("math.trunc", [], {}),
    "__floor__": ("math.floor", [], {}),
    "__ceil__": ("math.ceil", [], {}),
}
NON_PROTOCOL = ("__rlt__", "__rle__", "__rgt__", "__rge__")

# binding strength used by the printing rules (higher binds tighter)
PRECEDENCE = {
    "**": 14, "unary": 13, "*": 12, "@": 12, "/": 12, "//": 12, "%": 12, "+": 11, "-": 11,
    "<<": 10, ">>": 10, "&": 9, "^": 8, "|": 7, "<": 6, "<=": 6, ">": 6, ">=": 6, "==": 6, "!=": 6,
}
