"""Statement-level control-flow graph for one Python function (hand built; the
standard library has none).

Nodes
  ENTRY, EXIT (normal return / falling off the end), RAISE (exception leaves the function)
  one node per simple statement (`kind == "stmt"`)
  one node per branch test: `if`, `while`, `assert` (`kind == "test"`), `for` header (`kind == "for"`),
  `with` header (`kind == "with"`), exception handler entry (`kind == "except"`)
  reified branch edges: after every test two pseudo nodes `kind == "T"` / `"F"` (for a `for` header:
  T = next item, F = exhausted), so that "S executes only under guard G" is a dominance query.

Edges carry `kind`: "n" normal, "x" exceptional (statement raises -> handler / RAISE).
"""
from __future__ import annotations

import ast
from dataclasses import dataclass
from typing import Dict, Iterable, List, Optional, Set

import networkx as nx

from . import astutil as A


@dataclass
class Node:
    id: int
    kind: str            # entry exit raise stmt test for with except T F join
    ast: Optional[ast.AST] = None
    of: Optional[int] = None   # for T/F: id of the test node
    from_assert: bool = False  # test node (and its T/F) created for an `assert`

    def __repr__(self):
        if self.ast is not None and self.kind in ("stmt", "test", "for", "with"):
            return f"<{self.id}:{self.kind} L{getattr(self.ast, 'lineno', '?')} {A.src(self.ast)[:50]!r}>"
        return f"<{self.id}:{self.kind}>"


class _Ctx:
    def __init__(self):
        self.loops: List[tuple] = []      # (continue_target, break_collector:list)
        self.handlers: List[List[int]] = []  # stack of lists of handler entry nodes; [] = none
        self.catch_all: List[bool] = []


class CFG:
    def __init__(self, fn: ast.AST):
        self.fn = fn
        self.g = nx.DiGraph()
        self.nodes: Dict[int, Node] = {}
        self._n = 0
        self.ENTRY = self._new("entry")
        self.EXIT = self._new("exit")
        self.RAISE = self._new("raise")
        self.of_ast: Dict[int, int] = {}   # id(ast stmt / test expr) -> node id
        self.approx: List[str] = []
        ctx = _Ctx()
        body = fn.body if not isinstance(fn, ast.Lambda) else [ast.Return(value=fn.body)]
        out = self._seq(body, [self.ENTRY], ctx)
        for p in out:
            self._edge(p, self.EXIT)
        self._idom = None
        self._pdom = None
        self._refined = None

    @property
    def refined(self) -> "FlagCFG":
        """flag-refined view (same path-query API); see FlagCFG"""
        if self._refined is None:
            self._refined = FlagCFG(self)
        return self._refined

    # ------------------------------------------------------------------ construction
    def _new(self, kind, node=None, of=None) -> int:
        i = self._n
        self._n += 1
        self.nodes[i] = Node(i, kind, node, of)
        self.g.add_node(i)
        if node is not None and kind in ("stmt", "test", "for", "with", "except"):
            self.of_ast[id(node)] = i
        return i

    def _edge(self, a, b, kind="n"):
        if self.g.has_edge(a, b):
            if kind == "n":
                self.g[a][b]["kind"] = "n"
            return
        self.g.add_edge(a, b, kind=kind)

    def _exc(self, n, ctx: _Ctx):
        """Statement n may raise: edge to the enclosing handlers (or RAISE)."""
        depth = len(ctx.handlers) - 1
        while depth >= 0:
            for h in ctx.handlers[depth]:
                self._edge(n, h, "x")
            if ctx.catch_all[depth]:
                return
            depth -= 1
        self._edge(n, self.RAISE, "x")

    def _branch(self, test_node: int):
        t = self._new("T", self.nodes[test_node].ast, of=test_node)
        f = self._new("F", self.nodes[test_node].ast, of=test_node)
        self._edge(test_node, t)
        self._edge(test_node, f)
        return t, f

    def _seq(self, stmts, preds: List[int], ctx: _Ctx) -> List[int]:
        for st in stmts:
            preds = self._stmt(st, preds, ctx)
        return preds

    def _link(self, preds, n):
        for p in preds:
            self._edge(p, n)

    def _stmt(self, st, preds: List[int], ctx: _Ctx) -> List[int]:
        if isinstance(st, ast.If):
            n = self._new("test", st.test)
            self._link(preds, n)
            self._exc(n, ctx)
            t, f = self._branch(n)
            out = self._seq(st.body, [t], ctx)
            out += self._seq(st.orelse, [f], ctx)
            return out
        if isinstance(st, ast.While):
            n = self._new("test", st.test)
            self._link(preds, n)
            self._exc(n, ctx)
            t, f = self._branch(n)
            breaks: List[int] = []
            ctx.loops.append((n, breaks))
            body_out = self._seq(st.body, [t], ctx)
            ctx.loops.pop()
            self._link(body_out, n)
            const_true = isinstance(st.test, ast.Constant) and bool(st.test.value) is True
            if const_true:
                self.g.remove_edge(n, f)
                out = []
            else:
                out = self._seq(st.orelse, [f], ctx)
            return out + breaks
        if isinstance(st, (ast.For, ast.AsyncFor)):
            n = self._new("for", st)
            self._link(preds, n)
            self._exc(n, ctx)
            t, f = self._branch(n)
            breaks = []
            ctx.loops.append((n, breaks))
            body_out = self._seq(st.body, [t], ctx)
            ctx.loops.pop()
            self._link(body_out, n)
            out = self._seq(st.orelse, [f], ctx)
            return out + breaks
        if isinstance(st, (ast.With, ast.AsyncWith)):
            n = self._new("with", st)
            self._link(preds, n)
            self._exc(n, ctx)
            return self._seq(st.body, [n], ctx)
        if isinstance(st, ast.Try) or st.__class__.__name__ == "TryStar":
            h_entries = []
            catch_all = False
            for h in st.handlers:
                hn = self._new("except", h)
                h_entries.append(hn)
                if h.type is None:
                    catch_all = True
                else:
                    names = [A.dotted(e) for e in (h.type.elts if isinstance(h.type, ast.Tuple) else [h.type])]
                    if any(nm in ("Exception", "BaseException") for nm in names):
                        catch_all = True
            ctx.handlers.append(h_entries)
            ctx.catch_all.append(catch_all)
            body_out = self._seq(st.body, preds, ctx)
            ctx.handlers.pop()
            ctx.catch_all.pop()
            out = self._seq(st.orelse, body_out, ctx)
            for h, hn in zip(st.handlers, h_entries):
                out += self._seq(h.body, [hn], ctx)
            if st.finalbody:
                self.approx.append("finally: modelled on normal completion only")
                out = self._seq(st.finalbody, out, ctx)
            return out
        if isinstance(st, ast.Return):
            n = self._new("stmt", st)
            self._link(preds, n)
            self._exc(n, ctx)
            self._edge(n, self.EXIT)
            return []
        if isinstance(st, ast.Raise):
            n = self._new("stmt", st)
            self._link(preds, n)
            self._exc(n, ctx)
            return []
        if isinstance(st, ast.Break):
            n = self._new("stmt", st)
            self._link(preds, n)
            if ctx.loops:
                ctx.loops[-1][1].append(n)
            return []
        if isinstance(st, ast.Continue):
            n = self._new("stmt", st)
            self._link(preds, n)
            if ctx.loops:
                self._edge(n, ctx.loops[-1][0])
            return []
        if isinstance(st, ast.Assert):
            n = self._new("test", st.test)
            self.nodes[n].from_assert = True
            self.of_ast[id(st)] = n
            self._link(preds, n)
            self._exc(n, ctx)
            t, f = self._branch(n)
            self.nodes[t].from_assert = True
            self.nodes[f].from_assert = True
            self._exc(f, ctx)
            return [t]
        if isinstance(st, (ast.FunctionDef, ast.AsyncFunctionDef, ast.ClassDef)):
            n = self._new("stmt", st)
            self._link(preds, n)
            return [n]
        if st.__class__.__name__ == "Match":
            raise NotImplementedError("match statement")
        # simple statement
        n = self._new("stmt", st)
        self._link(preds, n)
        if not isinstance(st, (ast.Pass, ast.Global, ast.Nonlocal, ast.Import, ast.ImportFrom)):
            self._exc(n, ctx)
        return [n]

    # ------------------------------------------------------------------ queries
    def node_of(self, ast_node) -> Optional[int]:
        return self.of_ast.get(id(ast_node))

    def stmt_nodes(self) -> List[Node]:
        return [n for n in self.nodes.values() if n.kind in ("stmt", "test", "for", "with")]

    def containing(self, inner: ast.AST) -> Optional[int]:
        """CFG node whose own expression(s) contain the ast node `inner`."""
        for n in self.nodes.values():
            if n.kind not in ("stmt", "test", "for", "with") or n.ast is None:
                continue
            for part in self._own_parts(n):
                for x in A.walk(part):
                    if x is inner:
                        return n.id
        return None

    def _own_parts(self, n: Node):
        a = n.ast
        if n.kind == "for":
            return [a.target, a.iter]
        if n.kind == "with":
            return [it.context_expr for it in a.items] + [it.optional_vars for it in a.items if it.optional_vars]
        return [a]

    def own_exprs(self, nid: int):
        return self._own_parts(self.nodes[nid])

    def find(self, pred) -> List[int]:
        """node ids whose own expressions contain an ast node satisfying pred."""
        out = []
        for n in self.nodes.values():
            if n.kind not in ("stmt", "test", "for", "with") or n.ast is None:
                continue
            hit = False
            for part in self._own_parts(n):
                for x in A.walk(part):
                    if pred(x):
                        hit = True
                        break
                if hit:
                    break
            if hit:
                out.append(n.id)
        return sorted(out)

    @property
    def idom(self):
        if self._idom is None:
            self._idom = nx.immediate_dominators(self.g, self.ENTRY)
        return self._idom

    def dominates(self, a: int, b: int) -> bool:
        """every path ENTRY -> b passes a"""
        if b not in self.idom:
            return True  # unreachable
        cur = b
        while True:
            if cur == a:
                return True
            nxt = self.idom.get(cur)
            if nxt is None or nxt == cur:
                return cur == a
            cur = nxt

    def dominators(self, b: int) -> List[int]:
        out = []
        if b not in self.idom:
            return out
        cur = b
        while True:
            out.append(cur)
            nxt = self.idom.get(cur)
            if nxt is None or nxt == cur:
                break
            cur = nxt
        return out

    def reachable(self, a: int, avoid: Iterable[int] = (), normal_only: bool = False, effect_of: Iterable[int] = ()) -> Set[int]:
        """`effect_of`: nodes whose *normal completion* is to be avoided: they may be entered, but are left only along an
        exceptional edge (the statement raised before it took effect, a handler continues)"""
        avoid = set(avoid)
        effect_of = set(effect_of)
        seen = set()
        todo = [a]
        while todo:
            x = todo.pop()
            for y in self.g.successors(x):
                if y in avoid or y in seen:
                    continue
                if normal_only and self.g[x][y]["kind"] == "x":
                    continue
                if x in effect_of and x != a and self.g[x][y]["kind"] != "x":
                    continue
                seen.add(y)
                todo.append(y)
        return seen

    def path_avoiding(self, a: int, b: int, avoid: Iterable[int], normal_only: bool = False) -> bool:
        """is there a path a ->+ b that touches none of `avoid`?"""
        return b in self.reachable(a, avoid, normal_only)

    def must_pass(self, a: int, b: int, via: Iterable[int], normal_only: bool = False) -> bool:
        """every path a ->+ b passes through a node of `via` and completes it (vacuously true if b unreachable): a path on which the
        `via` statement raises into a handler that carries on to b does not count as having passed"""
        via = list(via)
        if b in via:
            return True
        return b not in self.reachable(a, (), normal_only, effect_of=via)

    def reaches_exit_normally(self, a: int) -> bool:
        return self.EXIT in self.reachable(a)

    def guards(self, nid: int) -> List[Node]:
        """branch pseudo-nodes (T/F) that dominate nid, innermost first"""
        return [self.nodes[d] for d in self.dominators(nid) if self.nodes[d].kind in ("T", "F") and d != nid]

    def cond_guards(self, nid: int) -> List[Node]:
        """guards that come from if/while tests only (loop headers and asserts excluded)"""
        import ast as _ast
        return [g for g in self.guards(nid) if not isinstance(g.ast, (_ast.For, _ast.AsyncFor)) and not g.from_assert]

    def in_loop(self, nid: int) -> bool:
        return nid in self.reachable(nid)

    def topo_position(self, nid: int) -> int:
        return getattr(self.nodes[nid].ast, "lineno", 0)


# ---------------------------------------------------------------------- flag / sentinel refinement


def _flag_tests(test):
    """(name, kind, arg, polarity on the T branch): kind "truth" for `v` / `not v`, kind "is" for `v is X` / `v is not X`
    with X None or a non-local name (a sentinel)"""
    if isinstance(test, ast.Name):
        return test.id, "truth", None, True
    if isinstance(test, ast.UnaryOp) and isinstance(test.op, ast.Not):
        r = _flag_tests(test.operand)
        return (r[0], r[1], r[2], not r[3]) if r is not None else None
    if isinstance(test, ast.Compare) and len(test.ops) == 1 and isinstance(test.left, ast.Name) and isinstance(test.ops[0], (ast.Is, ast.IsNot)):
        c = test.comparators[0]
        arg = "None" if (isinstance(c, ast.Constant) and c.value is None) else c.id if isinstance(c, ast.Name) else None
        if arg is not None:
            return test.left.id, "is", arg, isinstance(test.ops[0], ast.Is)
    return None


OTHER = "<other>"


class FlagCFG:
    """Path queries on the product of a CFG with the values of its local *flags*.

    A flag is a local name (no parameter, no loop target, no augmented assignment) that is tested as `v`, `not v`,
    `v is X` or `v is not X` and is somewhere assigned a constant True / False / None, a sentinel (a name that is not
    local to the function, e.g. a module-level `_MISSING = object()`) or a copy of another flag.  Any other value
    assigned to it is tracked as "something else", which is assumed not to be a sentinel object (sentinels are private
    to the module) -- it may be None.  Tests on flags are then decided along each path, which removes the infeasible
    paths of the idioms

        found = False                      for x in xs:                         r = _first(xs)   # returns x or _NONE
        for x in xs:                           if p(x): ...; break              if r is _NONE: ...
            if p(x): found = True; break   else:
        if not found: ...                      ...

    so that all spellings answer path queries alike.  With no flags the product is the CFG itself.
    """

    def __init__(self, cfg: CFG):
        self.cfg = cfg
        self._assign = {}        # nid -> (flag, abstract value | ("copy", src))
        self.flags = self._find_flags()
        self._succ = {}
        self._states = None

    def _find_flags(self):
        cfg = self.cfg
        bad = set()
        local = set()
        fn = cfg.fn
        if hasattr(fn, "args"):
            a = fn.args
            for p in a.posonlyargs + a.args + a.kwonlyargs:
                bad.add(p.arg)
            if a.vararg:
                bad.add(a.vararg.arg)
            if a.kwarg:
                bad.add(a.kwarg.arg)
        plain = {}      # name -> [(nid, value ast)]
        tested = set()
        walrus_tests = {}
        self._walrus_tests = walrus_tests
        for n in cfg.nodes.values():
            st = n.ast
            if st is None:
                continue
            if n.kind == "for":
                bad.update(A.target_names(st.target))
            elif n.kind == "with":
                for it in st.items:
                    if it.optional_vars is not None:
                        bad.update(A.target_names(it.optional_vars))
            elif n.kind == "except":
                if getattr(st, "name", None):
                    bad.add(st.name)
            elif n.kind == "stmt":
                if isinstance(st, ast.Assign):
                    for t in st.targets:
                        if isinstance(t, ast.Name) and len(st.targets) == 1:
                            plain.setdefault(t.id, []).append((n.id, st.value))
                        else:
                            bad.update(A.target_names(t))
                elif isinstance(st, (ast.AugAssign, ast.AnnAssign)):
                    bad.update(A.target_names(st.target))
                elif isinstance(st, ast.Delete):
                    for t in st.targets:
                        bad.update(A.target_names(t))
                for x in A.walk(st):
                    if isinstance(x, ast.NamedExpr):
                        bad.add(x.target.id)
            elif n.kind == "test":
                top = st
                while isinstance(top, ast.UnaryOp) and isinstance(top.op, ast.Not):
                    top = top.operand
                for x in A.walk(st):
                    if isinstance(x, ast.NamedExpr):
                        if x is top:
                            # `if (c := E):` assigns c and tests it: the branch taken tells c's truth value
                            plain.setdefault(x.target.id, []).append((n.id, x.value))
                            walrus_tests[n.id] = x.target.id
                        else:
                            bad.add(x.target.id)
                ft = _flag_tests(top.target if isinstance(top, ast.NamedExpr) else st)
                if ft is not None:
                    tested.add(ft[0])
        local = set(plain) | bad

        def absval(v):
            if isinstance(v, ast.Constant) and isinstance(v.value, bool):
                return bool(v.value)
            if isinstance(v, ast.Constant) and v.value is None:
                return ("tok", "None")
            if isinstance(v, ast.Name):
                if v.id in plain and v.id not in bad:
                    return ("copy", v.id)
                if v.id not in local:
                    return ("tok", v.id)
            return OTHER
        cand = {f for f in plain if f not in bad}
        # follow copies backwards from the tested names
        want = {f for f in tested if f in cand}
        grew = True
        while grew:
            grew = False
            for f in list(want):
                for _nid, v in plain[f]:
                    av = absval(v)
                    if isinstance(av, tuple) and av[0] == "copy" and av[1] in cand and av[1] not in want:
                        want.add(av[1])
                        grew = True

        def informative(f, seen=()):
            for _nid, v in plain[f]:
                av = absval(v)
                if av is True or av is False or (isinstance(av, tuple) and av[0] == "tok"):
                    return True
                if isinstance(av, tuple) and av[0] == "copy" and av[1] in want and av[1] not in seen and informative(av[1], seen + (f,)):
                    return True
            return False
        flags = sorted(f for f in want)       # a flag without an informative assignment still learns from the branches taken
        for f in flags:
            for nid, v in plain[f]:
                av = absval(v)
                if isinstance(av, tuple) and av[0] == "copy" and av[1] not in flags:
                    av = OTHER
                self._assign[nid] = (f, av)
        return flags

    @staticmethod
    def _truth_of(ident):
        if ident is True or ident is False:
            return ident
        if isinstance(ident, tuple) and ident[0] == "tok":
            return False if ident[1] == "None" else True      # sentinels are plain objects: truthy
        return None

    def _decide(self, val, kind, arg):
        """truth value of the test on a flag whose abstract value is val = (identity, truth), or None if unknown"""
        if val is None:
            return None
        ident, truth = val
        if kind == "truth":
            return truth
        # kind == "is"
        if isinstance(ident, tuple) and ident[0] == "tok":
            return ident[1] == arg
        if ident is True or ident is False:
            return False
        if arg == "None" and truth is True:
            return False
        if ident == OTHER:
            return None if arg == "None" else False
        return None

    def _step(self, state):
        """successor states of (nid, env); env is a tuple aligned with self.flags of abstract values (None = unknown)"""
        if state in self._succ:
            return self._succ[state]
        nid, env = state
        cfg = self.cfg
        n = cfg.nodes[nid]
        out = []
        env2 = env
        if nid in self._assign and n.kind != "test":
            f, av = self._assign[nid]
            i = self.flags.index(f)
            if isinstance(av, tuple) and av[0] == "copy":
                val = env[self.flags.index(av[1])]
            else:
                val = (av, self._truth_of(av))
            env2 = env[:i] + (val,) + env[i + 1:]
        ft = None
        if n.kind == "test":
            top, flip = n.ast, False
            while isinstance(top, ast.UnaryOp) and isinstance(top.op, ast.Not):
                top, flip = top.operand, not flip
            if isinstance(top, ast.NamedExpr) and self._walrus_tests.get(nid) in self.flags:
                # the walrus (re)binds the flag to something else; the branch then tells its truth value
                f = self._walrus_tests[nid]
                i = self.flags.index(f)
                env2 = env[:i] + ((OTHER, None),) + env[i + 1:]
                ft = (f, "truth", None, not flip)
            else:
                ft = _flag_tests(n.ast)
                if ft is not None and ft[0] not in self.flags:
                    ft = None
        for s in cfg.g.successors(nid):
            kind = cfg.g[nid][s]["kind"]
            sn = cfg.nodes[s]
            e = env2 if kind != "x" else env      # an exception leaves before the assignment took effect
            if ft is not None and sn.kind in ("T", "F") and sn.of == nid:
                i = self.flags.index(ft[0])
                cur = e[i]
                holds = self._decide(cur, ft[1], ft[2])
                taken = (sn.kind == "T") if ft[3] else (sn.kind != "T")      # truth of the positive test on this branch
                if holds is not None:
                    if taken != holds:
                        continue
                else:
                    # the branch taken is knowledge about the flag until it is assigned again
                    ident = cur[0] if cur is not None else None
                    if ft[1] == "truth":
                        e = e[:i] + ((ident, taken),) + e[i + 1:]
                    elif taken:
                        tok = ("tok", ft[2])
                        e = e[:i] + ((tok, self._truth_of(tok)),) + e[i + 1:]
            out.append(((s, e), kind))
        self._succ[state] = out
        return out

    def states(self):
        """all reachable product states, from (ENTRY, unknown...)"""
        if self._states is None:
            start = (self.cfg.ENTRY, tuple(None for _ in self.flags))
            seen = {start}
            todo = [start]
            while todo:
                st = todo.pop()
                for nx_, _k in self._step(st):
                    if nx_ not in seen:
                        seen.add(nx_)
                        todo.append(nx_)
            self._states = seen
        return self._states

    def reachable(self, a: int, avoid: Iterable[int] = (), normal_only: bool = False, effect_of: Iterable[int] = ()) -> Set[int]:
        avoid = set(avoid)
        effect_of = set(effect_of)
        seen_states = set()
        out = set()
        todo = [st for st in self.states() if st[0] == a]
        while todo:
            st = todo.pop()
            for nx_, k in self._step(st):
                if nx_[0] in avoid or nx_ in seen_states:
                    continue
                if normal_only and k == "x":
                    continue
                if st[0] in effect_of and st[0] != a and k != "x":
                    continue
                seen_states.add(nx_)
                out.add(nx_[0])
                todo.append(nx_)
        return out

    def path_avoiding(self, a: int, b: int, avoid: Iterable[int], normal_only: bool = False) -> bool:
        return b in self.reachable(a, avoid, normal_only)

    def must_pass(self, a: int, b: int, via: Iterable[int], normal_only: bool = False) -> bool:
        via = list(via)
        if b in via:
            return True
        return b not in self.reachable(a, (), normal_only, effect_of=via)

    def feasible(self, nid: int) -> bool:
        return any(st[0] == nid for st in self.states())
