"""Per-class field tables of xdeps/refs.py (every subclass of BaseRef).

For each class: declared Cython fields, the __cinit__ that applies, the
parameter -> field map, the fields in the `_hash` tuple, in the `__reduce__`
tuple, rendered by `__repr__`, read (through _mk_value) by `_get_value`, and
traversed by `_get_dependencies`.
"""
from __future__ import annotations

import ast
from typing import Dict, List, Optional, Set, Tuple

from . import astutil as A
from .core import AnalysisError, ClassInfo, Repo
from .cfg import CFG


def _local_alias(fn) -> Dict[str, ast.expr]:
    """name -> value for names assigned exactly once in fn (flow-insensitive)"""
    cnt: Dict[str, int] = {}
    val: Dict[str, ast.expr] = {}
    for n in A.walk(fn):
        if isinstance(n, ast.Assign) and len(n.targets) == 1 and isinstance(n.targets[0], ast.Name):
            nm = n.targets[0].id
            cnt[nm] = cnt.get(nm, 0) + 1
            val[nm] = n.value
        elif isinstance(n, (ast.AugAssign,)) and isinstance(n.target, ast.Name):
            cnt[n.target.id] = cnt.get(n.target.id, 0) + 2
        elif isinstance(n, (ast.For, ast.comprehension)):
            for nm in A.target_names(n.target):
                cnt[nm] = cnt.get(nm, 0) + 2
    return {k: v for k, v in val.items() if cnt[k] == 1}


def resolve_local(e, alias: Dict[str, ast.expr], depth=4):
    while isinstance(e, ast.Name) and e.id in alias and depth > 0:
        e = alias[e.id]
        depth -= 1
    return e


def is_mk_value(c) -> bool:
    return isinstance(c, ast.Call) and isinstance(c.func, ast.Attribute) and c.func.attr == "_mk_value" and len(c.args) == 1


def _enclosing_elem_field(fn, node, name: str) -> Optional[str]:
    """field F if `name` is bound by the innermost enclosing loop/comprehension over self.F around `node`"""
    best = None
    def rec(cur, binding):
        nonlocal best
        if cur is node:
            best = binding
            return True
        nb = binding
        if isinstance(cur, ast.For) and name in A.target_names(cur.target):
            nb = {A.self_attr(x) for x in A.walk(cur.iter) if A.self_attr(x)} or None
        if isinstance(cur, (ast.ListComp, ast.SetComp, ast.GeneratorExp, ast.DictComp)):
            for g in cur.generators:
                if name in A.target_names(g.target):
                    nb = {A.self_attr(x) for x in A.walk(g.iter) if A.self_attr(x)} or None
        for ch in ast.iter_child_nodes(cur):
            if isinstance(cur, ast.For) and ch in (cur.target, cur.iter):
                if rec(ch, binding):
                    return True
                continue
            if rec(ch, nb):
                return True
        return False
    rec(fn, None)
    return best


class RefClass:
    def __init__(self, repo: Repo, c: ClassInfo):
        self.repo = repo
        self.c = c
        self.name = c.name
        self.mro = repo.mro(c)
        self.declared: Set[str] = set()
        for k in self.mro:
            for nm, v in k.consts.items():
                if isinstance(v, ast.Call) and A.call_name(v) == "cython.declare":
                    self.declared.add(nm)
        self.abstract = self._abstract()

    def _abstract(self) -> bool:
        r = self.repo.lookup(self.c, "_get_value")
        if r is None:
            return True
        fn = r[1]
        body = A.strip_docstring(fn.body)
        return len(body) == 1 and isinstance(body[0], ast.Raise)

    # ---- method resolution
    def method(self, name) -> Optional[Tuple[ClassInfo, ast.FunctionDef]]:
        return self.repo.lookup(self.c, name)

    def cinits(self) -> List[Tuple[ClassInfo, ast.FunctionDef]]:
        return [(k, k.methods["__cinit__"]) for k in self.mro if "__cinit__" in k.methods]

    def param_field(self) -> Dict[str, Dict[str, str]]:
        """class name -> {param: field} for every __cinit__ along the MRO"""
        out = {}
        for k, fn in self.cinits():
            ps = A.params(fn)[1:]
            m: Dict[str, str] = {}
            for n in A.walk(fn):
                if isinstance(n, ast.Assign) and len(n.targets) == 1:
                    f = A.self_attr(n.targets[0])
                    if f and f != "_hash":
                        used = [p for p in ps if p in A.names_loaded(n.value)]
                        if len(used) == 1:
                            m.setdefault(used[0], f)
            out[k.name] = m
        return out

    def field_of_param(self, param: str) -> Optional[str]:
        for m in self.param_field().values():
            if param in m:
                return m[param]
        return None

    def assigned_fields(self) -> Set[str]:
        out = set()
        for k, fn in self.cinits():
            for n in A.walk(fn):
                if isinstance(n, ast.Assign):
                    for t in n.targets:
                        f = A.self_attr(t)
                        if f:
                            out.add(f)
        return out

    def hash_def(self):
        """(class, fn, tuple-elements) of the `self._hash = hash((...))` that applies (first along the MRO)"""
        for k, fn in self.cinits():
            for n in A.walk(fn):
                if isinstance(n, ast.Assign) and any(A.self_attr(t) == "_hash" for t in n.targets):
                    v = n.value
                    if isinstance(v, ast.Call) and A.call_name(v) == "hash" and len(v.args) == 1 and isinstance(v.args[0], ast.Tuple):
                        return k, fn, n, v.args[0].elts
                    return k, fn, n, None
        return None

    def hash_fields(self) -> Tuple[Set[str], bool, List[str]]:
        """(fields, has type discriminator, unrecognised elements)"""
        h = self.hash_def()
        if h is None or h[3] is None:
            return set(), False, ["<no hash tuple>"]
        k, fn, _, elts = h
        pf = self.param_field().get(k.name, {})
        allpf = {}
        for m in self.param_field().values():
            for p, f in m.items():
                allpf.setdefault(p, f)
        fields, disc, unk = set(), False, []
        for e in elts:
            s = A.src(e)
            if s in ("type(self).__name__", "self.__class__", "type(self)", "self.__class__.__name__"):
                disc = True
            elif A.self_attr(e):
                fields.add(A.self_attr(e))
            elif isinstance(e, ast.Name) and (e.id in pf or e.id in allpf):
                fields.add(pf.get(e.id) or allpf[e.id])
            else:
                unk.append(s)
        return fields, disc, unk

    def reduce_fields(self):
        r = self.method("__reduce__")
        if r is None:
            return None
        k, fn = r
        body = A.strip_docstring(fn.body)
        if len(body) == 1 and isinstance(body[0], ast.Raise):
            return k, fn, "abstract", None
        rets = [n for n in A.walk(fn) if isinstance(n, ast.Return)]
        if len(rets) != 1 or not isinstance(rets[0].value, ast.Tuple) or len(rets[0].value.elts) != 2:
            return k, fn, "unrecognised", None
        ctor, args = rets[0].value.elts
        if not isinstance(args, ast.Tuple):
            return k, fn, "unrecognised", None
        return k, fn, A.src(ctor), [A.self_attr(e) or A.src(e) for e in args.elts]

    def repr_info(self):
        """(class, fn, {field: how}) -- how in {'!r','!s','plain'} for every self.<field> mentioned in __repr__"""
        r = self.method("__repr__")
        if r is None:
            return None
        k, fn = r
        alias = _local_alias(fn)
        fields: Dict[str, str] = {}
        for n in A.walk(fn):
            if isinstance(n, ast.FormattedValue):
                for x in A.walk(n.value):
                    f = A.self_attr(x)
                    if f:
                        fields[f] = "!r" if n.conversion == ord("r") else "plain"
            elif isinstance(n, ast.Call) and A.call_name(n) in ("repr", "str") and n.args:
                for x in A.walk(n.args[0]):
                    f = A.self_attr(x)
                    if f:
                        fields.setdefault(f, "!r" if A.call_name(n) == "repr" else "plain")
        for n in A.walk(fn):
            f = A.self_attr(n) if isinstance(n, ast.Attribute) else None
            if f and isinstance(n.ctx, ast.Load):
                fields.setdefault(f, "used")
        return k, fn, fields

    def value_reads(self) -> Optional[Set[str]]:
        """fields that reach _mk_value (directly, via alias, or element-wise) in _get_value"""
        r = self.method("_get_value")
        if r is None:
            return None
        k, fn = r
        alias = _local_alias(fn)
        out: Set[str] = set()
        # loop / comprehension variables bound to elements of a field
        elem_of: Dict[str, str] = {}
        for n in A.walk(fn):
            if isinstance(n, (ast.For, ast.comprehension)):
                src_f = None
                for x in A.walk(n.iter):
                    if A.self_attr(x):
                        src_f = A.self_attr(x)
                if src_f:
                    for nm in A.target_names(n.target):
                        elem_of[nm] = src_f
        for c in A.calls(fn):
            if is_mk_value(c):
                a = resolve_local(c.args[0], alias)
                f = A.self_attr(a)
                if f:
                    out.add(f)
                elif isinstance(a, ast.Name):
                    ef = _enclosing_elem_field(fn, c, a.id)
                    if ef:
                        out |= ef
        # fields used raw (without _mk_value)
        return out

    def raw_value_uses(self) -> Set[str]:
        """fields used in _get_value not through _mk_value"""
        r = self.method("_get_value")
        if r is None:
            return set()
        k, fn = r
        through = set()
        for c in A.calls(fn):
            if is_mk_value(c):
                for x in A.walk(c.args[0]):
                    if A.self_attr(x):
                        through.add(id(x))
        out = set()
        for n in A.walk(fn):
            f = A.self_attr(n) if isinstance(n, ast.Attribute) else None
            if f and id(n) not in through:
                out.add(f)
        return out

    def dep_fields(self):
        """(class, fn, {field: 'guarded'|'unguarded'|'self'}) traversed by _get_dependencies"""
        r = self.method("_get_dependencies")
        if r is None:
            return None
        k, fn = r
        alias = _local_alias(fn)
        elem_of: Dict[str, str] = {}
        for n in A.walk(fn):
            if isinstance(n, (ast.For, ast.comprehension)):
                src_f = None
                for x in A.walk(n.iter):
                    if A.self_attr(x):
                        src_f = A.self_attr(x)
                if src_f:
                    for nm in A.target_names(n.target):
                        elem_of[nm] = src_f
        fields: Dict[str, str] = {}
        for c in A.calls(fn):
            if isinstance(c.func, ast.Attribute) and c.func.attr == "_get_dependencies":
                recv = resolve_local(c.func.value, alias)
                f = A.self_attr(recv)
                if f is None and isinstance(recv, ast.Name):
                    for ff in (_enclosing_elem_field(fn, c, recv.id) or ()):
                        fields[ff] = "traversed"
                if f:
                    fields[f] = "traversed"
        return k, fn, fields


def ref_classes(repo: Repo) -> List[RefClass]:
    out = [RefClass(repo, c) for c in repo.subclasses("BaseRef", strict=False)]
    if len(out) < 10:
        raise AnalysisError("fewer than 10 BaseRef subclasses found (anchor vanished)")
    return out
