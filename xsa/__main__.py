"""CLI:  python3-vt -m xsa check C01 [--tier quick|thorough] [--repo DIR] [--no-evidence]
        python3-vt -m xsa replay <path>
        python3-vt -m xsa all [--tier ...]
"""
from __future__ import annotations

import argparse
import importlib
import json
import os
import sys
import traceback
from pathlib import Path

from .core import DEFAULT_REPO, run_property

PROPS = [f"C{i:02d}" for i in range(1, 21)]


def load(prop: str):
    return importlib.import_module(f"xsa.rules.{prop.lower()}")


def run(prop: str, tier: str, repo: Path, write_evidence=True, quiet=False) -> int:
    try:
        mod = load(prop)
    except ModuleNotFoundError:
        print(f"ANALYSIS-ERROR property={prop} no rule module")
        return 2
    except Exception:
        print(f"ANALYSIS-ERROR property={prop} rule module failed to import")
        traceback.print_exc()
        return 2
    check = mod.check
    if tier == "thorough" and hasattr(mod, "check_thorough"):
        check = mod.check_thorough
    floors = dict(mod.FLOORS)
    if tier == "thorough" and hasattr(mod, "FLOORS_THOROUGH"):
        floors.update(mod.FLOORS_THOROUGH)
    return run_property(prop, tier, check, floors, mod.META, repo, write_evidence, quiet)


def main(argv=None) -> int:
    ap = argparse.ArgumentParser(prog="xsa")
    sub = ap.add_subparsers(dest="cmd", required=True)
    c = sub.add_parser("check")
    c.add_argument("prop")
    c.add_argument("--tier", default=os.environ.get("VERIF_TIER", "quick"))
    c.add_argument("--repo", default=str(DEFAULT_REPO))
    c.add_argument("--no-evidence", action="store_true")
    a = sub.add_parser("all")
    a.add_argument("--tier", default="quick")
    a.add_argument("--repo", default=str(DEFAULT_REPO))
    a.add_argument("--no-evidence", action="store_true")
    r = sub.add_parser("replay")
    r.add_argument("path")
    r.add_argument("--repo", default=str(DEFAULT_REPO))
    args = ap.parse_args(argv)
    if args.cmd == "check":
        tier = args.tier if args.tier in ("quick", "thorough") else "quick"
        return run(args.prop, tier, Path(args.repo), not args.no_evidence)
    if args.cmd == "all":
        worst = 0
        for p in PROPS:
            rc = run(p, args.tier, Path(args.repo), not args.no_evidence)
            worst = max(worst, rc)
        return worst
    if args.cmd == "replay":
        data = json.loads(Path(args.path).read_text())
        prop = data["property"]
        print(f"replaying {data['key']} ({data['where']} at the time of the run)")
        print(f"  obligation: {data['obligation']}")
        rc = run(prop, data.get("tier", "quick"), Path(args.repo), write_evidence=False, quiet=True)
        return rc
    return 2


if __name__ == "__main__":
    sys.exit(main())
