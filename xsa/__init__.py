"""xsa -- static analysis of xsuite/xdeps for the properties in /verif/properties.jsonl.

Nothing under /repo is imported or executed by this package: every verdict is
derived from the parsed source (ast, plus lark for the MAD-X grammar string).
"""

__all__ = ["core", "cfg", "astutil"]
