"""Small AST helpers shared by all rules."""
from __future__ import annotations

import ast
from typing import Iterable, Iterator, Optional

FUNC_TYPES = (ast.FunctionDef, ast.AsyncFunctionDef, ast.Lambda)


def src(node) -> str:
    """Normalised source text of a node (position independent)."""
    if node is None:
        return "None"
    if isinstance(node, list):
        return "; ".join(src(n) for n in node)
    try:
        return ast.unparse(node)
    except Exception:  # pragma: no cover
        return ast.dump(node)


def walk(node, into_functions: bool = False) -> Iterator[ast.AST]:
    """ast.walk that does not descend into nested function/class definitions."""
    todo = [node] if not isinstance(node, list) else list(node)
    first = True
    while todo:
        n = todo.pop()
        yield n
        for c in ast.iter_child_nodes(n):
            if not into_functions and isinstance(c, (ast.FunctionDef, ast.AsyncFunctionDef, ast.ClassDef)):
                continue
            todo.append(c)
        first = False


def walk_ordered(node) -> Iterator[ast.AST]:
    """Pre-order, source-order walk (no nested defs)."""
    yield node
    for c in ast.iter_child_nodes(node):
        if isinstance(c, (ast.FunctionDef, ast.AsyncFunctionDef, ast.ClassDef)):
            continue
        yield from walk_ordered(c)


def dotted(node) -> Optional[str]:
    """'a.b.c' for Name/Attribute chains, else None."""
    parts = []
    while isinstance(node, ast.Attribute):
        parts.append(node.attr)
        node = node.value
    if isinstance(node, ast.Name):
        parts.append(node.id)
        return ".".join(reversed(parts))
    return None


def self_attr(node, selfname: str = "self") -> Optional[str]:
    """X if node is `self.X`."""
    if isinstance(node, ast.Attribute) and isinstance(node.value, ast.Name) and node.value.id == selfname:
        return node.attr
    return None


def calls(node) -> list:
    return [n for n in walk(node) if isinstance(n, ast.Call)]


def call_name(call: ast.Call) -> Optional[str]:
    return dotted(call.func)


def method_calls(node, recv: str, meth: Optional[str] = None) -> list:
    """Calls of the form <recv>.<meth>(...) where recv is a dotted string."""
    out = []
    for c in calls(node):
        if isinstance(c.func, ast.Attribute) and dotted(c.func.value) == recv:
            if meth is None or c.func.attr == meth:
                out.append(c)
    return out


def names_loaded(node) -> set:
    return {n.id for n in walk(node) if isinstance(n, ast.Name) and isinstance(n.ctx, ast.Load)}


def names_stored(node) -> set:
    return {n.id for n in walk(node) if isinstance(n, ast.Name) and isinstance(n.ctx, (ast.Store, ast.Del))}


def target_names(target) -> list:
    """Names bound by an assignment / for target (tuples flattened)."""
    if isinstance(target, ast.Name):
        return [target.id]
    if isinstance(target, (ast.Tuple, ast.List)):
        out = []
        for e in target.elts:
            out += target_names(e)
        return out
    if isinstance(target, ast.Starred):
        return target_names(target.value)
    return []


def const(node):
    """Python value of a Constant node (or a sentinel)."""
    if isinstance(node, ast.Constant):
        return node.value
    return NOCONST


class _NoConst:
    def __repr__(self):
        return "<non-constant>"


NOCONST = _NoConst()


def is_const(node, value) -> bool:
    return isinstance(node, ast.Constant) and node.value == value and type(node.value) is type(value)


def is_none(node) -> bool:
    return isinstance(node, ast.Constant) and node.value is None


def strip_docstring(body: list) -> list:
    if body and isinstance(body[0], ast.Expr) and isinstance(body[0].value, ast.Constant) and isinstance(body[0].value.value, str):
        return body[1:]
    return body


def is_logging_stmt(stmt) -> bool:
    """logger.info(...), print(...), _print(...): statements with no effect on the analysed state."""
    if isinstance(stmt, ast.Expr) and isinstance(stmt.value, ast.Call):
        n = call_name(stmt.value) or ""
        head = n.split(".")[0]
        if head in ("logger", "log", "logging") or n in ("print", "_print", "warnings.warn"):
            return True
    if isinstance(stmt, ast.Expr) and isinstance(stmt.value, ast.Constant):
        return True  # docstring / stray constant
    if isinstance(stmt, ast.Pass):
        return True
    return False


def params(fn) -> list:
    a = fn.args
    return [x.arg for x in a.posonlyargs + a.args]


def param_defaults(fn) -> dict:
    """name -> default ast node (positional and kw-only)."""
    a = fn.args
    pos = a.posonlyargs + a.args
    out = {}
    for p, d in zip(pos[len(pos) - len(a.defaults):], a.defaults):
        out[p.arg] = d
    for p, d in zip(a.kwonlyargs, a.kw_defaults):
        if d is not None:
            out[p.arg] = d
    return out


def loc(module_rel: str, node) -> str:
    return f"{module_rel}:{getattr(node, 'lineno', 0)}"


def compare_parts(node):
    """(left, op, right) for a simple two-operand Compare, else None."""
    if isinstance(node, ast.Compare) and len(node.ops) == 1:
        return node.left, node.ops[0], node.comparators[0]
    return None


def contains(node, pred) -> bool:
    return any(pred(n) for n in walk(node))


def subscript_key(node):
    """slice expression of a Subscript."""
    return node.slice


BINOP_TOKEN = {
    ast.Add: "+", ast.Sub: "-", ast.Mult: "*", ast.MatMult: "@", ast.Div: "/",
    ast.FloorDiv: "//", ast.Mod: "%", ast.Pow: "**", ast.BitAnd: "&", ast.BitOr: "|",
    ast.BitXor: "^", ast.LShift: "<<", ast.RShift: ">>",
}
CMPOP_TOKEN = {
    ast.Lt: "<", ast.LtE: "<=", ast.Eq: "==", ast.NotEq: "!=", ast.GtE: ">=", ast.Gt: ">",
    ast.Is: "is", ast.IsNot: "is not", ast.In: "in", ast.NotIn: "not in",
}
UNARY_TOKEN = {ast.USub: "-", ast.UAdd: "+", ast.Invert: "~", ast.Not: "not"}


def has_fragments(fn, patterns) -> list:
    """Which of `patterns` do NOT occur in the normalised source of fn.

    Patterns are source fragments in which `{P1}`, `{P2}`... stand for the function's parameters (self excluded)
    and `{L}` for any local name, so the match is invariant under renaming of parameters and locals.
    Whitespace is normalised by ast.unparse.
    """
    import re
    text = src(fn)
    ps = params(fn)
    if ps and ps[0] in ("self", "cls"):
        ps = ps[1:]
    if getattr(fn.args, "vararg", None):
        ps = ps + [fn.args.vararg.arg]
    missing = []
    for pat in patterns:
        rx = re.escape(pat)
        for i, p in enumerate(ps, 1):
            rx = rx.replace(re.escape("{P%d}" % i), re.escape(p))
        rx = rx.replace(re.escape("{L}"), r"[A-Za-z_]\w*")
        if not re.search(rx, text):
            missing.append(pat)
    return missing


def alpha(node) -> str:
    """source of `node` with local names renamed canonically (order of first appearance); builtins and self kept"""
    import builtins, copy
    keep = set(dir(builtins)) | {"self", "np", "re", "cls"}
    node = copy.deepcopy(node)
    mapping = {}
    for n in walk_ordered(node):
        if isinstance(n, ast.Name) and n.id not in keep:
            if n.id not in mapping:
                mapping[n.id] = f"v{len(mapping)}"
            n.id = mapping[n.id]
    return src(node)


def sl(node) -> str:
    """source of a subscript's slice without the parentheses ast.unparse puts around tuples"""
    s = src(node)
    if isinstance(node, ast.Tuple) and s.startswith("(") and s.endswith(")"):
        s = s[1:-1]
    return s
