"""C20 -- results do not depend on the build (compiled or pure Python) or the hash seed."""
from __future__ import annotations

import ast

from .. import astutil as A
from ..core import AnalysisError, Collector
from .. import sym as S
from .common import FnCtx, fnctx, sctx, is_method_call, is_self_call
from .c04 import model
from . import c01, c02
from .toposort_rules import check_toposort

PROP = "C20"
FLOORS = {"C20.R1": 25, "C20.R2": 25, "C20.R3": 30, "C20.R4": 4, "C20.R5": 6, "C20.R6": 3, "C20.R7": 1, "C20.R8": 4, "C20.R9": 10, "C20.R10": 1, "C20.R11": 1}
META = {
    "explanation": "Build independence: Cython runs __cinit__ base-first, the pure-Python simulation in BaseRef.__init__ runs them "
                   "derived-first, so along every MRO each field is assigned by exactly one __cinit__, no __cinit__ reads a field "
                   "assigned by another one, and all of them accept the same arguments; every subclass is a cclass assigning only "
                   "declared fields; the branches on cython.compiled are inventoried (exactly the three documented ones). Seed "
                   "independence: every iteration over a set-typed value in tasks.py/sorting.py whose order reaches an order-sensitive "
                   "sink is inventoried and either benign with a stated reason or a finding; the DFS shares one visited set across start "
                   "vertices (so the result is a valid order for any start order). _hash is assigned on every completed path of __cinit__ (an unassigned C field reads 0 when compiled and raises in pure Python).",
    "decides": "order-independence of the __cinit__ chain, absence of new build-dependent branches, inventory of unordered-to-ordered flows",
    "not_decided": "equality of transcripts across the two builds and across seeds (needs both builds to run)",
    "assumptions": ["dict/RefCount iteration is insertion ordered (language guarantee); set iteration order depends on the hash seed"],
}

COMPILED_BRANCHES = {
    "BaseRef.__init__": "simulates the __cinit__ chain when not compiled",
    "MutableRef.__setattr__": "compiled: built-in attributes are read-only (raises); pure: stored",
    "ObjectAttrRef.__setattr__": "compiled: built-in attributes are read-only (raises); pure: stored",
    "is_cythonized": "reports the build",
}

# unordered iterations that are order-insensitive, with the reason (one named construct per line)
# functions whose output is for the eye only (printing / plotting): the order of their lines is not a result of the program of
# manager operations the property speaks about.  Exempt by name, whatever their bodies look like.
DIAGNOSTIC_FUNCTIONS = {"info": "diagnostic printout", "_info": "diagnostic printout", "_info2": "diagnostic printout",
                        "plot_deps": "plot only", "plot_tasks": "plot only"}
INDEX_MULTISETS = ("rdeps", "rtasks", "deptasks", "tartasks")


EXACT_TYPES = {"tuple", "dict", "list", "set", "frozenset", "int", "float", "str", "bytes", "bool", "complex"}


def _cinit_rules(col):
    repo = col.repo
    rm = model(col)
    for c in rm.classes:
        q = c.name
        col.add("C20.R3", f"{q}#cclass", any(d.endswith("cclass") for d in c.decorators), c.module.loc(c.node),
                "every reference class is a @cython.cclass (MutableRef.__setattr__ relies on it; a plain subclass behaves differently "
                "in the two builds)", str(c.decorators))
        # annotated parameters: Cython enforces exact builtin types (and its own classes) at call time, pure Python ignores them
        typed = []
        for mname, fn in c.methods.items():
            for arg in fn.args.posonlyargs + fn.args.args + fn.args.kwonlyargs:
                if arg.annotation is not None:
                    nm = A.dotted(arg.annotation) or A.src(arg.annotation)
                    if nm.split(".")[-1] in EXACT_TYPES or nm.startswith("cython.") or nm in rm.by_name:
                        typed.append(f"{mname}({arg.arg}: {nm})")
        # ... and so do annotated locals and return annotations of cclass methods (cython.bint coerces to a truth value, ...)
        for mname, fn in c.methods.items():
            for n_ in A.walk(fn):
                if isinstance(n_, ast.AnnAssign) and isinstance(n_.target, ast.Name):
                    nm = A.dotted(n_.annotation) or A.src(n_.annotation)
                    if nm.split(".")[-1] in EXACT_TYPES or nm.startswith("cython."):
                        typed.append(f"{mname}: local {n_.target.id}: {nm}")
            if fn.returns is not None:
                nm = A.dotted(fn.returns) or A.src(fn.returns)
                if nm.split(".")[-1] in EXACT_TYPES or nm.startswith("cython."):
                    typed.append(f"{mname}() -> {nm}")
        col.add("C20.R3", f"{q}#no-enforced-parameter-types", not typed, c.module.loc(c.node),
                "no method parameter of a cclass is annotated with a type Cython enforces (the compiled build would raise TypeError where "
                "the pure build accepts the value)", str(typed))
        cins = rm.cinits(c.name)
        if not cins:
            continue
        stores = rm.field_stores(c.name)
        undeclared = sorted(f for f in stores if f not in rm.declared(c.name))
        col.add("C20.R3", f"{q}#assigns-declared-fields-only", not undeclared, c.module.loc(c.node),
                "__cinit__ assigns only fields declared with cython.declare (an undeclared one exists only in the pure build)", str(undeclared))
        sigs = {}
        for k, sx in cins:
            fn = sx.cx.orig_fn
            sigs[k.name] = (A.params(fn)[1:], bool(fn.args.vararg), bool(fn.args.kwarg), sorted(A.param_defaults(fn)))
        first = list(sigs.values())[0]
        same = all(len(s_[0]) == len(first[0]) and s_[1:3] == first[1:3] for s_ in sigs.values())
        col.add("C20.R2", f"{q}#cinit-signatures-agree", same, c.module.loc(c.node),
                "all __cinit__ methods along the MRO accept the same arguments (Cython passes the constructor arguments to each)", str(sigs))
        assigned = {f: sorted({k.name for k, v, cd, sx, ev in lst}) for f, lst in stores.items()}
        multi = {f: ks for f, ks in assigned.items() if len(ks) > 1}
        col.add("C20.R1", f"{q}#field-assigned-by-one-cinit", not multi, c.module.loc(c.node),
                "along the MRO every field is assigned by exactly one __cinit__ (with two, the last writer differs between "
                "base-first Cython and the derived-first pure-Python simulation)", str(multi))
        cross = []
        for k, sx in cins:
            own = {f for f, ks in assigned.items() if k.name in ks}
            read = set()
            for ev in sx.events:
                for t in ([ev.term] if ev.kind == "call" else [ev.value] if ev.value is not None else []):
                    for s_ in S.subterms(t):
                        if S.is_attr(s_, S.SELF) and s_[2] in assigned and s_[2] not in own:
                            read.add(s_[2])
            for n in sx.cfg.nodes.values():
                if n.kind == "test":
                    for s_ in S.subterms(sx.sym.of(n.ast, n.id)):
                        if S.is_attr(s_, S.SELF) and s_[2] in assigned and s_[2] not in own:
                            read.add(s_[2])
            for f in sorted(read):
                cross.append(f"{k.name}.__cinit__ reads self.{f} (assigned by {assigned[f]})")
        col.add("C20.R1", f"{q}#no-cross-cinit-read", not cross, c.module.loc(c.node),
                "no __cinit__ reads a field assigned by another class's __cinit__ (not yet assigned in one of the two orders)", "; ".join(cross))
    # BaseRef.__init__ simulation walks the whole MRO and forwards the arguments
    sx = rm.sx("BaseRef", "__init__")
    ps = {t[2]: t for t in sx.sym.params.values() if t[:1] == ("param",)}
    va = [t for n, t in ps.items() if n.startswith("*") and not n.startswith("**")]
    kw = [t for n, t in ps.items() if n.startswith("**")]
    mro = (("attr", S.fcall("type", S.SELF), "__mro__"), ("attr", ("attr", S.SELF, "__class__"), "__mro__"))
    ok = False
    if va and kw:
        for ev in sx.events:
            if ev.kind != "call":
                continue
            t = ev.term
            f = t[1]
            is_cinit = S.match(f, S.fcall("getattr", ("elem", S.V("m", lambda x: x in mro)), ("const", repr("__cinit__")), S.ANY)) is not None \
                or any(S.match(fa, ("attr", ("elem", S.V("m", lambda x: x in mro)), "__cinit__")) is not None for fa in S.alts(f))
            if is_cinit and t[2] == (S.SELF, ("uop", "*", va[0])) and dict(t[3]).get("**") == kw[0]:
                loops = sx.sym.loops(ev.nid)
                hdr = [g for g in sx.cfg.guards(ev.nid) if g.kind == "T" and isinstance(g.ast, (ast.For, ast.AsyncFor))]
                if len(loops) == 1 and loops[0] in mro and hdr:
                    fb = [n.id for n in sx.cfg.nodes.values() if n.kind == "F" and n.of == hdr[0].of]
                    ok = sx.cfg.must_pass(hdr[0].id, sx.cfg.EXIT, fb)
    col.add("C20.R1", "BaseRef.__init__#simulates-full-cinit-chain", ok, sx.loc(sx.fn),
            "the pure-Python fallback calls the __cinit__ of every class of the MRO with the constructor arguments", "")


LOGGING_HEADS = ("logger", "log", "logging", "_logger", "warnings")


def _behaviour(sx):
    """order-independent summary of what a function does: events with their conditions, logging left out"""
    out = []
    for ev in sx.events:
        if ev.kind == "call":
            f = ev.term[1]
            root = f
            while root[:1] == ("attr",):
                root = root[1]
            if root[:1] == ("glob",) and (root[1] in LOGGING_HEADS or root[1] in ("print", "_print")):
                continue
            essential = f in (("attr", ("glob", "object"), "__setattr__"), ("glob", "setattr")) or \
                (f[:1] == ("attr",) and f[2] == "set_value")
            if not essential:
                continue    # pure computations (dir, isinstance, constructors, type(self) for a log message ...) are not effects
            out.append(("call", S.show(ev.term, False), tuple(sorted(S.show(c, False) for c in sx.conds(ev.nid)))))
        elif ev.kind == "raise":
            v = ev.value
            txt = S.show(v, False) if v is not None else ""
            if ev.kind == "raise":
                txt = txt.split("(")[0]
            out.append((ev.kind, txt, tuple(sorted(S.show(c, False) for c in sx.conds(ev.nid)))))
        elif ev.kind in ("store", "del"):
            out.append((ev.kind, S.show(ev.target, False), tuple(sorted(S.show(c, False) for c in sx.conds(ev.nid)))))
    return sorted(set(out))


def _compiled_branches(col, rule="C20.R4"):
    repo = col.repo
    found = {}
    for m, c, fn in repo.all_functions():
        q = f"{c.name}.{fn.name}" if c else fn.name
        for n in A.walk(fn):
            if (isinstance(n, ast.Attribute) and A.dotted(n) == "cython.compiled") or \
                    (isinstance(n, ast.Call) and A.call_name(n) in ("is_cythonized", "refs.is_cythonized")):
                found.setdefault(q, m.loc(n))
    # a private helper that only documented places call carries their branch
    callers = {}
    for m, c, fn in repo.all_functions():
        q2 = f"{c.name}.{fn.name}" if c else fn.name
        for call in A.calls(fn):
            nm = call.func.id if isinstance(call.func, ast.Name) else call.func.attr if isinstance(call.func, ast.Attribute) else None
            if nm:
                callers.setdefault(nm, set()).add(q2)
    for q in list(found):
        short = q.split(".")[-1]
        if q not in COMPILED_BRANCHES and short.startswith("_") and not short.startswith("__") and callers.get(short) \
                and callers[short] <= set(COMPILED_BRANCHES):
            col.ok(rule, f"{q}#build-dependent-branch", found.pop(q), "code that branches on the build is one of the documented places",
                   f"private helper called only from {sorted(callers[short])}")
    for q, where in sorted(found.items()):
        col.add(rule, f"{q}#build-dependent-branch", q in COMPILED_BRANCHES, where,
                "code that branches on the build is one of the documented places (a new branch makes behaviour build dependent)",
                COMPILED_BRANCHES.get(q, "not in the inventory"))
    for q in COMPILED_BRANCHES:
        if q not in found:
            col.add(rule, f"{q}#build-dependent-branch", True, "xdeps/refs.py", "documented build branch no longer present", "gone", note=False)
    # the two __setattr__ agree with each other apart from the ref class they build
    a = sctx(repo, "MutableRef", "__setattr__")
    b = sctx(repo, "ObjectAttrRef", "__setattr__")
    norm = lambda sx: sorted((k, t.replace("ItemRef", "X").replace("AttrRef", "X"), c) for k, t, c in _behaviour(sx))   # noqa: E731
    na, nb = norm(a), norm(b)
    col.add(rule, "MutableRef.__setattr__~ObjectAttrRef.__setattr__#siblings-agree", na == nb, "xdeps/refs.py",
            "the two __setattr__ implementations treat built-in attributes and the build flag identically (same events under the "
            "same conditions, apart from the reference class they build)",
            "" if na == nb else f"only in MutableRef: {[x for x in na if x not in nb][:3]}; only in ObjectAttrRef: {[x for x in nb if x not in na][:3]}")


def _path_signatures(sx, targets, limit=4000):
    """decision signatures of the acyclic normal paths ENTRY -> one of `targets`: frozenset of (test term, outcome).  Paths are walked on
    the flag-refined graph: a test of a local flag whose value the path has fixed (`done = helper(); if done: return`) is no decision"""
    cfg = sx.cfg
    R = cfg.refined
    targets = set(targets)
    out = set()
    n_paths = 0
    start = (cfg.ENTRY, tuple(None for _ in R.flags))
    stack = [(start, frozenset(), frozenset([cfg.ENTRY]))]
    while stack:
        state, sig, seen = stack.pop()
        x = state[0]
        if x in targets:
            out.add(sig)
            continue
        succs = [(st2, k) for st2, k in R._step(state) if k != "x"]
        branch_succs = [st2 for st2, _k in succs if cfg.nodes[st2[0]].kind in ("T", "F") and cfg.nodes[st2[0]].of == x]
        decided = cfg.nodes[x].kind == "test" and len(branch_succs) == 1
        for st2, _k in succs:
            y = st2[0]
            if y in seen:
                continue
            n_paths += 1
            if n_paths > limit:
                raise AnalysisError(f"{sx.cx.qual}: too many paths for a path-sensitive comparison")
            nd = cfg.nodes[y]
            sg = sig
            if nd.kind in ("T", "F") and nd.of is not None and cfg.nodes[nd.of].kind == "test" and not decided:
                ct = S.norm_cond(True, sx.sym.of(cfg.nodes[nd.of].ast, nd.of))
                kind = nd.kind
                if ct[:1] == ("uop",) and ct[1] == "not":     # `if not X` on its T branch is X on its F branch
                    ct, kind = ct[2], ("F" if kind == "T" else "T")
                sg = sig | {(S.show(ct, False), kind)}
            stack.append((st2, sg, seen | {y}))
    return out


def _is_build_test(txt: str) -> bool:
    return "cython.compiled" in txt or "is_cythonized" in txt


def _build_independent_routing(col, rule="C20.R4"):
    """apart from what happens to built-in attribute names (documented: read-only when compiled, stored when pure), the
    decision which names are handed to the manager is taken by build-independent tests"""
    for cname in ("MutableRef", "ObjectAttrRef"):
        sx = sctx(col.repo, cname, "__setattr__")
        sv = [ev.nid for ev in sx.events if ev.kind == "call" and ev.term[1][:1] == ("attr",) and ev.term[1][2] == "set_value"]
        if not sv:
            raise AnalysisError(f"{cname}.__setattr__: no manager.set_value -- cannot decide")
        sigs = _path_signatures(sx, sv)
        per = {}
        for build in ("T", "F"):
            mine = set()
            for sg in sigs:
                flags = {o for t, o in sg if _is_build_test(t)}
                # a test `not cython.compiled` normalises to the positive test with swapped outcome (norm_cond), so outcome = build value
                if flags and flags != {build}:
                    continue
                mine.add(frozenset((t, o) for t, o in sg if not _is_build_test(t)))
            per[build] = mine
        col.add(rule, f"{cname}.__setattr__#manager-path-build-independent", per["T"] == per["F"], sx.loc(sx.fn),
                "which attribute names are assigned through the manager is decided by the same tests in the compiled and in the "
                "pure-Python build (only the treatment of built-in attribute names differs, as documented)",
                "" if per["T"] == per["F"] else
                f"compiled: {sorted(sorted(x) for x in per['T'])}; pure: {sorted(sorted(x) for x in per['F'])}")


def _builtin_attr_assignment(col, rule="C20.R4"):
    """`ref.<name> = v` for a name that is an attribute of the reference object itself (_key, _owner, _manager, ...) has the
    same outcome in both builds"""
    for cname in ("MutableRef", "ObjectAttrRef"):
        sx = sctx(col.repo, cname, "__setattr__")
        ends = {}
        for ev in sx.events:
            what = None
            if ev.kind == "raise":
                what = "raise " + (S.show(ev.value, False).split("(")[0] if ev.value is not None else "")
            elif ev.kind == "call":
                f = ev.term[1]
                if f == ("attr", ("glob", "object"), "__setattr__"):
                    what = "store on the reference object"
                elif f[:1] == ("attr",) and f[2] == "set_value":
                    what = "assign through the manager"
            if what:
                ends.setdefault(what, []).append(ev.nid)
        per = {"T": set(), "F": set()}
        for what, nids in ends.items():
            for sg in _path_signatures(sx, nids):
                flags = {o for t, o in sg if _is_build_test(t)}
                rest = tuple(sorted((t, o) for t, o in sg if not _is_build_test(t)))
                for build in ("T", "F"):
                    if not flags or flags == {build}:
                        per[build].add((rest, what))
        same = per["T"] == per["F"]
        col.add(rule, f"{cname}.__setattr__#same-outcome-in-both-builds", same, sx.loc(sx.fn),
                "for every attribute name, assignment through a reference ends the same way (stored through the manager, refused "
                "with the same exception) in the compiled and in the pure-Python build",
                "" if same else f"compiled only: {sorted(per['T'] - per['F'])}; pure only: {sorted(per['F'] - per['T'])}")


def _hash_ordering_sites(tree) -> list:
    """AST nodes that order or branch on hash()/id() values: `hash(a) < hash(b)`, `x._hash > y._hash`,
    `sorted(xs, key=hash)`, `min/max(..., key=id)`"""
    def hashy(e):
        if isinstance(e, ast.Call) and isinstance(e.func, ast.Name) and e.func.id in ("hash", "id"):
            return True
        if isinstance(e, ast.Attribute) and e.attr in ("_hash", "__hash__"):
            return True
        if isinstance(e, ast.Call) and isinstance(e.func, ast.Attribute) and e.func.attr == "__hash__":
            return True
        return False
    out = []
    for n in ast.walk(tree):
        if isinstance(n, ast.Compare) and any(isinstance(o, (ast.Lt, ast.LtE, ast.Gt, ast.GtE)) for o in n.ops) \
                and any(hashy(x) for x in [n.left] + list(n.comparators)):
            out.append(n)
        if isinstance(n, ast.Call) and (A.call_name(n) or "").split(".")[-1] in ("sorted", "min", "max", "sort", "argsort"):
            for kw in n.keywords:
                if kw.arg == "key" and ((isinstance(kw.value, ast.Name) and kw.value.id in ("hash", "id")) or
                                        (isinstance(kw.value, ast.Lambda) and any(hashy(x) for x in ast.walk(kw.value.body)))):
                    out.append(n)
    return out


def _no_hash_ordering(col, rule="C20.R7"):
    """hash values depend on the string-hash seed and (the 32-bit C field) on the build: they may be compared for equality,
    never ordered or used as a sort key -- a canonical form, a tie-break or an iteration order derived from them differs
    between runs"""
    # positive control: the detector must see the three spellings (the expected count on the tree is zero)
    probe = ast.parse("def f(a, b, xs):\n    if hash(b) < hash(a): a, b = b, a\n    ys = sorted(xs, key=hash)\n    return a._hash >= b._hash, ys\n")
    if len(_hash_ordering_sites(probe)) != 3:
        raise AnalysisError("C20.R7: the hash-ordering detector does not match its positive control")
    repo = col.repo
    n = 0
    for m, c, fn in repo.all_functions():
        n += 1
        for site in _hash_ordering_sites(fn):
            q = f"{c.name}.{fn.name}" if c else fn.name
            col.fail(rule, f"{q}#orders-by-hash", m.loc(site),
                     "no decision or order is derived from the magnitude of a hash()/id() value", A.src(site)[:100])
    col.ok(rule, "package#no-ordering-on-hash-values", "xdeps/", "no function orders, sorts or branches on the magnitude of a hash/id value",
           f"{n} functions scanned; positive control matched")


C_NUMERIC = ("int", "long", "cython.int", "cython.long", "cython.longlong", "cython.Py_hash_t", "cython.double", "float", "cython.float")


def _c_typed_fields(col, rule="C20.R3"):
    """a field declared with a C numeric type holds the C-level truncation of what is stored; the direct result of hash() is
    converted silently in both builds' favour, Python-level arithmetic on it is checked for overflow when compiled only"""
    rm = model(col)
    for c in rm.classes:
        ctyped = set()
        for k in col.repo.mro(c):
            for nm, v in k.consts.items():
                if isinstance(v, ast.Call) and A.call_name(v) == "cython.declare" and v.args and (A.dotted(v.args[0]) or "") in C_NUMERIC:
                    ctyped.add(nm)
        if not ctyped or "__cinit__" not in c.methods:
            continue
        for f, lst in rm.field_stores(c.name).items():
            if f not in ctyped:
                continue
            for k, v, cd, sx, ev in lst:
                if k is not c:
                    continue
                bad = [a for a in S.instances(v) if not (S.is_call_of(a, ("glob", "hash")) or a[:1] == ("const",))]
                col.add(rule, f"{c.name}#c-typed-field:{f}", not bad, sx.loc(ev),
                        f"the C-typed field {f} is assigned the direct result of hash(...) (no Python-level arithmetic, whose result "
                        "the compiled build range-checks and the pure build does not)", "; ".join(S.show(a)[:80] for a in bad))


def _task_like(t) -> bool:
    """term denoting a task: a parameter, an entry / element of self.tasks, an element of find_tasks(...)"""
    if t[:1] == ("param",):
        return True
    if t[:1] == ("sub",) and t[1] == S.sattr("tasks"):
        return True
    if t[:1] == ("elem",):
        return S.is_call_of(t[1], meth="values") or S.is_call_of(t[1], meth="find_tasks") or t[1][:1] == ("param",)
    return t == S.SELF


def _set_typed(t) -> bool:
    if t[:1] == ("alt",):
        return any(_set_typed(a) for a in t[1])
    if t[:1] == ("acc",) and t[1] == "set":
        return True
    if t[:1] == ("set",):
        return True
    if S.is_call_of(t) and t[1] in (("glob", "set"), ("glob", "frozenset")):
        return True
    if t[:1] == ("attr",) and t[2] in ("targets", "dependencies") and _task_like(t[1]):
        return True
    if S.is_call_of(t, meth="_get_dependencies"):
        return True
    if S.is_call_of(t, meth="keys") and any(n == "exclude_columns" for n, _ in t[3]):
        return True
    if t[:1] == ("op",) and t[1] in ("&", "|", "-", "^") and (_set_typed(t[2]) or _set_typed(t[3])):
        return True
    return False


ORDER_SINKS = ("append", "appendleft", "extend", "insert", "run", "write")


def _unordered(col, rule="C20.R5"):
    repo = col.repo
    mods = [repo.module("tasks"), repo.module("sorting"), repo.module("refs")]
    n_loops = 0
    for m, c, fn in repo.all_functions():
        if m not in mods:
            continue
        if not any(isinstance(n, (ast.For, ast.AsyncFor)) for n in A.walk(fn)):
            continue
        q = f"{c.name}.{fn.name}" if c else fn.name
        if fn.name in DIAGNOSTIC_FUNCTIONS:
            continue
        if fn.name.startswith("_") and not fn.name.startswith("__") and fn.name not in ("_dfs",):
            continue        # a private helper: its loops are judged in the callers it is inlined into (or consumed by, for generators)
        try:
            sx = sctx(repo, c.name if c else None, fn.name, m.name.split(".", 1)[1] if c is None else None)
        except (AnalysisError, NotImplementedError):
            continue
        if sx.cx.orig_fn is not fn:
            continue
        cfg = sx.cfg
        for n in cfg.nodes.values():
            if n.kind != "for":
                continue
            it = sx.sym.of(n.ast.iter, n.id)
            if not _set_typed(it):
                continue
            n_loops += 1
            tb = [x.id for x in cfg.nodes.values() if x.kind == "T" and x.of == n.id][0]
            body = cfg.reachable(tb, avoid=[n.id])
            sinks, multiset, into = [], 0, set()
            for ev in sx.events:
                if ev.nid in body or ev.nid == tb:
                    if ev.kind == "call" and ev.term[1][:1] == ("attr",) and ev.term[1][2] in ORDER_SINKS:
                        recv = ev.term[1][1]
                        # an entry of one of the manager's reference-counted multisets: `append`/`extend` there count occurrences.  The only
                        # insertion order the scheduler ever iterates is that of the successors rtasks[t] of one task: it is disturbed when
                        # *different* values, chosen by the set iteration, are appended there
                        if recv[:1] == ("sub",) and recv[1][:1] == ("attr",) and recv[1][2] in INDEX_MULTISETS:
                            varies = any(x == ("elem", it) for a_ in ev.term[2] for x in S.subterms(a_))
                            if recv[1][2] != "rtasks" or not varies:
                                multiset += 1
                                continue
                            into.add(recv[1][2])
                        sinks.append(S.show(ev.term)[:50])
                    elif ev.kind == "yield":
                        sinks.append("yield")
            key = f"{q}#for-over:{S.show(it, False)}"
            if not sinks:
                col.ok(rule, key, sx.loc(n.id), "iteration over a set whose order reaches no order-sensitive sink"
                       + (f" ({multiset} additions to reference-counted multisets, which commute)" if multiset else ""), "")
                continue
            if into:
                key = f"{q}#set-order-into:{','.join(sorted(into))}"
            col.add(rule, key, False, sx.loc(n.id),
                    "an iteration over a set (hash-seed dependent order) does not feed an order-sensitive sink",
                    f"order reaches: {sinks}")
    # set passed as the start collection of the DFS
    sx = sctx(repo, "Manager", "find_taskids", public=True, keep=c01.ANCHORS)
    for r in sx.of_kind("return"):
        m_ = S.match(r.value, S.fcall("toposort", S.ANY, S.V("start")))
        if m_ is not None:
            st = _set_typed(m_["start"])
            col.add(rule, "Manager.find_taskids#set-as-dfs-start-order", not st, sx.loc(r),
                    "the order in which start tasks are offered to the DFS does not depend on the hash seed",
                    "the start tasks are collected in a set; every start order gives a valid topological order on an acyclic rtasks, "
                    "but with the ordering cycles of known finding C01.R6 the run order, and then the contents, depend on PYTHONHASHSEED")
    col.count("set_iterations_inventoried", n_loops)


SEMANTIC_DIRECTIVES = ("cdivision", "cdivision_warnings", "boundscheck", "wraparound", "overflowcheck", "nonecheck", "initializedcheck",
                       "cpow", "c_api_binop_methods", "always_allow_keywords")


def _no_semantic_directives(col, rule="C20.R10"):
    """Cython directives that change what an operation *means* (C division does not raise and truncates towards zero, unchecked indexing
    does not wrap or raise, ...) make the compiled build compute something else than the pure-Python one and than Python itself"""
    repo = col.repo
    m = repo.module("refs")
    found = []
    for n in ast.walk(m.tree):
        decs = getattr(n, "decorator_list", None) or []
        for d in decs:
            nm = A.dotted(d.func) if isinstance(d, ast.Call) else A.dotted(d)
            if nm and nm.split(".")[-1] in SEMANTIC_DIRECTIVES:
                off = isinstance(d, ast.Call) and d.args and isinstance(d.args[0], ast.Constant)
                val = d.args[0].value if off else True
                pythonic = {"cdivision": False, "boundscheck": True, "wraparound": True, "overflowcheck": True, "nonecheck": True,
                            "initializedcheck": True, "cpow": False}.get(nm.split(".")[-1])
                if pythonic is None or val != pythonic:
                    found.append((m.loc(n), f"@{nm}({val})"))
        if isinstance(n, ast.With):
            for it in n.items:
                e = it.context_expr
                nm = A.dotted(e.func) if isinstance(e, ast.Call) else None
                if nm and nm.split(".")[-1] in SEMANTIC_DIRECTIVES:
                    found.append((m.loc(n), f"with {A.src(e)}"))
    # module-level `# cython: cdivision=True` header comments
    for i, line in enumerate(m.source.splitlines()[:30]):
        if line.strip().startswith("#") and "cython:" in line:
            for dname in SEMANTIC_DIRECTIVES:
                if dname in line:
                    found.append((f"{m.rel}:{i + 1}", line.strip()[:60]))
    col.add(rule, "refs#no-directive-changing-arithmetic-or-indexing", not found, found[0][0] if found else m.rel,
            "no Cython directive replaces Python's semantics of division, indexing or overflow in the compiled reference classes", str(found[:3]))


def _no_exception_dropping_c_functions(col, rule="C20.R10"):
    """A C-level function whose signature cannot carry an exception (`@cython.exceptval(check=False)`, `noexcept`, a `cfunc` returning
    `cython.void` or a C scalar without an exception value) prints 'Exception ignored in ...' and *returns normally* when its body
    raises -- in the compiled build only; the pure-Python build propagates."""
    m = col.repo.module("refs")
    found = []
    for n in ast.walk(m.tree):
        if not isinstance(n, (ast.FunctionDef, ast.AsyncFunctionDef)):
            continue
        names = []
        for d in n.decorator_list:
            nm = (A.dotted(d.func) if isinstance(d, ast.Call) else A.dotted(d)) or ""
            names.append((nm.split(".")[-1], d))
        short = [x for x, _ in names]
        for nm, d in names:
            if nm == "exceptval":
                chk = [kw for kw in d.keywords if kw.arg == "check"] if isinstance(d, ast.Call) else []
                if any(isinstance(kw.value, ast.Constant) and kw.value.value is False for kw in chk):
                    found.append((m.loc(n), f"{n.name}: @cython.exceptval(check=False)"))
            if nm in ("noexcept", "nogil"):
                found.append((m.loc(n), f"{n.name}: @cython.{nm}"))
        ret = A.dotted(n.returns) if n.returns is not None else None
        if ("cfunc" in short or "ccall" in short) and ret and ret.split(".")[-1] in ("void", "int", "long", "double", "float", "bint", "Py_ssize_t", "Py_hash_t") \
                and "exceptval" not in short:
            found.append((m.loc(n), f"{n.name}: C function returning {ret} without an exception value"))
    col.add(rule, "refs#no-c-function-that-drops-exceptions", not found, found[0][0] if found else m.rel,
            "no function of the reference module is compiled to a C signature that cannot propagate an exception", str(found[:3]), positive=bool(found))


def _copy_gathers_before_loading(col, rule="C20.R5"):
    """copy_expr_from walks the source's tasks in a schedule order that comes from set iteration (hash seed, hash width).  The definitions are
    gathered completely *before* any of them is registered: handing the generator itself to load() interleaves the walk with the
    registrations, and a failure half-way leaves a seed-dependent part of them behind"""
    sx = sctx(col.repo, "Manager", "copy_expr_from", public=True, keep=c01.ANCHORS)
    loads = sx.calls_some(("call", ("attr", S.SELF, "load"), S.V("a"), S.V("k")))
    if len(loads) != 1:
        raise AnalysisError("Manager.copy_expr_from: expected one self.load(...) -- cannot decide")
    ev, m = loads[0]
    src = m["a"][0] if m["a"] else dict(m["k"]).get("dump")
    lazy = src is not None and any(S.is_call_of(a, meth="iter_expr_tasks_owner") or (a[:1] == ("acc",) and a[1] == "gen") for a in S.alts(src))
    col.add(rule, "Manager.copy_expr_from#definitions-gathered-before-loading", not lazy, sx.loc(ev),
            "the (target, expression) texts are collected into a list before load() registers the first of them",
            S.show(src)[:80] if src is not None else "")


def _dump_in_registration_order(col, rule="C20.R5"):
    """the dumped text lists the definitions in the order of Manager.tasks (a dict: registration order, the same in every build and
    under every hash seed); a schedule computed by find_tasks / toposort starts from sets of references, whose iteration order follows
    the hash seed and the width of the compiled hash (see the known finding on find_taskids)"""
    repo = col.repo
    sx = sctx(repo, "Manager", "dump", keep={"find_tasks", "find_taskids", "iter_tasks"})
    bad = [A.src(n)[:60] for n in ast.walk(sx.fn) if isinstance(n, ast.Call) and isinstance(n.func, ast.Name) and n.func.id == "__xsa_inlined__"
           and n.args and isinstance(n.args[0], ast.Constant) and str(n.args[0].value).split(".")[-1] in ("toposort", "find_tasks", "find_taskids")]
    for ev in sx.of_kind("call"):
        for t in S.subterms(ev.term):
            if S.is_call_of(t) and t[1][:1] == ("attr",) and t[1][2] in ("find_tasks", "find_taskids", "iter_tasks") or \
                    (S.is_call_of(t) and t[1] in (("glob", "toposort"),)):
                bad.append(S.show(t)[:60])
    for r in sx.of_kind("return"):
        for t in S.subterms(r.value):
            if S.is_call_of(t) and ((t[1][:1] == ("attr",) and t[1][2] in ("find_tasks", "find_taskids", "iter_tasks"))
                                    or t[1] in (("glob", "toposort"),)):
                bad.append(S.show(t)[:60])
    uses_tasks = any(S.contains(r.value, lambda t: t == S.sattr("tasks")) for r in sx.of_kind("return"))
    if not bad and not uses_tasks:
        raise AnalysisError("Manager.dump: where the listed definitions come from is not recognised -- cannot decide")
    col.add(rule, "Manager.dump#definitions-in-registration-order", not bad, sx.loc(sx.fn),
            "dump() lists the definitions as Manager.tasks holds them; it does not order them by a set-seeded schedule",
            "; ".join(dict.fromkeys(bad)), positive=True)


def _no_field_assignment_on_references(col, rule="C20.R4"):
    """assigning a declared field of a reference object (`ref._manager = x`) is refused by the compiled classes (read-only extension
    attribute, AttributeError) and silently performed by the pure-Python ones (known finding on MutableRef.__setattr__): code that
    does it -- with or without catching the AttributeError -- behaves differently in the two builds"""
    repo = col.repo
    rmod = repo.cls("BaseRef").module
    fields = set()
    for c in rmod.classes.values():
        for n in ast.walk(c.node):
            if isinstance(n, ast.Assign) and isinstance(n.value, ast.Call) and (A.dotted(n.value.func) or "") == "cython.declare":
                fields |= {t.id for t in n.targets if isinstance(t, ast.Name)}
    if not {"_manager", "_owner", "_key", "_hash"} <= fields:
        raise AnalysisError(f"refs: declared fields of the reference classes not recognised ({sorted(fields)}) -- cannot decide")
    fields = {"_manager", "_owner", "_key", "_hash"}     # those of the assignable references (MutableRef and its bases)
    n = 0
    for m, c, fn in repo.all_functions():
        n += 1
        for x in ast.walk(fn):
            tg = x.targets if isinstance(x, ast.Assign) else [x.target] if isinstance(x, (ast.AugAssign, ast.AnnAssign)) else []
            for t in tg:
                for el in (t.elts if isinstance(t, (ast.Tuple, ast.List)) else [t]):
                    if isinstance(el, ast.Attribute) and el.attr in fields and not (isinstance(el.value, ast.Name) and el.value.id == "self"):
                        col.add(rule, f"{(c.name + '.') if c else ''}{fn.name}#no-field-assignment-on-a-reference:{el.attr}", False, m.loc(x),
                                "no declared field of a reference is assigned from outside its constructor", A.src(x)[:80], positive=True)
            if isinstance(x, ast.Call) and isinstance(x.func, ast.Name) and x.func.id == "setattr" and len(x.args) == 3 \
                    and isinstance(x.args[1], ast.Constant) and x.args[1].value in fields and not (isinstance(x.args[0], ast.Name) and x.args[0].id == "self"):
                col.add(rule, f"{(c.name + '.') if c else ''}{fn.name}#no-field-assignment-on-a-reference:{x.args[1].value}", False, m.loc(x),
                        "no declared field of a reference is assigned from outside its constructor", A.src(x)[:80], positive=True)
    col.ok(rule, "package#no-field-assignment-on-a-reference", "xdeps/", "no declared field of a reference is assigned from outside its constructor",
           f"{n} functions scanned for assignments to {sorted(fields)} on an object other than self")


def check(col: Collector):
    with col.rule():
        _no_field_assignment_on_references(col)
    with col.rule():
        _dump_in_registration_order(col)
    with col.rule():
        _no_semantic_directives(col)
    with col.rule():
        _no_exception_dropping_c_functions(col)
    with col.rule():
        _copy_gathers_before_loading(col)
    with col.rule():
        _cinit_rules(col)
    with col.rule():
        _compiled_branches(col)
    with col.rule():
        _build_independent_routing(col)
    with col.rule():
        _builtin_attr_assignment(col)
    with col.rule():
        _c_typed_fields(col)
    with col.rule():
        _no_hash_ordering(col)
    with col.rule():
        _unordered(col)
    # one visited set shared across start vertices => any start order yields a valid order (acyclic case)
    with col.rule():
        check_toposort(col, "C20.R5")
    # the run order is fixed by ordering edges, not by the iteration order of the start set: both directions of every
    # producer -> consumer edge are recorded (shared with C02.R4)
    sub = Collector(col.repo, "C20", col.tier)
    with col.rule():
        c02._edges(sub, "C20.R5")
    with col.rule():
        col.obs.extend(sub.obs)
    # a lost ordering / producer entry leaves the relative order of two tasks to set iteration (hash seed, 32/64-bit hashes)
    with col.rule():
        c02.inverse_effects(col, "C20.R6", only_indices=("rtasks", "tartasks", "deptasks"))
    # the schedule is ONE toposort over the union of the start tasks: an order merged from per-start-ref pieces depends on the
    # iteration order of the (set-valued) start collection
    from .common import shared
    with col.rule():
        shared(col, "C20.R8", [c01._trigger_closure], why="a schedule assembled per start location inherits the hash-seed order of the start set")
    # a C-typed `_hash` field that a path of __cinit__ leaves unassigned reads 0 in the compiled class and is a missing
    # attribute (AttributeError from hash()) in the pure-Python one
    from . import c06
    with col.rule():
        shared(col, "C20.R9", [c06._hash_assigned],
               why="an unassigned C field reads 0 when compiled and raises AttributeError in pure Python: the two builds diverge")
    with col.rule():
        shared(col, "C20.R9", [c06._eq_hash_pairing], select=lambda o: "no-eq-hash-override" in o.construct,
               why="an extension type inherits tp_hash and tp_richcompare only together: a class that defines __eq__ and aliases __hash__ in its "
                   "body is unhashable in the compiled build only")
    # round 7: a missing ordering edge (a dependency not reported, or filtered out) leaves the run order to the hash seed
    from . import c05
    with col.rule():
        shared(col, "C20.R11", [c05._readset, c05._structure, c05._accumulator],
               why="the order of two tasks with no edge between them is the iteration order of a set: every location read must be reported "
                   "so that the producer is ordered first under every seed")
