"""C20 -- results do not depend on the build (compiled or pure Python) or the hash seed."""
from __future__ import annotations

import ast

from .. import astutil as A
from ..core import AnalysisError, Collector
from ..refsmodel import ref_classes
from .common import FnCtx, fnctx, is_method_call, is_self_call
from .toposort_rules import check_toposort

PROP = "C20"
FLOORS = {"C20.R1": 25, "C20.R2": 25, "C20.R3": 30, "C20.R4": 4, "C20.R5": 6}
META = {
    "explanation": "Build independence: Cython runs __cinit__ base-first, the pure-Python simulation in BaseRef.__init__ runs them "
                   "derived-first, so along every MRO each field is assigned by exactly one __cinit__, no __cinit__ reads a field "
                   "assigned by another one, and all of them accept the same arguments; every subclass is a cclass assigning only "
                   "declared fields; the branches on cython.compiled are inventoried (exactly the three documented ones). Seed "
                   "independence: every iteration over a set-typed value in tasks.py/sorting.py whose order reaches an order-sensitive "
                   "sink is inventoried and either benign with a stated reason or a finding; the DFS shares one visited set across start "
                   "vertices (so the result is a valid order for any start order).",
    "decides": "order-independence of the __cinit__ chain, absence of new build-dependent branches, inventory of unordered-to-ordered flows",
    "not_decided": "equality of transcripts across the two builds and across seeds (needs both builds to run)",
    "assumptions": ["dict/RefCount iteration is insertion ordered (language guarantee); set iteration order depends on the hash seed"],
}

COMPILED_BRANCHES = {
    "BaseRef.__init__": "simulates the __cinit__ chain when not compiled",
    "MutableRef.__setattr__": "compiled: built-in attributes are read-only (raises); pure: stored",
    "ObjectAttrRef.__setattr__": "compiled: built-in attributes are read-only (raises); pure: stored",
    "is_cythonized": "reports the build",
}

# unordered iterations that are order-insensitive, with the reason (one named construct per line)
BENIGN_UNORDERED = {
    "Manager.unregister#for-over:task.dependencies": "removals from multisets commute",
    "Manager.unregister#for-over:task.targets": "removals from multisets commute",
    "Manager.register#for-over:task.dependencies": "adds to rdeps/deptasks keyed by the dependency itself: one insertion per key, "
                                                    "order of *different* keys in a dict is never iterated by the scheduler",
    "ExprTask.info#for-over:self.expr._get_dependencies()": "diagnostic printout only",
    "MutableRef._info2#for-over:task.expr._get_dependencies()": "diagnostic printout only",
    "Manager.plot_deps#for-over:task.targets": "plot only",
    "Manager.plot_deps#for-over:task.dependencies": "plot only",
    "Manager.plot_tasks#for-over:task.dependencies": "plot only",
}


def _cinit_rules(col):
    repo = col.repo
    for rc in ref_classes(repo):
        cins = rc.cinits()
        q = rc.name
        # R3: cclass + declared fields
        col.add("C20.R3", f"{q}#cclass", any(d.endswith("cclass") for d in rc.c.decorators), rc.c.module.loc(rc.c.node),
                "every reference class is a @cython.cclass (MutableRef.__setattr__ relies on it; a plain subclass behaves differently "
                "in the two builds)", str(rc.c.decorators))
        if not cins:
            continue
        undeclared = sorted(f for f in rc.assigned_fields() if f not in rc.declared)
        col.add("C20.R3", f"{q}#assigns-declared-fields-only", not undeclared, rc.c.module.loc(rc.c.node),
                "__cinit__ assigns only fields declared with cython.declare (an undeclared one exists only in the pure build)", str(undeclared))
        # R2: same argument list along the MRO
        sigs = {k.name: (A.params(fn)[1:], bool(fn.args.vararg), bool(fn.args.kwarg), sorted(A.param_defaults(fn))) for k, fn in cins}
        first = list(sigs.values())[0]
        same = all(len(s[0]) == len(first[0]) and s[1:3] == first[1:3] for s in sigs.values())
        col.add("C20.R2", f"{q}#cinit-signatures-agree", same, rc.c.module.loc(rc.c.node),
                "all __cinit__ methods along the MRO accept the same arguments (Cython passes the constructor arguments to each)", str(sigs))
        # R1: each field assigned by one __cinit__ only; no read of a field assigned by another
        assigned = {}
        for k, fn in cins:
            for n in A.walk(fn):
                if isinstance(n, (ast.Assign, ast.AugAssign)):
                    for t in (n.targets if isinstance(n, ast.Assign) else [n.target]):
                        f = A.self_attr(t)
                        if f:
                            assigned.setdefault(f, set()).add(k.name)
        multi = {f: sorted(ks) for f, ks in assigned.items() if len(ks) > 1}
        col.add("C20.R1", f"{q}#field-assigned-by-one-cinit", not multi, rc.c.module.loc(rc.c.node),
                "along the MRO every field is assigned by exactly one __cinit__ (with two, the last writer differs between "
                "base-first Cython and the derived-first pure-Python simulation)", str(multi))
        cross = []
        for k, fn in cins:
            own = {f for f, ks in assigned.items() if k.name in ks}
            for n in A.walk(fn):
                f = A.self_attr(n) if isinstance(n, ast.Attribute) and isinstance(n.ctx, ast.Load) else None
                if f and f in assigned and f not in own:
                    cross.append(f"{k.name}.__cinit__ reads self.{f} (assigned by {sorted(assigned[f])})")
        col.add("C20.R1", f"{q}#no-cross-cinit-read", not cross, rc.c.module.loc(rc.c.node),
                "no __cinit__ reads a field assigned by another class's __cinit__ (not yet assigned in one of the two orders)", "; ".join(cross))
    # BaseRef.__init__ simulation walks the whole MRO and forwards the arguments
    cx = fnctx(repo, "BaseRef", "__init__")
    fors = [n for n in A.walk(cx.fn) if isinstance(n, ast.For)]
    ok = len(fors) == 1 and A.src(fors[0].iter) in ("type(self).__mro__", "self.__class__.__mro__")
    if ok:
        calls = [c for c in A.calls(fors[0]) if isinstance(c.func, ast.Name)]
        a = cx.fn.args
        ok = any(len(c.args) >= 2 and A.dotted(c.args[0]) == "self" and isinstance(c.args[1], ast.Starred) and
                 a.vararg and A.dotted(c.args[1].value) == a.vararg.arg and c.keywords and c.keywords[0].arg is None for c in calls)
        ok = ok and not [n for n in A.walk(fors[0]) if isinstance(n, (ast.Break, ast.Continue, ast.Return))]
    col.add("C20.R1", "BaseRef.__init__#simulates-full-cinit-chain", ok, cx.loc(cx.fn),
            "the pure-Python fallback calls the __cinit__ of every class of the MRO with the constructor arguments", "")


def _compiled_branches(col, rule="C20.R4"):
    repo = col.repo
    found = {}
    for m, c, fn in repo.all_functions():
        q = f"{c.name}.{fn.name}" if c else fn.name
        for n in A.walk(fn):
            if (isinstance(n, ast.Attribute) and A.dotted(n) == "cython.compiled") or \
                    (isinstance(n, ast.Call) and A.call_name(n) in ("is_cythonized", "refs.is_cythonized")):
                found.setdefault(q, m.loc(n))
    for q, where in sorted(found.items()):
        col.add(rule, f"{q}#build-dependent-branch", q in COMPILED_BRANCHES, where,
                "code that branches on the build is one of the documented places (a new branch makes behaviour build dependent)",
                COMPILED_BRANCHES.get(q, "not in the inventory"))
    for q in COMPILED_BRANCHES:
        if q not in found:
            col.add(rule, f"{q}#build-dependent-branch", True, "xdeps/refs.py", "documented build branch no longer present", "gone", note=False)
    # the two __setattr__ agree with each other apart from the ref class they build
    a = repo.method("MutableRef", "__setattr__")
    b = repo.method("ObjectAttrRef", "__setattr__")
    norm = lambda fn: A.src(A.strip_docstring(fn.body)).replace("ItemRef", "X").replace("AttrRef", "X")
    col.add(rule, "MutableRef.__setattr__~ObjectAttrRef.__setattr__#siblings-agree", norm(a) == norm(b), "xdeps/refs.py",
            "the two __setattr__ implementations treat built-in attributes and the build flag identically", "")


def _set_typed(expr, fn, repo) -> bool:
    s = A.src(expr)
    if isinstance(expr, ast.Call) and A.call_name(expr) in ("set", "frozenset"):
        return True
    if isinstance(expr, (ast.Set, ast.SetComp)):
        return True
    if isinstance(expr, ast.Attribute) and expr.attr in ("targets", "dependencies") and A.dotted(expr.value) in ("task", "self", "t", "tt"):
        return True
    if isinstance(expr, ast.Call) and is_method_call(expr, "_get_dependencies"):
        return True
    if isinstance(expr, ast.Call) and is_method_call(expr, "keys") and any(k.arg == "exclude_columns" for k in expr.keywords):
        return True
    if isinstance(expr, ast.BinOp) and isinstance(expr.op, (ast.BitAnd, ast.BitOr, ast.Sub)) and (_set_typed(expr.left, fn, repo) or _set_typed(expr.right, fn, repo)):
        return True
    if isinstance(expr, ast.Name):
        # local assigned from a set-typed expression (and only mutated by add/update)
        vals = [n.value for n in A.walk(fn) if isinstance(n, ast.Assign) and A.target_names(n.targets[0]) == [expr.id]]
        return bool(vals) and all(_set_typed(v, fn, repo) for v in vals)
    return False


ORDER_SINKS = ("append", "appendleft", "extend", "insert", "run", "write")


def _unordered(col, rule="C20.R5"):
    repo = col.repo
    mods = [repo.module("tasks"), repo.module("sorting"), repo.module("refs")]
    n_loops = 0
    for m, c, fn in repo.all_functions():
        if m not in mods:
            continue
        q = f"{c.name}.{fn.name}" if c else fn.name
        for n in A.walk(fn):
            if isinstance(n, ast.For) and _set_typed(n.iter, fn, repo):
                n_loops += 1
                body_calls = [x for st in n.body for x in A.calls(st)]
                sinks = [A.src(x)[:50] for x in body_calls if isinstance(x.func, ast.Attribute) and x.func.attr in ORDER_SINKS]
                sinks += [A.src(x)[:50] for st in n.body for x in A.walk(st) if isinstance(x, (ast.Yield,))]
                # first-insertion into dicts: X[k] = v / X[k].append
                key = f"{q}#for-over:{A.src(n.iter)}"
                if not sinks:
                    col.ok(rule, key, m.loc(n), "iteration over a set whose order reaches no order-sensitive sink", "")
                    continue
                benign = BENIGN_UNORDERED.get(key)
                col.add(rule, key, benign is not None, m.loc(n),
                        "an iteration over a set (hash-seed dependent order) does not feed an order-sensitive sink, unless benign for a stated reason",
                        benign or f"order reaches: {sinks}")
    # set passed as the start collection of the DFS
    cx = fnctx(repo, "Manager", "find_taskids")
    for r in (x for x in A.walk(cx.fn) if isinstance(x, ast.Return)):
        v = r.value
        if isinstance(v, ast.Name):
            vals = [n.value for n in A.walk(cx.fn) if isinstance(n, ast.Assign) and A.target_names(n.targets[0]) == [v.id]]
            v = vals[0] if len(vals) == 1 else v
        if isinstance(v, ast.Call) and A.call_name(v) == "toposort" and len(v.args) >= 2:
            st = _set_typed(v.args[1], cx.fn, repo)
            col.add(rule, "Manager.find_taskids#set-as-dfs-start-order", not st, cx.loc(r),
                    "the order in which start tasks are offered to the DFS does not depend on the hash seed",
                    "the start tasks are collected in a set; every start order gives a valid topological order on an acyclic rtasks, "
                    "but with the ordering cycles of known finding C01.R6 the run order, and then the contents, depend on PYTHONHASHSEED")
    col.count("set_iterations_inventoried", n_loops)


def check(col: Collector):
    _cinit_rules(col)
    _compiled_branches(col)
    _unordered(col)
    # one visited set shared across start vertices => any start order yields a valid order (acyclic case)
    check_toposort(col, "C20.R5")
