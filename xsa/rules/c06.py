"""C06 -- references are equal, and hash equally, exactly when they denote the same path."""
from __future__ import annotations

import ast

from .. import astutil as A
from .. import sym as S
from ..core import AnalysisError, Collector
from ..refterms import RefModel
from .c04 import model
from .common import sctx

PROP = "C06"
FLOORS = {"C06.R1": 10, "C06.R2": 5, "C06.R3": 3, "C06.R4": 20, "C06.R5": 10, "C06.R6": 3, "C06.R7": 1}
META = {
    "explanation": "Equality of refs is by printed form, hashing by a structural tuple. Per class the fields hashed equal the fields "
                   "rendered (plus a type discriminator on both sides) and a hashed field reaches the text untransformed (no sorting, "
                   "no set, no filtering other than the documented None marker); rendering is injective per step (item keys with !r, "
                   "attribute steps with a dot, distinct operator tokens, labels printed) and the same on every path; __eq__/__hash__ "
                   "are defined on BaseRef only, __eq__ decides by comparing the full printed forms on every path; every concrete "
                   "class assigns _hash in the __cinit__ chain that applies to it. All compared as symbolic terms.",
    "decides": "hash and equality are functions of the same data, per class; step rendering is injective",
    "not_decided": "separation of all pairs of paths (e.g. an attribute name containing a dot), collision behaviour of key families",
    "assumptions": ["repr() of keys is injective on the key types used (str, int, float, tuple)"],
}

# contexts in which a hashed field may appear inside the term returned by __repr__ without losing information
_TRANSPARENT_FUNCS = (("glob", "repr"), ("glob", "str"), ("glob", "isinstance"), ("glob", "list"), ("glob", "tuple"))


def repr_fields(rm: RefModel, cname: str):
    """(sx, fields mentioned by the printed form, [(field, offending context)])"""
    sx = rm.sx(cname, "__repr__")
    if sx is None:
        return None
    declared = rm.declared(cname)
    fields, bad = set(), []

    def walk(t, ctx):
        if not isinstance(t, tuple):
            return
        if S.is_attr(t, S.SELF) and t[2] in declared:
            fields.add(t[2])
            if ctx is not None:
                bad.append((t[2], ctx))
            return
        if t[:1] == ("call",):
            f = t[1]
            inner_ctx = ctx
            transparent = f in _TRANSPARENT_FUNCS or (f[:1] == ("attr",) and f[2] in ("join", "get", "format", "items")) \
                or (f[:1] == ("attr",) and S.is_attr(f[1], S.SELF))
            walk(f, ctx)
            for a in t[2]:
                walk(a, ctx if transparent else S.show(t)[:60])
            for _, a in t[3]:
                walk(a, ctx if transparent else S.show(t)[:60])
            return
        if t[:1] == ("acc",):
            for c in t[2]:
                for pol, g in c[1]:
                    ok_filter = g[:1] == ("cmp",) and g[1] in ("is not", "is") and g[3] == ("const", "None")
                    walk(g, ctx if ok_filter else f"filter {S.show(g)[:40]}")
                for x in c[2:]:
                    walk(x, ctx)
            return
        for x in t[1:]:
            if isinstance(x, tuple):
                if x and isinstance(x[0], str):
                    walk(x, ctx)
                else:
                    for y in x:
                        if isinstance(y, tuple):
                            if y and isinstance(y[0], str):
                                walk(y, ctx)
                            else:
                                for z in y:
                                    walk(z, ctx)
    for ev in sx.events:
        if ev.kind == "return" and ev.value is not None:
            walk(ev.value, None)
    return sx, fields, bad


def _same_data(col, rule="C06.R1"):
    rm = model(col)
    seen = set()
    for c in rm.classes:
        if rm.abstract(c.name) and c.name not in ("BinOpExpr", "UnaryOpExpr"):
            continue
        h = rm.hash_tuple(c.name)
        rp = repr_fields(rm, c.name)
        if h is None or rp is None:
            if not rm.abstract(c.name):
                col.fail(rule, f"{c.name}#hash-and-repr-exist", c.module.loc(c.node), "class has a _hash and a __repr__", "")
            continue
        key = (h[0].name, rm.defining(c.name, "__repr__").name)
        if key in seen:
            continue
        seen.add(key)
        hf, disc, unk = rm.hash_fields(c.name)
        rsx, rf, bad = rp
        hf_cmp = hf - {"_manager"}
        ok = hf_cmp == rf and not unk
        col.add(rule, f"{c.name}#hash-fields==repr-fields", ok, rsx.loc(rsx.fn),
                "the fields in the _hash tuple are exactly the fields rendered by __repr__ (equal text <=> equal hash input)",
                f"hashed {sorted(hf_cmp)}{' +type' if disc else ''}; rendered {sorted(rf)}; unrecognised hash elements {unk}")
        lossy = [(f, ctx) for f, ctx in bad if f in hf_cmp]
        col.add(rule, f"{c.name}#hashed-fields-printed-untransformed", not lossy, rsx.loc(rsx.fn),
                "a hashed field reaches the printed form as it is (element order and multiplicity kept: no sorted/set/filter), so "
                "equal texts come from equal hash inputs", f"{lossy}")
        disc_ok = disc or ("_op" in hf) or ("_func" in hf)
        col.add(rule, f"{c.name}#type-discriminator", disc_ok, h[1].loc(h[2]),
                "the hash distinguishes node kinds that print differently (class in the tuple, or the hashed callable)", S.show(h[2].value))


def _template_of(rm: RefModel, cname: str):
    """(sx, [(skeleton, holes)] one per return alternative) of cname.__repr__"""
    sx = rm.sx(cname, "__repr__")
    if sx is None:
        raise AnalysisError(f"{cname}.__repr__ vanished")
    out = []
    for ev in sx.of_kind("return"):
        for a in S.alts(ev.value):
            out.append(S.template(a) if S.template(a) is not None else a)
    return sx, out


def _injective(col, rule="C06.R2"):
    repo = col.repo
    rm = model(col)
    owner, key = S.sattr("_owner"), S.sattr("_key")

    def tmpl_is(t, skel, holes):
        return isinstance(t, tuple) and len(t) == 2 and isinstance(t[0], str) and t[0] == skel and \
            [h[1] for h in t[1]] == [h[1] for h in holes] and all(h[0] in want[0] for h, want in zip(t[1], holes))
    sx, ts = _template_of(rm, "ItemRef")
    ok = bool(ts) and all(tmpl_is(t, "{}[{}]", [(("", "!r", "!s"), owner), (("!r",), key)]) for t in ts)
    col.add(rule, "ItemRef.__repr__#key-with-repr-in-brackets", ok, sx.loc(sx.fn),
            "an item step prints as owner[<repr of key>] on every path: keys 1, '1' and (1,) differ, quotes and brackets inside "
            "string keys are escaped by repr", str([t if not isinstance(t[0], str) else t[0] for t in ts])[:200])
    sx, ts = _template_of(rm, "AttrRef")
    ok = bool(ts) and all(tmpl_is(t, "{}.{}", [(("", "!r", "!s"), owner), (("", "!s"), key)]) for t in ts)
    col.add(rule, "AttrRef.__repr__#dot-step", ok, sx.loc(sx.fn), "an attribute step prints as owner.key (distinct from any item step)", "")
    sx, ts = _template_of(rm, "Ref")
    col.add(rule, "Ref.__repr__#label", bool(ts) and all(t == key or t == S.fcall("str", key) for t in ts), sx.loc(sx.fn),
            "a container ref prints its label", "")
    for base, skel, fields in (("BinOpExpr", "({} {} {})", ("_lhs", "_op_str", "_rhs")), ("UnaryOpExpr", "({}{})", ("_op_str", "_arg"))):
        toks = {}
        for c in repo.subclasses(base):
            t = A.const(repo.class_const(c, "_op_str"))
            toks.setdefault(t, []).append(c.name)
        dup = {t: v for t, v in toks.items() if len(v) > 1 or not isinstance(t, str)}
        col.add(rule, f"{base}#distinct-op-tokens", not dup and len(toks) >= 3, repo.cls(base).module.loc(repo.cls(base).node),
                f"subclasses of {base} print pairwise distinct operator tokens", str(dup))
        sx, ts = _template_of(rm, base)
        ok = bool(ts) and all(tmpl_is(t, skel, [(("", "!s", "!r"), S.sattr(f)) for f in fields]) for t in ts)
        col.add(rule, f"{base}.__repr__#parenthesised-in-order", ok, sx.loc(sx.fn),
                f"{base} prints `(` operands and operator in evaluation order `)`: nested expressions of different structure print differently",
                str([t[0] if isinstance(t[0], str) else S.show(t) for t in ts])[:200])
        # a subclass that prints differently must still parenthesise (C11/C13 rely on it); none today
        for c in repo.subclasses(base):
            if "__repr__" in c.methods:
                sx2, ts2 = _template_of(rm, c.name)
                ok2 = bool(ts2) and all(isinstance(t[0], str) and t[0].startswith("(") and t[0].endswith(")") for t in ts2)
                col.add(rule, f"{c.name}.__repr__#parenthesised", ok2, sx2.loc(sx2.fn), f"{c.name} prints fully parenthesised", "")
    sx, ts = _template_of(rm, "LiteralExpr")
    col.add(rule, "LiteralExpr.__repr__#repr-of-literal", bool(ts) and all(t == S.fcall("repr", S.sattr("_arg")) for t in ts), sx.loc(sx.fn),
            "a literal prints as its repr", "")


def _eq_hash_pairing(col, rule="C06.R3"):
    rm = model(col)
    bad = False
    for c in rm.classes:
        if c.name == "BaseRef":
            continue
        own = {m for m in ("__eq__", "__hash__", "__ne__") if m in c.methods}
        if own:
            bad = True
            col.add(rule, f"{c.name}#no-eq-hash-override", False, c.module.loc(c.methods[sorted(own)[0]]),
                    "__eq__/__hash__ are defined once, on BaseRef (a subclass overriding one of them breaks equal => equal hashes)", str(sorted(own)))
    if not bad:
        col.ok(rule, "BaseRef-subclasses#no-eq-hash-override", "xdeps/refs.py", "no subclass overrides __eq__/__hash__", "")
    sx = rm.sx("BaseRef", "__hash__")
    rets = sx.of_kind("return")
    col.add(rule, "BaseRef.__hash__#returns-_hash", bool(rets) and all(r.value == S.sattr("_hash") for r in rets), sx.loc(sx.fn),
            "__hash__ returns the structural hash computed at construction", "")
    sx = rm.sx("BaseRef", "__eq__")
    other = sx.P(0)
    rets = sx.of_kind("return")
    n_printed, facts = 0, []
    same = ("cmp", "is", S.SELF, other)
    for r in rets:
        conds = [c for c in sx.conds(r.nid)]
        for a in S.alts(r.value):
            printed = any(a in (("cmp", "==", S.fcall(f, S.SELF), S.fcall(f, other)), ("cmp", "==", S.fcall(f, other), S.fcall(f, S.SELF)))
                          for f in ("str", "repr"))
            if printed:
                n_printed += 1
                rest = [c for c in conds if c not in (("cmp", "is not", S.SELF, other), ("cmp", "is not", other, S.SELF))]
                if rest:
                    facts.append(f"printed-form comparison only under {[S.show(c) for c in rest]}")
            elif a == ("const", "True") and any(c in (same, ("cmp", "is", other, S.SELF)) for c in conds) and len(conds) == 1:
                pass    # identity shortcut: the same object prints the same
            elif a == ("glob", "NotImplemented") and any(S.match(c, ("uop", "not", S.fcall("isinstance", other, S.ANY))) is not None for c in conds):
                pass
            else:
                facts.append(f"returns {S.show(a)} under {[S.show(c) for c in conds]}")
    falls = sx.cfg.path_avoiding(sx.cfg.ENTRY, sx.cfg.EXIT, [r.nid for r in rets])
    col.add(rule, "BaseRef.__eq__#compares-printed-forms", n_printed >= 1 and not facts and not falls, sx.loc(sx.fn),
            "__eq__ decides by comparing the complete printed forms of both sides on every path (an identity shortcut is the only "
            "other answer allowed)", "; ".join(facts))


def _hash_assigned(col, rule="C06.R4"):
    rm = model(col)
    for c in rm.classes:
        if rm.abstract(c.name):
            continue
        h = rm.hash_tuple(c.name)
        ok = h is not None and h[3] is not None
        if ok:
            k, sx, ev, _ = h
            ok = sx.cfg.must_pass(sx.cfg.ENTRY, sx.cfg.EXIT, [ev.nid])
        col.add(rule, f"{c.name}#_hash-assigned", ok, c.module.loc(c.node),
                "the __cinit__ chain of the class assigns _hash = hash((...)) on every path", "")


def _hash_only_from_cinit(col, rule="C06.R4"):
    """the hash of a reference is a function of its identifying fields, computed by __cinit__ in this process: no other method
    (a __setstate__ carrying a pickled hash over, a lazily recomputed or cached one) stores _hash"""
    rm = model(col)
    import ast as _ast
    others = []
    for c in rm.classes:
        for name, fn in c.methods.items():
            if name == "__cinit__":
                continue
            for n in _ast.walk(fn):
                if isinstance(n, (_ast.Assign, _ast.AugAssign, _ast.AnnAssign)):
                    tgts = n.targets if isinstance(n, _ast.Assign) else [n.target]
                    for t in tgts:
                        for x in _ast.walk(t):
                            if isinstance(x, _ast.Attribute) and x.attr == "_hash" and isinstance(x.ctx, _ast.Store):
                                others.append(f"{c.name}.{name}")
                if isinstance(n, _ast.Call) and getattr(n.func, "attr", getattr(n.func, "id", "")) in ("setattr", "__setattr__") \
                        and any(isinstance(a, _ast.Constant) and a.value == "_hash" for a in n.args):
                    others.append(f"{c.name}.{name}")
    col.add(rule, "BaseRef-subclasses#_hash-stored-only-by-__cinit__", not others, "xdeps/refs.py",
            "only the __cinit__ chain stores _hash (string hashes differ between processes: a hash restored from a pickle, or "
            "kept from another object, makes equal paths hash differently)", str(sorted(set(others))))


def _call_arguments_with_repr(col, rule="C06.R2"):
    """CallRef.__repr__ is what == compares, __cinit__ hashes the arguments themselves: a literal argument must print with repr
    (str would make f.g(a, '2') and f.g(a, 2) equal with different hashes)"""
    sx = sctx(col.repo, "CallRef", "__repr__")
    rets = sx.of_kind("return")
    if not rets:
        raise AnalysisError("CallRef.__repr__: no return -- cannot decide")
    ARGS, KW = ("elem", S.sattr("_args")), ("elem", S.sattr("_kwargs"))
    values = {"positional argument": (ARGS,), "keyword argument value": (("item", KW, 1), ("val", S.sattr("_kwargs")))}
    for what, forms in values.items():
        good, bad = [], []
        for r in rets:
            seen_in_repr = set()
            try:
                whole = S.norm_str(r.value)
            except Exception:
                whole = r.value
            for t in list(S.subterms(r.value)) + list(S.subterms(whole)):
                if S.is_call_of(t, ("glob", "repr")) and len(t[2]) == 1 and t[2][0] in forms:
                    good.append(t)
                    seen_in_repr.add(id(t[2][0]))
                elif t[:1] == ("fmt",) and t[2] in forms:
                    (good if t[1] == "!r" else bad).append(t)
                elif S.is_call_of(t, ("glob", "str")) and len(t[2]) == 1 and t[2][0] in forms:
                    bad.append(t)
                elif t[:1] == ("op",) and t[1] == "%" and t[2][:1] == ("const",) and t[2][1][:1] in ("'", '"'):
                    # printf-style: pair the conversions of the format string with the operands
                    import re as _re
                    convs = [c for c in _re.findall(r"%[-#0 +]*\d*(?:\.\d+)?([a-zA-Z%])", t[2][1]) if c != "%"]
                    ops_ = list(t[3][1]) if t[3][:1] == ("tuple",) else [t[3]]
                    if len(convs) == len(ops_):
                        for cv, o in zip(convs, ops_):
                            if o in forms:
                                (good if cv == "r" else bad).append(t)
                elif S.is_call_of(t, meth="join") and any(a in forms for a in t[2]):
                    bad.append(t)
        if not good and not bad:
            raise AnalysisError(f"CallRef.__repr__: how a {what} is printed is not recognised -- cannot decide")
        col.add(rule, f"CallRef.__repr__#{what.replace(' ', '-')}-printed-with-repr", not bad, sx.loc(rets[0]),
                f"a {what} that is not a reference prints as repr() of it, so that different literals print differently",
                "; ".join(S.show(b)[:60] for b in bad) or "repr")


def check(col: Collector):
    with col.rule():
        _call_arguments_with_repr(col)
    with col.rule():
        _hash_only_from_cinit(col)
    with col.rule():
        _same_data(col)
    with col.rule():
        _injective(col)
    with col.rule():
        _eq_hash_pairing(col)
    with col.rule():
        _hash_assigned(col)
    # the path a reference denotes is the sequence of keys given at construction: every access step is recorded verbatim
    from . import c01, c04
    from .common import shared
    with col.rule():
        shared(col, "C06.R5", [c04.navigation_rules, c01._entry_points],
               why="two references denote the same path iff they were built from the same steps; a step rewritten at "
                   "construction makes different written paths equal or equal written paths different")
    # references built by the MAD-X front end carry plain string keys (a lark Token key prints differently and compares unequal)
    from . import c19
    with col.rule():
        shared(col, "C06.R6", [c19._plain_names], why="ItemRef(owner, Token('NAME', 'a')) and owner['a'] hash alike but are not equal")
    # round 7: the hash covers the fields as stored (a field normalised on the way in while the hash takes the raw argument)
    from . import c20
    with col.rule():
        shared(col, "C06.R7", [c20._cinit_rules], select=lambda o: "field-assigned-by-one-cinit" in o.construct,
               why="equality compares the printed (stored) fields; a hash computed from the raw constructor argument differs for equal references")
