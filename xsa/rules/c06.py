"""C06 -- references are equal, and hash equally, exactly when they denote the same path."""
from __future__ import annotations

import ast

from .. import astutil as A
from ..core import AnalysisError, Collector
from ..refsmodel import RefClass, ref_classes
from .common import FnCtx, fnctx

PROP = "C06"
FLOORS = {"C06.R1": 10, "C06.R2": 5, "C06.R3": 3, "C06.R4": 20}
META = {
    "explanation": "Equality of refs is by printed form, hashing by a structural tuple. Per class the fields hashed equal the fields "
                   "rendered (plus a type discriminator on both sides); rendering is injective per step (item keys with !r, attribute "
                   "steps with a dot, distinct operator tokens, labels printed); __eq__/__hash__ are defined on BaseRef only, __eq__ "
                   "compares the full printed forms; every concrete class assigns _hash in the __cinit__ chain that applies to it.",
    "decides": "hash and equality are functions of the same data, per class; step rendering is injective",
    "not_decided": "separation of all pairs of paths (e.g. an attribute name containing a dot), collision behaviour of key families",
    "assumptions": ["repr() of keys is injective on the key types used (str, int, float, tuple)"],
}

TYPE_RENDER = {
    "Ref": "label only", "ObjectAttrRef": "label only", "AttrRef": "owner.key", "ItemRef": "owner[key!r]",
}


def _same_data(col, rule="C06.R1"):
    repo = col.repo
    seen = set()
    for rc in ref_classes(repo):
        if rc.abstract and rc.name not in ("BinOpExpr", "UnaryOpExpr"):
            continue
        h = rc.hash_def()
        rp = rc.repr_info()
        if h is None or rp is None:
            if not rc.abstract:
                col.fail(rule, f"{rc.name}#hash-and-repr-exist", rc.c.module.loc(rc.c.node), "class has a _hash and a __repr__", "")
            continue
        key = (id(h[1]), id(rp[1]))
        if key in seen:
            continue
        seen.add(key)
        hf, disc, unk = rc.hash_fields()
        rf = {f for f in rp[2] if f in rc.declared}
        extra_repr_consts = {f for f in rp[2] if f not in rc.declared}
        if rc.name in ("Ref", "ObjectAttrRef"):
            # the container itself (_owner) is deliberately neither hashed nor printed: the label identifies it
            pass
        hf_cmp = hf - {"_manager"}
        ok = hf_cmp == rf and not unk
        col.add(rule, f"{rc.name}#hash-fields==repr-fields", ok, rc.c.module.loc(rp[1]),
                "the fields in the _hash tuple are exactly the fields rendered by __repr__ (equal text <=> equal hash input)",
                f"hashed {sorted(hf_cmp)}{' +type' if disc else ''}; rendered {sorted(rf)} (+{sorted(extra_repr_consts)}); unrecognised hash elements {unk}")
        # type discriminator: either in the hash tuple or implied by a hashed field that is rendered as the callable name
        disc_ok = disc or ("_op" in hf) or ("_func" in hf)
        col.add(rule, f"{rc.name}#type-discriminator", disc_ok, rc.c.module.loc(h[2]),
                "the hash distinguishes node kinds that print differently (class in the tuple, or the hashed callable)", A.src(h[2]))


def _injective(col, rule="C06.R2"):
    repo = col.repo
    cx = fnctx(repo, "ItemRef", "__repr__")
    rets = [n.value for n in A.walk(cx.fn) if isinstance(n, ast.Return)]
    ok = len(rets) == 1 and isinstance(rets[0], ast.JoinedStr)
    facts = A.src(rets[0]) if rets else ""
    if ok:
        parts = rets[0].values
        fv = [p for p in parts if isinstance(p, ast.FormattedValue)]
        lits = "".join(p.value for p in parts if isinstance(p, ast.Constant))
        ok = len(fv) == 2 and A.self_attr(fv[0].value) == "_owner" and A.self_attr(fv[1].value) == "_key" and \
            fv[1].conversion == ord("r") and lits == "[]" and isinstance(parts[-1], ast.Constant) and parts[-1].value == "]"
    col.add(rule, "ItemRef.__repr__#key-with-repr-in-brackets", ok, cx.loc(cx.fn),
            "an item step prints as owner[<repr of key>]: keys 1 and '1' differ, quotes and brackets inside string keys are escaped by repr",
            facts)
    cx = fnctx(repo, "AttrRef", "__repr__")
    rets = [n.value for n in A.walk(cx.fn) if isinstance(n, ast.Return)]
    ok = len(rets) == 1 and isinstance(rets[0], ast.JoinedStr)
    if ok:
        parts = rets[0].values
        fv = [p for p in parts if isinstance(p, ast.FormattedValue)]
        lits = "".join(p.value for p in parts if isinstance(p, ast.Constant))
        ok = len(fv) == 2 and A.self_attr(fv[0].value) == "_owner" and A.self_attr(fv[1].value) == "_key" and lits == "."
    col.add(rule, "AttrRef.__repr__#dot-step", ok, cx.loc(cx.fn), "an attribute step prints as owner.key (distinct from any item step)",
            A.src(rets[0]) if rets else "")
    cx = fnctx(repo, "Ref", "__repr__")
    rets = [n.value for n in A.walk(cx.fn) if isinstance(n, ast.Return)]
    col.add(rule, "Ref.__repr__#label", len(rets) == 1 and A.self_attr(rets[0]) == "_key", cx.loc(cx.fn),
            "a container ref prints its label", A.src(rets[0]) if rets else "")
    for base in ("BinOpExpr", "UnaryOpExpr"):
        toks = {}
        for c in repo.subclasses(base):
            t = A.const(repo.class_const(c, "_op_str"))
            toks.setdefault(t, []).append(c.name)
        dup = {t: v for t, v in toks.items() if len(v) > 1 or not isinstance(t, str)}
        col.add(rule, f"{base}#distinct-op-tokens", not dup and len(toks) >= 3, repo.cls(base).module.loc(repo.cls(base).node),
                f"subclasses of {base} print pairwise distinct operator tokens", str(dup))
        cx = fnctx(repo, base, "__repr__")
        rets = [n.value for n in A.walk(cx.fn) if isinstance(n, ast.Return)]
        ok = len(rets) == 1 and isinstance(rets[0], ast.JoinedStr)
        if ok:
            parts = rets[0].values
            first, last = parts[0], parts[-1]
            ok = isinstance(first, ast.Constant) and first.value.startswith("(") and isinstance(last, ast.Constant) and last.value.endswith(")")
            order = [A.self_attr(p.value) for p in parts if isinstance(p, ast.FormattedValue)]
            ok = ok and order == (["_lhs", "_op_str", "_rhs"] if base == "BinOpExpr" else ["_op_str", "_arg"])
        col.add(rule, f"{base}.__repr__#parenthesised-in-order", ok, cx.loc(cx.fn),
                f"{base} prints `(` operands and operator in evaluation order `)`: nested expressions of different structure print differently",
                A.src(rets[0]) if rets else "")
    cx = fnctx(repo, "LiteralExpr", "__repr__")
    rets = [n.value for n in A.walk(cx.fn) if isinstance(n, ast.Return)]
    ok = len(rets) == 1 and isinstance(rets[0], ast.Call) and A.call_name(rets[0]) == "repr" and A.self_attr(rets[0].args[0]) == "_arg"
    col.add(rule, "LiteralExpr.__repr__#repr-of-literal", ok, cx.loc(cx.fn), "a literal prints as its repr", "")


def _eq_hash_pairing(col, rule="C06.R3"):
    repo = col.repo
    for rc in ref_classes(repo):
        if rc.name == "BaseRef":
            continue
        own = {m for m in ("__eq__", "__hash__", "__ne__") if m in rc.c.methods}
        if own:
            col.add(rule, f"{rc.name}#no-eq-hash-override", False, rc.c.module.loc(rc.c.methods[sorted(own)[0]]),
                    "__eq__/__hash__ are defined once, on BaseRef (a subclass overriding one of them breaks equal => equal hashes)", str(sorted(own)))
    col.ok(rule, "BaseRef-subclasses#no-eq-hash-override", "xdeps/refs.py", "no subclass overrides __eq__/__hash__", "") \
        if not any(o.rule == rule and not o.ok for o in col.obs) else None
    cx = fnctx(repo, "BaseRef", "__hash__")
    rets = [n.value for n in A.walk(cx.fn) if isinstance(n, ast.Return)]
    col.add(rule, "BaseRef.__hash__#returns-_hash", len(rets) == 1 and A.self_attr(rets[0]) == "_hash", cx.loc(cx.fn),
            "__hash__ returns the structural hash computed at construction", "")
    cx = fnctx(repo, "BaseRef", "__eq__")
    op = A.params(cx.fn)[1]
    rets = [n for n in cx.cfg.nodes.values() if n.kind == "stmt" and isinstance(n.ast, ast.Return)]

    def printed(e, who):
        return isinstance(e, ast.Call) and A.call_name(e) in ("str", "repr") and len(e.args) == 1 and A.dotted(e.args[0]) == who

    def identity_test(t):
        p = A.compare_parts(t)
        return bool(p and isinstance(p[1], ast.Is) and {A.dotted(p[0]), A.dotted(p[2])} == {"self", op})
    n_printed = 0
    bad = []
    for r in rets:
        v = r.ast.value
        p = A.compare_parts(v) if v is not None else None
        if p and isinstance(p[1], ast.Eq) and ((printed(p[0], "self") and printed(p[2], op)) or (printed(p[2], "self") and printed(p[0], op))) \
                and A.call_name(p[0]) == A.call_name(p[2]):
            others = [g for g in cx.cfg.guards(r.id) if not (g.kind == "F" and identity_test(g.ast))]
            if others:
                bad.append(f"printed-form comparison only under {[A.src(g.ast) for g in others]}")
            n_printed += 1
        elif A.is_const(v, True) and any(g.kind == "T" and identity_test(g.ast) for g in cx.cfg.guards(r.id)) and len(cx.cfg.guards(r.id)) == 1:
            pass  # identity shortcut: the same object prints the same
        else:
            bad.append(f"returns {A.src(v)} under {[g.kind + ':' + A.src(g.ast) for g in cx.cfg.guards(r.id)]}")
    falls = cx.cfg.path_avoiding(cx.cfg.ENTRY, cx.cfg.EXIT, [r.id for r in rets])
    col.add(rule, "BaseRef.__eq__#compares-printed-forms", n_printed >= 1 and not bad and not falls, cx.loc(cx.fn),
            "__eq__ decides by comparing the complete printed forms of both sides (an identity shortcut is the only other answer allowed)",
            "; ".join(bad))


def _hash_assigned(col, rule="C06.R4"):
    repo = col.repo
    for rc in ref_classes(repo):
        if rc.abstract:
            continue
        h = rc.hash_def()
        ok = h is not None and h[3] is not None
        if ok:
            k, fn, st, _ = h
            cx = FnCtx(k.module, k, fn)
            nid = cx.cfg.node_of(st)
            ok = nid is not None and cx.cfg.must_pass(cx.cfg.ENTRY, cx.cfg.EXIT, [nid])
        col.add(rule, f"{rc.name}#_hash-assigned", ok, rc.c.module.loc(rc.c.node),
                "the __cinit__ chain of the class assigns _hash = hash((...)) on every path", "")


def check(col: Collector):
    _same_data(col)
    _injective(col)
    _eq_hash_pairing(col)
    _hash_assigned(col)
