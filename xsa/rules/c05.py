"""C05 -- reported dependencies contain every location an expression reads."""
from __future__ import annotations

import ast

from .. import astutil as A
from ..core import AnalysisError, Collector
from ..refsmodel import RefClass, ref_classes, _local_alias, resolve_local
from .common import FnCtx, fnctx, has_guard, is_method_call, test_is_none

PROP = "C05"
FLOORS = {"C05.R1": 25, "C05.R2": 7, "C05.R3": 7, "C05.R4": 5}
META = {
    "explanation": "Per node class (every subclass of BaseRef, discovered from the class table): every field that _get_value evaluates "
                   "through _mk_value -- directly or element-wise -- is traversed by the _get_dependencies that applies to the class, "
                   "under an `isinstance(x, BaseRef)` test and into the shared accumulator; the whole _get_dependencies family returns a "
                   "set for out=None (interprocedural nullness) and, when an accumulator is passed, adds to that very object even when it "
                   "is still empty (callers ignore the return value); MutableRef adds owner, key and itself; a container Ref adds nothing.",
    "decides": "read-set is a subset of dep-set per class and slot; never None; accumulator discipline",
    "not_decided": "the perturb-one-location semantic statement (follows from these and C04 by induction, not separately checked)",
    "assumptions": ["expression nodes are built through the library's operators (UnaryOpExpr's operand is a ref)"],
}


def _readset(col, rule="C05.R1"):
    repo = col.repo
    for rc in ref_classes(repo):
        if rc.abstract and rc.name not in ("MutableRef",):
            continue
        reads = rc.value_reads() or set()
        d = rc.dep_fields()
        if d is None:
            raise AnalysisError(f"{rc.name}: no _get_dependencies resolves")
        k, fn, deps = d
        if rc.name in ("Ref", "ObjectAttrRef"):
            # a container label is not a location: it reports nothing (C05.R4)
            continue
        for f in sorted(reads):
            col.add(rule, f"{rc.name}#reads:{f}", f in deps, k.module.loc(fn),
                    f"the slot `{f}` that {rc.name}._get_value evaluates is traversed by the _get_dependencies that applies "
                    f"({k.name}._get_dependencies)", f"traversed slots: {sorted(deps)}")
    # every traversal of a possibly-literal slot is guarded by isinstance(x, BaseRef); unguarded only where documented
    seen = set()
    for rc in ref_classes(repo):
        d = rc.dep_fields()
        if d is None or id(d[1]) in seen:
            continue
        seen.add(id(d[1]))
        k, fn, deps = d
        cx = FnCtx(k.module, k, fn)
        alias = _local_alias(fn)
        for nid in cx.call_nodes(lambda c: is_method_call(c, "_get_dependencies")):
            for c in cx.calls_at(nid, lambda c: is_method_call(c, "_get_dependencies")):
                recv = c.func.value
                rs = A.src(recv)

                def isref(t, rs=rs, recv=recv):
                    return isinstance(t, ast.Call) and A.call_name(t) == "isinstance" and len(t.args) == 2 and \
                        (A.src(t.args[0]) == rs or A.src(resolve_local(t.args[0], alias)) == A.src(resolve_local(recv, alias))) \
                        and A.dotted(t.args[1]) == "BaseRef"
                guarded = has_guard(cx.cfg, nid, "T", isref)
                other_guards = [g for g in cx.cfg.guards(nid) if not isinstance(g.ast, ast.For) and not (g.kind == "T" and isref(g.ast))]
                if k.name == "UnaryOpExpr":
                    col.ok(rule, f"{k.name}._get_dependencies#traverse:{rs}", cx.loc(nid),
                           "unary nodes are only built over refs (documented), the operand is traversed unconditionally", "")
                    continue
                col.add(rule, f"{k.name}._get_dependencies#traverse:{rs}", guarded and not other_guards, cx.loc(nid),
                        f"`{rs}` is traversed exactly when it is a BaseRef (any ref kind: item, attribute, expression, call)",
                        f"guards: {[g.kind + ':' + A.src(g.ast) for g in cx.cfg.guards(nid) if not isinstance(g.ast, ast.For)]}")


def _never_none(col, rule="C05.R2"):
    """interprocedural: with out=None every implementer returns a set"""
    repo = col.repo
    impls = {}
    for rc in ref_classes(repo):
        if "_get_dependencies" in rc.c.methods:
            impls[rc.name] = (rc, rc.c.methods["_get_dependencies"])
    if len(impls) < 7:
        raise AnalysisError("fewer than 7 _get_dependencies implementations")
    status = {}

    def analyse(name):
        rc, fn = impls[name]
        cx = FnCtx(rc.c.module, rc.c, fn)
        P = A.params(fn)
        if len(P) != 2 or not A.is_none(A.param_defaults(fn).get(P[1])):
            return False, "signature is not (self, out=None)"
        out = P[1]
        rets = [n for n in cx.cfg.nodes.values() if n.kind == "stmt" and isinstance(n.ast, ast.Return)]
        if not rets or cx.cfg.path_avoiding(cx.cfg.ENTRY, cx.cfg.EXIT, [r.id for r in rets]):
            return False, "a path falls off the end (returns None)"
        for r in rets:
            v = r.ast.value
            if v is None:
                return False, "bare return"
            if isinstance(v, ast.Name) and v.id == out:
                # every definition of `out` reaching here is a set, or the parameter under a not-None fact
                ds = cx.defs(out, r.id)
                for d in ds:
                    if d.kind == "param":
                        # param may be None unless the path is dominated by a repair: `if out is None: out = set()`
                        repaired = any(dd.kind == "assign" and has_guard(cx.cfg, dd.nid, "T", lambda t: test_is_none(t, out))
                                       for dd in ds)
                        if not repaired:
                            return False, f"returns the parameter `{out}` unrepaired (None when called without accumulator)"
                    elif d.kind == "assign":
                        if not _is_fresh_set(d.value, out):
                            return False, f"`{out}` rebound to {A.src(d.value)}"
                continue
            if _is_fresh_set(v, out):
                continue
            if isinstance(v, ast.Call) and is_method_call(v, "_get_dependencies"):
                # delegation: all implementers that the receiver's slot may hold must be non-None; conservatively: all
                status.setdefault(name, "pending")
                continue
            return False, f"returns {A.src(v)}"
        return True, ""

    results = {n: analyse(n) for n in impls}
    all_ok = all(ok for ok, _ in results.values())
    for n, (ok, why) in sorted(results.items()):
        rc, fn = impls[n]
        deleg = any(isinstance(r.value, ast.Call) and is_method_call(r.value, "_get_dependencies") for r in A.walk(fn) if isinstance(r, ast.Return) and r.value is not None)
        if ok and deleg and not all_ok:
            ok, why = False, "delegates to an implementer that may return None: " + ", ".join(k for k, (o, _) in results.items() if not o)
        col.add(rule, f"{n}._get_dependencies#returns-a-set", ok, rc.c.module.loc(fn),
                "called without accumulator, _get_dependencies returns a set (possibly empty), never None", why)


def _is_fresh_set(v, out) -> bool:
    if isinstance(v, ast.Call) and A.call_name(v) == "set":
        return True
    if isinstance(v, ast.Set):
        return True
    if isinstance(v, ast.BoolOp) and isinstance(v.op, ast.Or) and len(v.values) == 2 and A.dotted(v.values[0]) == out \
            and _is_fresh_set(v.values[1], out):
        return True
    if isinstance(v, ast.IfExp) and _is_fresh_set(v.body, out) or isinstance(v, ast.IfExp) and _is_fresh_set(v.orelse, out):
        return True
    return False


def _accumulator(col, rule="C05.R3"):
    """an implementer that adds anything must add into the *given* accumulator, also when it is empty"""
    repo = col.repo
    for rc in ref_classes(repo):
        if "_get_dependencies" not in rc.c.methods:
            continue
        fn = rc.c.methods["_get_dependencies"]
        cx = FnCtx(rc.c.module, rc.c, fn)
        out = A.params(fn)[1]
        adds = cx.call_nodes(lambda c: (is_method_call(c, "_get_dependencies") and c.args) or
                             (isinstance(c.func, ast.Attribute) and c.func.attr in ("add", "update") and A.dotted(c.func.value) == out))
        q = f"{rc.name}._get_dependencies"
        if not adds:
            col.ok(rule, f"{q}#adds-nothing", cx.loc(fn), "adds nothing, the accumulator identity is irrelevant", "")
            continue
        bad = []
        for nid in cx.cfg.nodes:
            for d in cx.rd.defs.get(nid, []):
                if d.name == out and d.kind == "assign":
                    v = d.value
                    truthy_rebind = isinstance(v, ast.BoolOp) or (isinstance(v, ast.IfExp) and not test_is_none(v.test, out)
                                                                  and not (A.compare_parts(v.test) and isinstance(A.compare_parts(v.test)[1], ast.IsNot)))
                    guarded_none = has_guard(cx.cfg, nid, "T", lambda t: test_is_none(t, out))
                    if truthy_rebind or not (guarded_none or isinstance(v, ast.IfExp)):
                        bad.append(A.src(d.stmt))
        col.add(rule, f"{q}#adds-into-given-accumulator", not bad, cx.loc(fn),
                "the accumulator passed by the parent node is replaced only when it is None -- never when it is merely empty "
                "(parents ignore the return value, so a fresh set would lose the dependencies)", f"rebinding: {bad}")
        # every recursive call forwards the accumulator
        fw = []
        for nid in cx.call_nodes(lambda c: is_method_call(c, "_get_dependencies")):
            for c in cx.calls_at(nid, lambda c: is_method_call(c, "_get_dependencies")):
                a = (c.args + [k.value for k in c.keywords])
                if not (len(a) == 1 and A.dotted(a[0]) == out):
                    fw.append(A.src(c))
        col.add(rule, f"{q}#forwards-accumulator", not fw, cx.loc(fn),
                "every nested traversal receives the same accumulator", str(fw))


def _structure(col, rule="C05.R4"):
    repo = col.repo
    cx = fnctx(repo, "MutableRef", "_get_dependencies")
    out = A.params(cx.fn)[1]
    adds_self = cx.call_nodes(lambda c: isinstance(c.func, ast.Attribute) and c.func.attr == "add" and A.dotted(c.func.value) == out
                              and len(c.args) == 1 and A.dotted(c.args[0]) == "self")
    ok = len(adds_self) == 1 and not [g for g in cx.cfg.guards(adds_self[0])] and cx.cfg.must_pass(cx.cfg.ENTRY, cx.cfg.EXIT, adds_self)
    col.add(rule, "MutableRef._get_dependencies#adds-itself", ok, cx.loc(cx.fn), "an item/attribute location reports itself, unconditionally", "")
    rc = [r for r in ref_classes(repo) if r.name == "MutableRef"][0]
    deps = rc.dep_fields()[2]
    col.add(rule, "MutableRef._get_dependencies#owner-and-key", {"_owner", "_key"} <= set(deps), cx.loc(cx.fn),
            "an item/attribute location reports the dependencies of its owner and of a computed key", str(sorted(deps)))
    for cls in ("AttrRef", "ItemRef"):
        c = repo.cls(cls)
        col.add(rule, f"{cls}#inherits-MutableRef-dependencies", "_get_dependencies" not in c.methods and repo.lookup(c, "_get_dependencies")[0].name == "MutableRef",
                c.module.loc(c.node), f"{cls} uses MutableRef._get_dependencies", "")
    cx = fnctx(repo, "Ref", "_get_dependencies")
    adds = cx.call_nodes(lambda c: isinstance(c.func, ast.Attribute) and c.func.attr in ("add", "update"))
    col.add(rule, "Ref._get_dependencies#adds-nothing", not adds, cx.loc(cx.fn), "a container label is not a dependency", "")
    cx = fnctx(repo, "ExprTask", "__init__")
    ep = A.params(cx.fn)[2]
    ok = any(isinstance(n, ast.Assign) and A.self_attr(n.targets[0]) == "dependencies" and isinstance(n.value, ast.Call)
             and is_method_call(n.value, "_get_dependencies", ep) and not n.value.args for n in A.walk(cx.fn))
    col.add(rule, "ExprTask.__init__#dependencies-from-expression", ok, cx.loc(cx.fn),
            "an expression task's dependencies are expr._get_dependencies()", "")


def check(col: Collector):
    _readset(col)
    _never_none(col)
    _accumulator(col)
    _structure(col)
