"""C05 -- reported dependencies contain every location an expression reads."""
from __future__ import annotations

import ast

from .. import astutil as A
from .. import sym as S
from ..core import AnalysisError, Collector
from ..refterms import BASEREF, RefModel, is_ref_test, unmk
from .common import SCtx, sctx
from .c04 import model

PROP = "C05"
FLOORS = {"C05.R1": 25, "C05.R2": 7, "C05.R3": 7, "C05.R4": 5, "C05.R5": 1}
META = {
    "explanation": "Per node class (every subclass of BaseRef, discovered from the class table): every slot that _get_value evaluates "
                   "through _mk_value -- directly or element-wise -- is traversed by the _get_dependencies that applies to the class "
                   "ON EVERY PATH on which the slot holds a reference (a path that returns early, or a guard narrower than "
                   "`isinstance(x, BaseRef)`, is a violation), into the shared accumulator; the whole _get_dependencies family returns "
                   "a set for out=None (path-sensitive nullness) and, when an accumulator is passed, adds to that very object even when "
                   "it is still empty (callers ignore the return value); MutableRef adds owner, key and itself; a container Ref adds nothing.",
    "decides": "read-set is a subset of dep-set per class and slot on all paths; never None; accumulator discipline",
    "not_decided": "the perturb-one-location semantic statement (follows from these and C04 by induction, not separately checked)",
    "assumptions": ["expression nodes are built through the library's operators (UnaryOpExpr's operand is a ref)"],
}


def _slots_read(rm: RefModel, cname: str):
    """slot terms (self.F, ∈self.F, ∈self.F.i) that cname._get_value evaluates through _mk_value"""
    sx = rm.sx(cname, "_get_value")
    out = set()
    if sx is None:
        return out
    terms = []
    for ev in sx.events:
        if ev.kind == "call":
            terms.append(ev.term)
        elif ev.kind == "return" and ev.value is not None:
            terms.append(ev.value)
    for t in terms:
        for s in S.subterms(t):
            inner = unmk(s)
            if inner is not None:
                for a in S.alts(inner):
                    out.add(a)
    return out


def _field_of_slot(t):
    while t[:1] in (("elem",), ("item",)):
        t = t[1]
    return t[2] if S.is_attr(t, S.SELF) else None


def _expand_slot(t):
    """∈(a, b) ranges over a and b"""
    if t[:1] == ("elem",) and t[1][:1] in (("tuple",), ("list",)):
        return list(t[1][1])
    return [t]


def _traversals(sx: SCtx):
    """[(event, receiver slot term)] for calls X._get_dependencies(...)"""
    out = []
    for ev, m in sx.calls_some(("call", ("attr", S.V("x"), "_get_dependencies"), S.ANY, S.ANY)):
        out.append((ev, m["x"]))
    return out


def _must_traverse(sx: SCtx, slot, trav_nids, guard_slot=None) -> bool:
    """on every normally returning path the slot is traversed, or it is known not to be a reference"""
    cfg = sx.cfg
    g = guard_slot if guard_slot is not None else slot
    notref = sx.branches(("uop", "not", S.fcall("isinstance", g, BASEREF))) + sx.branches(("uop", "not", S.fcall("is_ref", g)))
    loops = [gd for n in trav_nids for gd in cfg.guards(n) if gd.kind == "T" and isinstance(gd.ast, (ast.For, ast.AsyncFor))]
    if slot[:1] in (("elem",), ("item",)) and loops:
        hdr = loops[0].of
        tb = loops[0].id
        fb = [n.id for n in cfg.nodes.values() if n.kind == "F" and n.of == hdr]
        per_iter = not cfg.path_avoiding(tb, hdr, trav_nids + notref)
        no_break = cfg.must_pass(tb, cfg.EXIT, fb)
        reached = cfg.must_pass(cfg.ENTRY, cfg.EXIT, [hdr])
        return per_iter and no_break and reached
    return not cfg.path_avoiding(cfg.ENTRY, cfg.EXIT, trav_nids + notref)


def _readset(col, rule="C05.R1"):
    rm = model(col)
    for c in rm.classes:
        if (rm.abstract(c.name) and c.name != "MutableRef") or c.name in ("Ref", "ObjectAttrRef"):
            continue
        reads = _slots_read(rm, c.name)
        dsx = rm.sx(c.name, "_get_dependencies")
        if dsx is None:
            raise AnalysisError(f"{c.name}: no _get_dependencies resolves")
        k = rm.defining(c.name, "_get_dependencies")
        trav = _traversals(dsx)
        for slot in sorted(reads, key=repr):
            f = _field_of_slot(slot)
            if f is None:
                continue
            hits = []
            for ev, x in trav:
                for a in S.alts(x):
                    if slot in _expand_slot(a) or a == slot:
                        hits.append((ev, a))
            ok = bool(hits) and _must_traverse(dsx, slot, [ev.nid for ev, _ in hits], guard_slot=hits[0][1] if hits else None)
            col.add(rule, f"{c.name}#reads:{f}", ok, dsx.loc(hits[0][0]) if hits else dsx.loc(dsx.fn),
                    f"the slot `{S.show(slot)}` that {c.name}._get_value evaluates is traversed by the _get_dependencies that applies "
                    f"({k.name}._get_dependencies) on every path on which it is a reference",
                    "traversed: " + str(sorted({S.show(x) for _, x in trav})) + ("" if hits else " -- not this slot")
                    + ("" if ok or not hits else " -- but a path reaches the exit without traversing it although it may be a reference"))
    # every traversal of a possibly-literal slot is guarded by isinstance(x, BaseRef) and nothing narrower
    seen = set()
    for c in rm.classes:
        k = rm.defining(c.name, "_get_dependencies")
        if k is None or k.name in seen:
            continue
        seen.add(k.name)
        dsx = rm.sx(k.name, "_get_dependencies")
        for ev, x in _traversals(dsx):
            conds = dsx.conds(ev.nid)
            refc = [cd for cd in conds if is_ref_test(cd, x)]
            other = [cd for cd in conds if cd not in refc and not _is_none_test(cd, dsx)]
            key = f"{k.name}._get_dependencies#traverse:{S.show(x, False)}"
            if k.name == "UnaryOpExpr" and not conds:
                col.ok(rule, key, dsx.loc(ev), "unary nodes are only built over refs (documented), the operand is traversed unconditionally", "")
                continue
            col.add(rule, key, bool(refc) and not other, dsx.loc(ev),
                    f"`{S.show(x)}` is traversed exactly when it is a BaseRef (any ref kind: item, attribute, expression, call)",
                    f"conditions: {[S.show(cd) for cd in conds]}")


def _is_none_test(c, sx: SCtx) -> bool:
    """a condition about the accumulator parameter being (not) None"""
    ps = [t for t in sx.sym.params.values() if t[:1] == ("param",)]
    return any(c in (("cmp", "is", p, ("const", "None")), ("cmp", "is not", p, ("const", "None"))) for p in ps)


def _impls(rm: RefModel):
    out = {}
    for c in rm.classes:
        if "_get_dependencies" in c.methods:
            out[c.name] = rm.sx(c.name, "_get_dependencies")
    if len(out) < 7:
        raise AnalysisError("fewer than 7 _get_dependencies implementations")
    return out


def _is_fresh(t) -> bool:
    return (t[:1] == ("acc",) and t[1] == "set") or S.is_call_of(t, ("glob", "set")) or t[:1] == ("set",)


def _never_none(col, rule="C05.R2"):
    """path-sensitive: called with out=None every implementer returns a set"""
    rm = model(col)
    impls = _impls(rm)
    results = {}
    deleg = {}
    for name, sx in impls.items():
        fn = rm.cls(name).methods["_get_dependencies"]
        ps = [t for t in sx.sym.params.values() if t[:1] == ("param",)]
        if len(ps) != 1 or not A.is_none(A.param_defaults(fn).get(ps[0][2])):
            results[name] = (False, "signature is not (self, out=None)")
            continue
        out = ps[0]
        cfg = sx.cfg
        rets = sx.of_kind("return")
        if not rets or cfg.path_avoiding(cfg.ENTRY, cfg.EXIT, [r.nid for r in rets]):
            results[name] = (False, "a path falls off the end (returns None)")
            continue
        ok, why = True, ""
        rebinds = [nid for nid in cfg.nodes for d in sx.cx.rd.defs.get(nid, []) if d.name == out[2] and d.kind in ("assign", "aug")]
        known = sx.branches(("cmp", "is not", out, ("const", "None"))) + sx.branches(out)
        for r in rets:
            if r.node.value is None:
                ok, why = False, "bare return"
                continue
            for a in S.instances(r.value):
                if a == out:
                    # the parameter itself: only on paths where it is known not to be None
                    rv = r.node.value
                    if isinstance(rv, ast.Name) and rv.id != out[2]:
                        # returned through a copy `acc = out`: the copy reaches the return only where it was not replaced (`if acc is None:
                        # acc = set()`) -- those paths must have seen that it is not None
                        ds = [d for d in sx.cx.rd.reaching(r.nid, rv.id) if d.kind == "assign"]
                        bad = False
                        for d in ds:
                            if sx.sym.of(d.value, d.nid) != out:
                                continue
                            others = [o.nid for nid_ in cfg.nodes for o in sx.cx.rd.defs.get(nid_, []) if o.name == rv.id and o.kind in ("assign", "aug") and o.nid != d.nid]
                            if cfg.path_avoiding(d.nid, r.nid, others + known):
                                bad = True
                        if bad:
                            ok, why = False, f"returns the parameter `{out[2]}` unrepaired (None when called without accumulator)"
                    elif cfg.path_avoiding(cfg.ENTRY, r.nid, rebinds + known):
                        ok, why = False, f"returns the parameter `{out[2]}` unrepaired (None when called without accumulator)"
                elif _is_fresh(a):
                    continue
                elif a[:1] == ("bool",) and a[1] == "or" and _is_fresh(a[2][-1]):
                    continue
                elif S.is_call_of(a, meth="_get_dependencies"):
                    deleg[name] = True
                elif a == ("const", "None"):
                    ok, why = False, "returns None"
                else:
                    ok, why = False, f"returns {S.show(a)}"
        results[name] = (ok, why)
    all_ok = all(ok for ok, _ in results.values())
    for n, (ok, why) in sorted(results.items()):
        sx = impls[n]
        if ok and deleg.get(n) and not all_ok:
            ok, why = False, "delegates to an implementer that may return None: " + ", ".join(k for k, (o, _) in results.items() if not o)
        col.add(rule, f"{n}._get_dependencies#returns-a-set", ok, sx.loc(sx.fn),
                "called without accumulator, _get_dependencies returns a set (possibly empty), never None", why)


def _accumulator(col, rule="C05.R3"):
    """an implementer that adds anything must add into the *given* accumulator, also when it is empty"""
    rm = model(col)
    for name, sx in _impls(rm).items():
        ps = [t for t in sx.sym.params.values() if t[:1] == ("param",)]
        if len(ps) != 1:
            continue
        out = ps[0]
        q = f"{name}._get_dependencies"
        trav = [(ev, ev.term) for ev, x in _traversals(sx)]
        adds = [ev for ev, m in sx.calls_some(("call", ("attr", S.V("o"), S.V("m", lambda t: t in ("add", "update"))), S.ANY, S.ANY))]
        if not trav and not adds:
            col.ok(rule, f"{q}#adds-nothing", sx.loc(sx.fn), "adds nothing, the accumulator identity is irrelevant", "")
            continue
        bad = []
        cfg = sx.cfg
        for nid in cfg.nodes:
            for d in sx.cx.rd.defs.get(nid, []):
                if d.name == out[2] and d.kind == "assign":
                    # what the name could hold just before this assignment: handing one of those back (through a helper's result,
                    # say) replaces nothing
                    held = set(S.instances(sx.sym.of(ast.Name(id=out[2], ctx=ast.Load()), nid)))
                    for v, cs in sx.guarded_values(d.value, nid):
                        for a in S.instances(v):
                            if a == out or a in held:
                                continue
                            if _is_fresh(a) and any(c[:2] == ("cmp", "is") and c[3] == ("const", "None") and out in S.alts(c[2]) for c in cs):
                                continue
                            bad.append(f"{A.src(d.stmt)}: {S.show(a)} under {[S.show(c) for c in cs]}")
        col.add(rule, f"{q}#adds-into-given-accumulator", not bad, sx.loc(sx.fn),
                "the accumulator passed by the parent node is replaced only when it is None -- never when it is merely empty "
                "(parents ignore the return value, so a fresh set would lose the dependencies)", f"rebinding: {bad}")
        fw = []
        for ev, t in trav:
            for a in S.alts(t):
                args = list(a[2]) + [v for _, v in a[3]]
                if not (len(args) == 1 and all(x == out or _is_fresh(x) for x in S.alts(args[0])) and out in S.alts(args[0])):
                    fw.append(S.show(a))
        col.add(rule, f"{q}#forwards-accumulator", not fw, sx.loc(sx.fn), "every nested traversal receives the same accumulator", str(fw))


def _structure(col, rule="C05.R4"):
    repo = col.repo
    rm = model(col)
    sx = rm.sx("MutableRef", "_get_dependencies")
    out = [t for t in sx.sym.params.values() if t[:1] == ("param",)][0]
    adds_self = [ev for ev, m in sx.calls_some(("call", ("attr", S.V("o"), "add"), (S.SELF,), ()))
                 if all(x == out or _is_fresh(x) for x in S.alts(m["o"]))]
    ok = bool(adds_self) and sx.cfg.must_pass(sx.cfg.ENTRY, sx.cfg.EXIT, [e.nid for e in adds_self])
    col.add(rule, "MutableRef._get_dependencies#adds-itself", ok, sx.loc(sx.fn), "an item/attribute location reports itself, on every path", "")
    slots = set()
    for ev, x in _traversals(sx):
        for a in S.alts(x):
            for e in _expand_slot(a):
                f = _field_of_slot(e)
                if f:
                    slots.add(f)
    col.add(rule, "MutableRef._get_dependencies#owner-and-key", {"_owner", "_key"} <= slots, sx.loc(sx.fn),
            "an item/attribute location reports the dependencies of its owner and of a computed key", str(sorted(slots)))
    for s_ in ("_owner", "_key"):
        hits = [ev.nid for ev, x in _traversals(sx) for a in S.alts(x) if S.sattr(s_) in _expand_slot(a)]
        gslot = [a for ev, x in _traversals(sx) for a in S.alts(x) if S.sattr(s_) in _expand_slot(a)]
        col.add(rule, f"MutableRef._get_dependencies#traverses:{s_}-on-every-path", bool(hits) and _must_traverse(sx, gslot[0] if gslot else S.sattr(s_), hits), sx.loc(sx.fn),
                f"`{s_}` is traversed whenever it is a reference of any kind (expression keys and owners included)", "")
    for cls in ("AttrRef", "ItemRef"):
        c = repo.cls(cls)
        col.add(rule, f"{cls}#inherits-MutableRef-dependencies", "_get_dependencies" not in c.methods and rm.defining(cls, "_get_dependencies").name == "MutableRef",
                c.module.loc(c.node), f"{cls} uses MutableRef._get_dependencies", "")
    sx = rm.sx("Ref", "_get_dependencies")
    adds = sx.calls_some(("call", ("attr", S.ANY, S.V("m", lambda t: t in ("add", "update"))), S.ANY, S.ANY))
    col.add(rule, "Ref._get_dependencies#adds-nothing", not adds and not _traversals(sx), sx.loc(sx.fn), "a container label is not a dependency", "")
    sx = sctx(repo, "ExprTask", "__init__")
    expr = sx.P(1)
    st = [e for e in sx.of_kind("store") if e.target == S.sattr("dependencies")]
    ok = len(st) == 1 and st[0].value == S.mcall(expr, "_get_dependencies")
    col.add(rule, "ExprTask.__init__#dependencies-from-expression", ok, sx.loc(sx.fn),
            "an expression task's dependencies are expr._get_dependencies()", S.show(st[0].value) if st else "")


def check(col: Collector):
    with col.rule():
        _readset(col)
    with col.rule():
        _never_none(col)
    with col.rule():
        _accumulator(col)
    with col.rule():
        _structure(col)
    # round 7: the dependency set of a task is fixed when it is built: replacing the expression of a live task in place leaves the old set
    from . import c01
    from .common import shared, construct_tag
    with col.rule():
        shared(col, "C05.R5", [c01._set_value_protocol], select=lambda o: construct_tag(o) in ("unregister-existing-definition", "every-path-replaces-the-definition"),
               why="a definition replaced by swapping task.expr keeps the dependency set of the old expression: locations read only by the "
                   "new one are not reported")
