"""Effects of a Manager method on the definition table and the four reverse indices, as symbolic terms.

An effect is (index, key, value, op, space, conds):
  op     '+'  one reference-counted addition (RefCount.append / each element of .extend)
         '-'  one reference-counted removal (RefCount.remove)
         'set' / 'delkey'   whole entry written / deleted;  'pop'  inner key deleted whatever its count
         'rebind' the index attribute itself is rebound; 'clear', '?' anything else that mutates
  space  the iterables ranged over when the effect executes (enclosing loops + the argument of a bulk add): the
         multiplicity of the effect.  Two effects with the same key/value terms and the same space are applied
         equally often, however the loops are written.
  conds  normalised conditions under which it executes, without the frozen-tree guard; `member` says that the only
         remaining condition is a membership test of the removed value in the very container it is removed from.
Terms are those of xsa.sym after the substitution given by the caller (TASK / TASKID).
"""
from __future__ import annotations

from dataclasses import dataclass
from typing import Dict, List, Optional, Tuple

from .. import sym as S
from .common import DEF_ATTRS, SCtx

TASK = ("glob", "TASK")
TASKID = ("glob", "TASKID")
DEPS = ("attr", TASK, "dependencies")
TGTS = ("attr", TASK, "targets")

ONE_ADD = {"append", "add"}
BULK_ADD = {"extend", "update"}
REMOVE = {"remove"}
OTHER_MUT = {"discard", "pop", "clear", "insert", "popitem", "setdefault", "sort", "reverse", "__setitem__", "__delitem__",
             "difference_update", "intersection_update"}


@dataclass(frozen=True)
class IFx:
    index: str
    key: Optional[tuple]
    val: Optional[tuple]
    op: str
    space: frozenset
    conds: tuple
    member: bool
    nid: int

    def sig(self):
        return (self.index, self.key, self.val, self.op, self.space)

    def short(self) -> str:
        sym = {"+": "⊕", "-": "⊖", "set": ":=", "delkey": "del", "pop": "pop", "rebind": "rebound", "clear": "clear"}.get(self.op, self.op)
        k = "" if self.key is None else f"[{S.show(self.key, False)}]"
        if self.op in ("delkey", "rebind", "clear"):
            return f"{sym} {self.index}{k}"
        return f"{self.index}{k} {sym} {S.show(self.val, False) if self.val is not None else ''}"


def _indices_of(base) -> List[str]:
    """index names denoted by a term: self.<ix>, or an element of a literal tuple/list of them"""
    if S.is_attr(base, S.SELF) and base[2] in DEF_ATTRS:
        return [base[2]]
    if base[:1] == ("elem",) and base[1][:1] in (("tuple",), ("list",)):
        out = []
        for x in base[1][1]:
            if S.is_attr(x, S.SELF) and x[2] in DEF_ATTRS:
                out.append(x[2])
            else:
                return []
        return out
    if base[:1] == ("alt",) and base[1] and all(S.is_attr(x, S.SELF) and x[2] in DEF_ATTRS for x in base[1]):
        return [x[2] for x in base[1]]       # one of several indices (an element of a table of them, however the table was written)
    return []


def index_effects(sx: SCtx, mapping: Optional[Dict[tuple, tuple]] = None, frozen_attr: str = "_tree_frozen") -> Tuple[List[IFx], List[str]]:
    mapping = mapping or {}
    out: List[IFx] = []
    unknown: List[str] = []

    def sub(t):
        return S.subst(t, mapping) if t is not None else None

    def mk(ev, ixs, key, val, op, extra_space=()):
        space = set(sub(l) for l in sx.sym.loops(ev.nid))
        for x in extra_space:
            space.add(sub(x))
        conds = []
        member = False
        for c in sx.conds(ev.nid):
            c = sub(c)
            if c == ("uop", "not", S.sattr(frozen_attr)) or c == S.sattr(frozen_attr):
                continue
            conds.append(c)
        for ix in ixs:
            cs = list(conds)
            mem = False
            if op in ("-", "pop", "delkey"):
                cont = ("sub", S.sattr(ix), sub(key)) if (key is not None and op != "delkey") else S.sattr(ix)
                what = sub(val) if op != "delkey" else sub(key)
                rest = [c for c in cs if not (c == ("cmp", "in", what, cont))]
                mem = len(rest) < len(cs)
                cs = rest
            out.append(IFx(ix, sub(key), sub(val), op, frozenset(space), tuple(cs), mem, ev.nid))

    for ev in sx.events:
        if ev.kind == "call":
            for t in S.alts(ev.term):
                f = t[1]
                if f[:1] != ("attr",):
                    continue
                recv, meth = f[1], f[2]
                args = t[2]
                if recv[:1] == ("sub",) and _indices_of(recv[1]):
                    ixs, key = _indices_of(recv[1]), recv[2]
                    if meth in ONE_ADD and len(args) == 1:
                        mk(ev, ixs, key, args[0], "+")
                    elif meth in BULK_ADD and len(args) == 1:
                        mk(ev, ixs, key, ("elem", args[0]), "+", extra_space=(args[0],))
                    elif meth in REMOVE and len(args) == 1:
                        mk(ev, ixs, key, args[0], "-")
                    elif meth in ("pop", "discard", "__delitem__") and args:
                        mk(ev, ixs, key, args[0], "pop")
                    elif meth in OTHER_MUT:
                        mk(ev, ixs, key, None, "?")
                        unknown.append(S.show(t, False))
                elif _indices_of(recv):
                    ixs = _indices_of(recv)
                    if meth in ("pop", "__delitem__") and args:
                        mk(ev, ixs, args[0], None, "delkey")
                    elif meth == "clear":
                        mk(ev, ixs, None, None, "clear")
                    elif meth in ("update", "setdefault", "popitem", "__setitem__"):
                        mk(ev, ixs, None, None, "?")
                        unknown.append(S.show(t, False))
        elif ev.kind in ("store", "del"):
            for t in S.alts(ev.target):
                if t[:1] == ("sub",) and _indices_of(t[1]):
                    mk(ev, _indices_of(t[1]), t[2], ev.value if ev.kind == "store" else None, "set" if ev.kind == "store" else "delkey")
                elif t[:1] == ("sub",) and t[1][:1] == ("sub",) and _indices_of(t[1][1]):
                    mk(ev, _indices_of(t[1][1]), t[1][2], t[2], "?" if ev.kind == "store" else "pop")
                    if ev.kind == "store":
                        unknown.append(S.show(t, False))
                elif _indices_of(t) and t[:1] == ("attr",):
                    mk(ev, _indices_of(t), None, ev.value if ev.kind == "store" else None, "rebind")
    return out, unknown


def register_effects(col):
    from .common import sctx
    from ..core import AnalysisError
    sx = sctx(col.repo, "Manager", "register", public=True, keep={"register", "unregister", "cleanup"})
    if len([p for p in sx.sym.params.values() if p[:1] == ("param",)]) != 1:
        raise AnalysisError("Manager.register: expected (self, task)")
    task = sx.P(0)
    mapping = {task: TASK, ("attr", task, "taskid"): TASKID, ("attr", TASK, "taskid"): TASKID}
    fx, unk = index_effects(sx, mapping)
    return sx, fx, unk


def unregister_effects(col):
    from .common import sctx
    from ..core import AnalysisError
    sx = sctx(col.repo, "Manager", "unregister", public=True, keep={"register", "unregister", "cleanup"})
    if len([p for p in sx.sym.params.values() if p[:1] == ("param",)]) != 1:
        raise AnalysisError("Manager.unregister: expected (self, taskid)")
    tid = sx.P(0)
    mapping = {("sub", S.sattr("tasks"), tid): TASK, tid: TASKID, ("sub", S.sattr("tasks"), TASKID): TASK,
               ("attr", TASK, "taskid"): TASKID,
               S.mcall(S.sattr("tasks"), "get", tid): TASK, S.mcall(S.sattr("tasks"), "get", TASKID): TASK}
    fx, unk = index_effects(sx, mapping)
    return sx, fx, unk
