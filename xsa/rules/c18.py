"""C18 -- a failure in the middle of an update is reported and fully recoverable."""
from __future__ import annotations

import ast

from .. import astutil as A
from ..core import AnalysisError, Collector
from .. import sym as S
from .common import DEF_ATTRS, FnCtx, fnctx, sctx, is_method_call, is_self_call, self_attr_stores
from . import c01, c17
from .indexfx import index_effects

PROP = "C18"
FLOORS = {"C18.R1": 20, "C18.R2": 4, "C18.R3": 5, "C18.R4": 2, "C18.R5": 8}
META = {
    "explanation": "No function on the update path (set_value, run_tasks, find_tasks, find_taskids, toposort and its worker, the run "
                   "methods of the task classes, every _set_value/_get_value/_mk_value of the reference classes) contains a handler that "
                   "can swallow an exception (the three documented ZeroDivisionError->NaN guards are the only handlers allowed, and they "
                   "must catch exactly that); running tasks changes no manager state (definitions, indices, flags); set_value has no early "
                   "exit or memoisation between the write and the propagation, so repeating the assignment re-runs everything; a task that "
                   "carries state across runs must not perform several fallible writes before committing it. A context manager of the package entered on the update path returns None/False from __exit__; the documented zero-division guard covers the division only (operands evaluated before the try).",
    "decides": "exception transparency of the update path, absence of manager-state effects while running, retry re-runs everything",
    "not_decided": "the container state after every crash point of every graph",
    "assumptions": ["user containers / actions may raise anywhere; they do not catch-and-hide on behalf of the library"],
}

ZERO_DIV_CLASSES = ("TruedivExpr", "FloordivExpr", "ModExpr")


def handler_reraises(cx: FnCtx, h: ast.ExceptHandler) -> bool:
    """no path from the handler entry reaches the normal exit or falls out of the handler"""
    hn = cx.cfg.node_of(h)
    if hn is None:
        return False
    reach = cx.cfg.reachable(hn)
    if cx.cfg.EXIT in reach:
        return False
    # falling out of the handler body into following statements also counts as swallowing
    body_nodes = set()
    for st in h.body:
        for n in A.walk(st):
            nid = cx.cfg.node_of(n)
            if nid is not None:
                body_nodes.add(nid)
    outside = [r for r in reach if r not in body_nodes and cx.cfg.nodes[r].kind in ("stmt", "test", "for", "with")
               and not any(r == x for x in body_nodes)]
    # nodes reached that are not part of the handler body (ignoring T/F pseudo nodes and RAISE)
    return not outside


def _update_path_functions(col):
    repo = col.repo
    out = []
    for name in ("set_value", "run_tasks", "find_tasks", "find_taskids"):
        out.append(fnctx(repo, "Manager", name))
    sm = repo.module("sorting")
    out.append(fnctx(repo, None, "toposort", "sorting"))
    for c in A.calls(sm.functions["toposort"]):
        if isinstance(c.func, ast.Name) and c.func.id in sm.functions:
            out.append(fnctx(repo, None, c.func.id, "sorting"))
    for cls in ("ExprTask", "FunctionTask", "LinearKnob"):
        out.append(fnctx(repo, cls, "run"))
    for c in repo.subclasses("BaseRef", strict=False):
        for meth in ("_get_value", "_set_value", "_mk_value"):
            if meth in c.methods:
                out.append(FnCtx(c.module, c, c.methods[meth]))
    for meth in ("__setitem__", "__setattr__"):
        for cname in ("MutableRef", "ObjectAttrRef"):
            if repo.has_method(cname, meth):
                out.append(fnctx(repo, cname, meth))
    # the assignment entry points of the environment proxy: the whole update runs inside `self._[key] = value`
    for meth in ("__setitem__", "__setattr__"):
        if repo.has_method("DepEnv", meth):
            out.append(fnctx(repo, "DepEnv", meth))
    # private helpers the functions above delegate to (self._helper(...), Class._helper, module-level _helper)
    seen = {id(cx.fn) for cx in out}
    work = list(out)
    while work:
        cx = work.pop()
        for c in A.calls(cx.fn):
            tgt = None
            if isinstance(c.func, ast.Attribute) and isinstance(c.func.value, ast.Name) and c.func.attr.startswith("_") \
                    and not c.func.attr.startswith("__") and cx.cls is not None and c.func.value.id in ("self", "cls", cx.cls.name):
                r = repo.lookup(cx.cls, c.func.attr)
                if r is not None:
                    tgt = FnCtx(r[0].module, r[0], r[1])
            elif isinstance(c.func, ast.Name) and c.func.id.startswith("_") and c.func.id in cx.module.functions:
                tgt = FnCtx(cx.module, None, cx.module.functions[c.func.id])
            if tgt is not None and any(isinstance(x, (ast.Yield, ast.YieldFrom)) for x in A.walk(tgt.fn)):
                tgt = None      # generator / context-manager helper: dissolved into (and judged in) the function that uses it
            if tgt is not None and id(tgt.fn) not in seen:
                seen.add(id(tgt.fn))
                out.append(tgt)
                work.append(tgt)
    return out


FALLIBLE = ("run", "_get_value", "_set_value", "_mk_value", "action")
ADAPTORS = ("map", "filter", "starmap", "itertools.starmap", "filterfalse", "itertools.filterfalse", "accumulate", "itertools.accumulate")


def _runs_user_code(repo, cx: FnCtx, f, depth=2) -> bool:
    """does the callable expression f (transitively, to a small depth) run a task / evaluate / write a reference?"""
    if isinstance(f, ast.Attribute) and f.attr in FALLIBLE:
        return True
    if isinstance(f, ast.Call) and A.call_name(f) and A.call_name(f).split(".")[-1] == "methodcaller" and f.args \
            and isinstance(f.args[0], ast.Constant) and f.args[0].value in FALLIBLE:
        return True
    body = None
    if isinstance(f, ast.Lambda):
        body = f.body
    elif isinstance(f, ast.Attribute) and isinstance(f.value, ast.Name) and cx.cls is not None and f.attr in cx.cls.methods:
        body = cx.cls.methods[f.attr]
    elif isinstance(f, ast.Name) and f.id in cx.module.functions:
        body = cx.module.functions[f.id]
    if body is None:
        return False
    for c in A.calls(body):
        if isinstance(c.func, ast.Attribute) and c.func.attr in FALLIBLE:
            return True
        if depth > 0 and _runs_user_code(repo, cx, c.func, depth - 1):
            return True
    return False


def _normalised(col, cx: FnCtx) -> FnCtx:
    """the function with its private helpers, context managers and generator helpers dissolved (falls back to the function as written)"""
    try:
        if cx.cls is not None:
            return sctx(col.repo, cx.cls.name, cx.fn.name).cx if cx.cls.methods.get(cx.fn.name) is cx.fn else cx
        mod = cx.module.name.split(".", 1)[1]
        return sctx(col.repo, None, cx.fn.name, mod).cx
    except (AnalysisError, NotImplementedError, KeyError):
        return cx


def _no_swallowing(col, rule="C18.R1"):
    raw = _update_path_functions(col)
    fns = [_normalised(col, cx) for cx in raw]
    # a private helper whose every call on the update path was dissolved into its caller is judged there (with the arguments it
    # is given), not once more on its own with opaque parameters
    def _called_names(fn):
        return {c.func.attr if isinstance(c.func, ast.Attribute) else getattr(c.func, "id", None) for c in A.calls(fn)}
    dissolved = set()
    for r_, n_ in zip(raw, fns):
        if n_ is not r_:
            dissolved_here = _called_names(r_.fn) - _called_names(n_.fn)
            dissolved |= {("d", nm) for nm in dissolved_here}
    still_called = set()
    for n_ in fns:
        still_called |= _called_names(n_.fn)
    keep = []
    for r_, n_ in zip(raw, fns):
        nm = r_.fn.name
        private = nm.startswith("_") and not nm.startswith("__") and nm not in ("_get_value", "_set_value", "_mk_value")
        if private and ("d", nm) in dissolved and nm not in still_called and any(isinstance(x, ast.Try) for x in A.walk(r_.fn)):
            col.count("helpers_judged_where_inlined", 1)
            continue
        keep.append(n_)
    fns = keep
    col.count("update_path_functions", len(fns))
    for cx in fns:
        tries = [n for n in A.walk(cx.fn) if isinstance(n, ast.Try)]
        if not tries:
            col.ok(rule, f"{cx.qual}#no-handler", cx.loc(cx.fn), "no exception handler on the update path", "")
            continue
        for t in tries:
            for h in t.handlers:
                types = [A.dotted(e) for e in (h.type.elts if isinstance(h.type, ast.Tuple) else [h.type])] if h.type is not None else ["<bare>"]
                if handler_reraises(cx, h):
                    # ... the exception it caught: a new exception object built in the handler (even of the same type, even chained
                    # `from` the original) is not the one the task raised -- its payload (errno, args, attributes) is gone
                    other = [r for st_ in h.body for r in A.walk(st_) if isinstance(r, ast.Raise) and r.exc is not None
                             and not (isinstance(r.exc, ast.Name) and r.exc.id == h.name)]
                    nested = [r for st_ in h.body for x in A.walk(st_) if isinstance(x, ast.Try) for r in A.walk(x) if isinstance(r, ast.Raise)]
                    other = [r for r in other if r not in nested]
                    col.add(rule, f"{cx.qual}#handler-reraises", not other, cx.module.loc(other[0] if other else h),
                            "the handler re-raises, on every path, the exception it caught", f"except {types}" + (f": {A.src(other[0])[:60]}" if other else ""),
                            positive=bool(other))
                    continue
                allowed = cx.cls is not None and cx.cls.name in ZERO_DIV_CLASSES and cx.fn.name == "_get_value" and types == ["ZeroDivisionError"]
                if allowed:
                    NAN = ("float('nan')", "math.nan", "float(\"nan\")", "np.nan", "numpy.nan")
                    body_ok = len(h.body) == 1 and isinstance(h.body[0], ast.Return) and A.src(h.body[0].value) in NAN
                    if not body_ok and all(isinstance(x, ast.Pass) for x in h.body):
                        # falls out of the handler: everything returned from there on is NaN
                        hn = cx.cfg.node_of(h)
                        after = [cx.cfg.nodes[r].ast for r in (cx.cfg.reachable(hn) if hn is not None else [])
                                 if cx.cfg.nodes[r].kind == "stmt" and isinstance(cx.cfg.nodes[r].ast, ast.Return)]
                        inside = {id(n) for st_ in t.body for n in A.walk(st_)}
                        after = [r for r in after if id(r) not in inside]
                        body_ok = bool(after) and all(r.value is not None and A.src(r.value) in NAN for r in after)
                    # ... and the operands are evaluated before the try: a ZeroDivisionError raised *inside an operand* is a failure of
                    # the task like any other, not this division's
                    def _opcall(c):
                        # operator.truediv(lhs, rhs) on plain names is the division itself, spelled functionally
                        return isinstance(c, ast.Call) and (A.dotted(c.func) or "").startswith("operator.") and not c.keywords \
                            and all(isinstance(a_, ast.Name) for a_ in c.args)
                    opfuncs = {id(c.func) for s in t.body for c in A.walk(s) if _opcall(c)}
                    narrow = all(isinstance(s, (ast.Return, ast.Assign, ast.Expr)) for s in t.body) and len(t.body) == 1 \
                        and not any(isinstance(c, (ast.Call, ast.Attribute, ast.Subscript)) and not _opcall(c) and id(c) not in opfuncs
                                    for s in t.body for c in A.walk(s))
                    col.add(rule, f"{cx.qual}#documented-zero-division-guard", body_ok and narrow, cx.module.loc(h),
                            "the documented division-by-zero deviation: exactly ZeroDivisionError of the single division statement -> NaN",
                            f"try body: {A.src(t.body)[:60]}; handler: {A.src(h.body)[:40]}")
                else:
                    col.fail(rule, f"{cx.qual}#handler-swallows:{','.join(map(str, types))}", cx.module.loc(h),
                             "no handler on the update path catches an exception without re-raising it (a failing task or write "
                             "must reach the caller and stop the run)", f"except {types}: {A.src(h.body)[:60]}")
            if t.finalbody:
                rets = [n for st in t.finalbody for n in A.walk(st) if isinstance(n, (ast.Return, ast.Break, ast.Continue))]
                col.add(rule, f"{cx.qual}#finally-does-not-swallow", not rets, cx.module.loc(t),
                        "a finally block on the update path does not discard the exception (no return/break/continue)", "")
        # contextlib.suppress and friends
    n_ad = 0
    for cx in fns:
        for c in A.calls(cx.fn):
            nm = A.call_name(c)
            if nm in ADAPTORS and c.args:
                n_ad += 1
                bad = _runs_user_code(col.repo, cx, c.args[0])
                col.add(rule, f"{cx.qual}#no-task-under-iterator-adaptor:{nm}", not bad, cx.module.loc(c),
                        "tasks / evaluations / writes are not driven through map/filter/starmap: a StopIteration raised by user code "
                        "inside such an adaptor reads as the end of the iteration -- the update stops silently instead of failing",
                        A.src(c)[:100])
            if nm == "iter" and len(c.args) == 2:
                n_ad += 1
                bad = _runs_user_code(col.repo, cx, c.args[0])
                col.add(rule, f"{cx.qual}#no-task-under-iterator-adaptor:iter", not bad, cx.module.loc(c),
                        "tasks are not driven through iter(callable, sentinel) (StopIteration from user code ends the iteration silently)",
                        A.src(c)[:100])
    col.count("iterator_adaptors_on_update_path", n_ad)
    for cx in fns:
        for n in A.walk(cx.fn):
            if isinstance(n, ast.With):
                for it in n.items:
                    nm = A.call_name(it.context_expr) if isinstance(it.context_expr, ast.Call) else None
                    if nm and nm.split(".")[-1] == "suppress":
                        col.fail(rule, f"{cx.qual}#suppress", cx.module.loc(n), "no exception is suppressed on the update path", A.src(it.context_expr))
                    # a context manager of the package: __exit__ returning something truthy swallows the exception leaving the block
                    cn = nm.split(".")[-1] if nm else None
                    if cn in col.repo.classes:
                        ex = col.repo.lookup(col.repo.classes[cn], "__exit__")
                        if ex is None:
                            continue
                        rets = [r for r in A.walk(ex[1]) if isinstance(r, ast.Return) and r.value is not None
                                and not (isinstance(r.value, ast.Constant) and r.value.value in (None, False))]
                        col.add(rule, f"{cx.qual}#with:{cn}.__exit__-lets-exceptions-through", not rets, ex[0].module.loc(rets[0]) if rets else cx.module.loc(n),
                                "a context manager entered on the update path returns None/False from __exit__ (a truthy result suppresses the "
                                "exception of a failing task)", f"returns {A.src(rets[0].value)[:60]}" if rets else "")


def _no_state_change_while_running(col, rule="C18.R2"):
    repo = col.repo
    ctxs, direct, unguarded, mutating = c17.classify_methods(col)
    for name in ("run_tasks", "find_tasks", "find_taskids"):
        sx = sctx(repo, "Manager", name, public=True, keep=c01.ANCHORS)
        st = [S.show(t) for e in sx.of_kind("store") for t in S.alts(e.target) if S.is_attr(t, S.SELF)]
        fx, unk = index_effects(sx)
        calls_mut = [S.show(ev.term) for ev, m in sx.calls_some(("call", ("attr", S.SELF, S.V("m")), S.ANY, S.ANY)) if m["m"] in mutating]
        col.add(rule, f"Manager.{name}#no-manager-state-effects", not st and not fx and not unk and not calls_mut, sx.loc(sx.fn),
                "running / scheduling tasks changes nothing in the manager: no attribute is written (a raise in the middle would "
                "leave it changed), no definition or index is touched",
                f"self attributes written: {st}; index effects: {[e.short() for e in fx]}; calls: {calls_mut}")
    sub = Collector(repo, "C18", col.tier)
    c01._set_value_protocol(sub, order_rule=rule)
    for o in sub.obs:
        if o.rule == rule:
            o.text = "in set_value every change of the definitions/indices precedes the first write to user data (queries are unaffected by a failing write)"
            col.obs.append(o)
    # task run() methods do not reach into the manager
    for cls in ("ExprTask", "FunctionTask", "LinearKnob"):
        cx = fnctx(repo, cls, "run")
        uses = [n for n in A.walk(cx.fn) if isinstance(n, ast.Attribute) and n.attr in ("_manager",) + DEF_ATTRS]
        col.add(rule, f"{cls}.run#no-manager-access", not uses, cx.loc(cx.fn), "a task's run() does not touch the manager", "")


def _no_early_exit(col, rule="C18.R3"):
    """a fault-free repeat of the assignment re-runs every dependant: nothing is skipped because 'it was done already'"""
    sub = Collector(col.repo, "C18", col.tier)
    c01._set_value_protocol(sub)
    c01._task_bodies(sub)
    for o in sub.obs:
        if o.construct.split("#")[1] in ("write-on-every-path", "propagate-after-write", "trigger-set", "no-exception-handler",
                                         "writes-on-every-run", "evaluate-then-write", "calls-action"):
            o.rule = rule
            col.obs.append(o)


def _retry_idempotence(col, rule="C18.R4"):
    repo = col.repo
    for cls in ("ExprTask", "FunctionTask", "LinearKnob"):
        cx = fnctx(repo, cls, "run")
        cfg = cx.cfg
        stored = {a for a, _ in self_attr_stores(cx.fn)}
        loaded = {n.attr for n in A.walk(cx.fn) if isinstance(n, ast.Attribute) and isinstance(n.ctx, ast.Load)
                  and isinstance(n.value, ast.Name) and n.value.id == "self"}
        state = stored & loaded
        if not state:
            col.ok(rule, f"{cls}.run#stateless", cx.loc(cx.fn),
                   "run() carries no state across runs, so repeating it after a fault is idempotent", "")
            continue
        writes = cx.call_nodes(lambda c: is_method_call(c, "_set_value"))
        in_loop = [w for w in writes if cfg.in_loop(w)]
        commits = [n.id for n in cfg.nodes.values() if n.kind == "stmt" and isinstance(n.ast, (ast.Assign, ast.AugAssign))
                   and any(A.self_attr(t) in state for t in (n.ast.targets if isinstance(n.ast, ast.Assign) else [n.ast.target]))]
        multi = bool(in_loop) or len(writes) > 1
        late = any(cfg.path_avoiding(w, c, []) for w in writes for c in commits)
        col.add(rule, f"{cls}.run#single-fallible-write-before-commit", not (multi and late), cx.loc(writes[0]) if writes else cx.loc(cx.fn),
                "a run() that carries state across runs does not perform several fallible writes before committing that state "
                "(a fault after the first write followed by a repeat applies the first increment twice)",
                f"state attributes {sorted(state)}; container writes in a loop: {bool(in_loop)}; state committed after them: {late}")
        # ... and never the other way round: state committed *before* a write that may fail makes the repeat a no-op (the increment is lost)
        def _commit_targets(st):
            ts = st.targets if isinstance(st, ast.Assign) else [st.target]
            out = []
            for t in ts:
                out += list(t.elts) if isinstance(t, (ast.Tuple, ast.List)) else [t]
            return out
        commits2 = [n.id for n in cfg.nodes.values() if n.kind == "stmt" and isinstance(n.ast, (ast.Assign, ast.AugAssign))
                    and any(A.self_attr(t) in state for t in _commit_targets(n.ast))]
        early = [(c, w) for c in commits2 for w in writes if cfg.path_avoiding(c, w, [])]
        col.add(rule, f"{cls}.run#state-not-committed-before-the-writes", not early, cx.loc(early[0][0]) if early else cx.loc(cx.fn),
                "the state a run() carries over (e.g. the last seen source value) is recorded only after the writes it accounts for succeeded",
                f"state attributes {sorted(state)}; committed at {cx.loc(early[0][0])} before the write at {cx.loc(early[0][1])}" if early else "")


def _target_not_read_by_assignment(col, rule="C18.R6"):
    """`set_value` does not evaluate the location it is about to assign: after a first write that failed the location may not
    exist (a new key), and a read there makes every repeat of the assignment fail before anything is unregistered or written"""
    from . import c01
    sx = sctx(col.repo, "Manager", "set_value", keep=c01.ANCHORS)
    ref = sx.P(0)
    reads = [ev for ev in sx.of_kind("call") if S.is_call_of(ev.term, meth="_get_value") and ev.term[1][1] == ref]
    col.add(rule, "Manager.set_value#target-not-evaluated", not reads, sx.loc(reads[0]) if reads else sx.loc(sx.fn),
            "an assignment never reads the current content of its target (it may not exist yet, e.g. after a failed first write)",
            S.show(reads[0].term) if reads else "", positive=bool(reads))


QUERIES = ("cleanup", "verify", "dump", "find_deps", "find_tasks", "find_taskids", "iter_expr_tasks_owner", "mk_fun", "gen_fun", "clone", "copy")


def _maintenance_removes_no_definition(col, rule="C18.R7"):
    """queries and housekeeping (verify() calls cleanup() and clone()) leave the set of definitions alone: a definition dropped by a
    consistency check between a failed update and its repeat is not there to be repeated"""
    repo = col.repo
    n = 0
    for meth in QUERIES:
        if not repo.has_method("Manager", meth):
            continue
        try:
            sx = sctx(repo, "Manager", meth, public=False, keep={"register", "unregister", "set_value"})
        except (AnalysisError, NotImplementedError):
            continue
        n += 1
        bad = [ev for ev in sx.of_kind("call")
               if S.is_call_of(ev.term) and ev.term[1][:1] == ("attr",) and ev.term[1][1] == S.SELF and ev.term[1][2] in ("unregister", "set_value")
               or (S.is_call_of(ev.term) and ev.term[1][:1] == ("attr",) and ev.term[1][1] == S.SELF and ev.term[1][2] == "register" and meth not in ("refresh",))]
        dels = [ev for ev in sx.of_kind("delete") + sx.of_kind("store") if ev.term is not None and S.sattr("tasks") in set(S.subterms(ev.term))] \
            if hasattr(sx, "of_kind") else []
        col.add(rule, f"Manager.{meth}#changes-no-definition", not bad and not dels, sx.loc((bad or dels)[0]) if (bad or dels) else sx.loc(sx.fn),
                "no definition is registered, removed or assigned by a query / housekeeping method on the manager it is asked about",
                S.show((bad or dels)[0].term)[:80] if (bad or dels) else "", positive=bool(bad or dels))
    if n < 5:
        raise AnalysisError("fewer than 5 query methods of Manager found -- cannot decide")


def check(col: Collector):
    with col.rule():
        _no_swallowing(col)
    with col.rule():
        _no_state_change_while_running(col)
    with col.rule():
        _no_early_exit(col)
    with col.rule():
        _retry_idempotence(col)
    # "none scheduled after it has run": the schedule lists every task once, after its producers
    from .toposort_rules import check_toposort
    with col.rule():
        check_toposort(col, "C18.R5")
    # round 7
    with col.rule():
        _target_not_read_by_assignment(col)
    with col.rule():
        _maintenance_removes_no_definition(col)
    from . import c20
    from .common import shared
    with col.rule():
        shared(col, "C18.R8", [c20._no_exception_dropping_c_functions],
               why="a write compiled to a C function that cannot carry an exception swallows the container's failure: the caller sees success")
