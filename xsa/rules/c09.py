"""C09 -- solve() returns only on a matched point and otherwise restores the knobs."""
from __future__ import annotations

import ast

from .. import astutil as A
from .. import sym as S
from ..core import AnalysisError, Collector
from .common import FnCtx, SCtx, sctx
from .c18 import handler_reraises

PROP = "C09"
FLOORS = {"C09.R1": 3, "C09.R2": 5, "C09.R3": 3, "C09.R4": 5, "C09.R5": 6, "C09.R6": 3, "C09.R7": 2, "C09.R8": 4, "C09.R9": 2}
META = {
    "explanation": "Control skeleton of Optimize.solve on its CFG (helpers inlined): every normally returning path passes, after the "
                   "last call that can move knobs (self.step), a branch on which `not assert_within_tol or within tolerance` is known; "
                   "the enclosing handler catches Exception, reloads iteration 0 under restore_if_fail only -- before anything else "
                   "that can fail -- and re-raises on every path. Typestate of the flag: MeritFunctionForMatch.__call__ assigns "
                   "last_point_within_tol on every normal path, and the solver's eval really calls the merit function on every path "
                   "(the flag always describes the evaluation that just happened); it is True only under a universal test over "
                   "|unweighted residual| < tol or-ed with the inactive mask. reload writes every logged knob unconditionally and "
                   "directly, and restores both kinds of active flags from the same log row. Values are compared as symbolic terms. The masks logged as iteration 0 are those of their own side.",
    "decides": "must-pass-through of the tolerance assertion, handler shape, flag freshness and provenance, reload completeness",
    "not_decided": "'within tolerance' as a numeric fact; bit-exactness of the restore",
    "assumptions": ["user actions signal failure only by returning the string 'failed' or by raising"],
}

OPT_KEEP = {"step", "solve", "reload", "add_point_to_log", "tag", "enable", "disable", "set_knobs_from_x", "log", "_clip_to_limits",
            "_add_starting_point_to_log_and_print", "_print_end", "_knobs_to_x", "_x_to_knobs", "_clip_to_max_steps",
            "_get_x_limits", "get_jacobian", "eval", "run", "clear_log", "run_jacobian", "run_simplex", "run_direct", "run_bfgs", "run_ls_trf",
            "run_ls_dogbox", "run_l_bfgs_b", "set_x", "get_x", "_err", "target_status", "vary_status", "get_merit_function"}
ERR = ("attr", S.SELF, "_err")
FLAG = ("attr", ERR, "last_point_within_tol")
LOG = S.sattr("_log")
# the current knob values: Optimize._extract_knob_values() delegates to the merit function's (inlined: one term)
KNOBS = ("acc", "list", (("one", (), S.mcall(("elem", ("attr", ERR, "vary")), "get_value")),))
KNOBS_ALTS = (KNOBS, S.mcall(ERR, "_extract_knob_values"), S.mcall(S.SELF, "_extract_knob_values"))
QUIET = ("_print", "print")


def octx(repo, cls: str, name: str) -> SCtx:
    return sctx(repo, cls, name, keep=OPT_KEEP)


def _is_quiet(t) -> bool:
    """a call that cannot fail in a way that matters (printing / logging)"""
    f = t[1]
    root = f
    while root[:1] == ("attr",):
        root = root[1]
    if f[:1] == ("glob",) and f[1] in ("type", "isinstance", "str", "repr", "len", "id", "bool", "hasattr", "format"):
        return True     # pure builtins on values at hand
    return root[:1] == ("glob",) and (root[1] in QUIET or root[1] in ("logger", "log", "logging", "_logger"))


def _in_handler_nodes(sx: SCtx):
    cfg = sx.cfg
    hs = [n.id for n in cfg.nodes.values() if n.kind == "except"]
    out = set()
    for h in hs:
        out |= cfg.reachable(h) | {h}
    return hs, out


def _solve(col):
    repo = col.repo
    sx = octx(repo, "Optimize", "solve")
    cfg = sx.cfg
    q = "Optimize.solve"
    steps = [ev.nid for ev, m in sx.calls_some(("call", ("attr", S.SELF, "step"), S.ANY, S.ANY))]
    if not steps:
        raise AnalysisError(f"{q}: no call of self.step -- cannot decide")
    handlers, hnodes = _in_handler_nodes(sx)
    ASSERT = S.sattr("assert_within_tol")
    good = []
    for n in cfg.nodes.values():
        if n.kind in ("T", "F") and n.ast is not None and not isinstance(n.ast, (ast.For, ast.AsyncFor)):
            c = S.norm_cond(n.kind == "T", sx.sym.of(n.ast, n.of))
            parts = set(c[2]) if (c[:1] == ("bool",) and c[1] == "or") else {c}
            if parts and parts <= {("uop", "not", ASSERT), FLAG}:
                good.append(n.id)
    passes = bool(good) and all(cfg.must_pass(s, cfg.EXIT, good) for s in steps)
    after = all(not cfg.path_avoiding(g, s, []) for g in good for s in steps)
    col.add("C09.R1", f"{q}#returns-only-within-tolerance", passes and after, sx.loc(good[0]) if good else sx.loc(sx.fn),
            "every normally returning path of solve passes, after the last step, a branch on which `not assert_within_tol or within "
            "tolerance` holds (the other branch raises)",
            f"{len(good)} such branches; every path step->return passes one: {passes}; no step after them: {after}")
    movers = ("step", "reload", "set_knobs_from_x", "run_jacobian", "_clip_to_limits", "run_simplex", "run_direct")
    later = []
    for g in good:
        reach = cfg.reachable(g)
        for ev, m in sx.calls_some(("call", ("attr", S.SELF, S.V("m", lambda t: t in movers)), S.ANY, S.ANY)):
            if ev.nid in reach and ev.nid not in hnodes:
                later.append(ev.nid)
    col.add("C09.R1", f"{q}#no-knob-change-after-assertion", not later, sx.loc(later[0]) if later else sx.loc(sx.fn),
            "nothing moves the knobs between the tolerance assertion and the normal return", f"{[sx.loc(l) for l in later]}")
    tries = [n for n in A.walk(sx.fn) if isinstance(n, ast.Try)]
    in_try = bool(tries) and all(any(x is cfg.nodes[s].ast for st in tries[0].body for x in A.walk(st)) for s in steps)
    col.add("C09.R1", f"{q}#step-inside-try", in_try, sx.loc(steps[0]), "the stepping happens inside the try block whose handler restores", "")
    if not tries or len(tries[0].handlers) != 1:
        col.fail("C09.R2", f"{q}#handler", sx.loc(sx.fn), "solve has exactly one exception handler around the stepping", "")
        return
    h = tries[0].handlers[0]
    broad = h.type is None or A.dotted(h.type) in ("Exception", "BaseException")
    col.add("C09.R2", f"{q}#handler-catches-Exception", broad, sx.cx.module.loc(h),
            "the handler catches every exception of the stepping (limit violations, user action errors, the tolerance RuntimeError)",
            f"except {A.src(h.type) if h.type else '<bare>'}")
    col.add("C09.R2", f"{q}#handler-reraises", handler_reraises(sx.cx, h), sx.cx.module.loc(h), "the handler re-raises on every path", "")
    RESTORE = S.sattr("restore_if_fail")
    rl = [(ev, m) for ev, m in sx.calls_some(("call", ("attr", S.SELF, "reload"), S.V("a"), S.V("k"))) if ev.nid in hnodes]
    ok, facts = len(rl) == 1, f"{len(rl)} reload calls in the handler"
    if ok:
        ev, m = rl[0]
        it = list(m["a"][:1]) + [v for k_, v in m["k"] if k_ == "iteration"]
        conds = [c for c in sx.conds(ev.nid)]
        ok = it == [("const", "0")] and conds == [RESTORE]
        facts = f"{S.show(ev.term)} under {[S.show(c) for c in conds]}"
        # every handler path with restore_if_fail set passes the reload before it leaves
        for b in sx.branches(RESTORE):
            if b in hnodes and cfg.path_avoiding(b, cfg.RAISE, [ev.nid]):
                ok, facts = False, facts + "; a handler path with restore_if_fail set leaves without reloading"
    col.add("C09.R2", f"{q}#restores-iteration-0", ok, sx.loc(rl[0][0]) if rl else sx.cx.module.loc(h),
            "the handler reloads iteration 0 of the log exactly when restore_if_fail is set", facts)
    # nothing that can fail runs in the handler before the restore
    before = []
    if rl:
        for ev in sx.events:
            if ev.kind == "call" and ev.nid in hnodes and ev.nid != rl[0][0].nid and not _is_quiet(ev.term):
                if any(cfg.path_avoiding(hh, ev.nid, [rl[0][0].nid]) for hh in handlers) and cfg.path_avoiding(ev.nid, rl[0][0].nid, []):
                    before.append(S.show(ev.term)[:60])
    col.add("C09.R2", f"{q}#restore-before-anything-that-can-fail", not before, sx.cx.module.loc(h),
            "in the handler the knobs are restored before any other operation that may itself raise (re-evaluating the model at the "
            "failed point, logging it, ...): a second failure must not prevent the restore", str(before))
    seed = [e for e in sx.of_kind("store") if e.target == ("attr", S.sattr("solver"), "x")]
    want = [S.mcall(ERR, "_knobs_to_x", k) for k in KNOBS_ALTS]
    ok = len(seed) == 1 and all(cfg.dominates(seed[0].nid, s) for s in steps) and seed[0].value in want
    col.add("C09.R2", f"{q}#solver-seeded-from-current-knobs", ok, sx.loc(seed[0]) if seed else sx.loc(sx.fn),
            "the solver starts from the knob values currently in the containers", S.show(seed[0].value) if seed else "")


def _is_boolflag(t) -> bool:
    return all(a in (("const", "True"), ("const", "False")) for a in S.alts(t))


def _flag(col):
    repo = col.repo
    sx = octx(repo, "MeritFunctionForMatch", "__call__")
    cfg = sx.cfg
    R = cfg.refined
    q = "MeritFunctionForMatch.__call__"
    F = S.sattr("last_point_within_tol")
    sets = [e for e in sx.of_kind("store") if e.target == F]
    fresh = bool(sets) and R.must_pass(cfg.ENTRY, cfg.EXIT, [e.nid for e in sets])
    col.add("C09.R3", f"{q}#flag-assigned-on-every-path", fresh, sx.loc(sets[0]) if sets else sx.loc(sx.fn),
            "every normally returning evaluation assigns last_point_within_tol (the flag always describes the evaluation that just happened, "
            "also when an action failed)", f"{len(sets)} assignments")
    others = []
    for m, c, fn in repo.all_functions():
        if c is not None and c.name == "MeritFunctionForMatch" and fn.name == "__call__":
            continue
        if c is not None and c.name == "MeritFunctionForMatch" and fn.name.startswith("_") and not fn.name.startswith("__"):
            continue    # private helpers of the evaluation are inlined above
        for n in A.walk(fn):
            if isinstance(n, (ast.Assign, ast.AugAssign)):
                for t in (n.targets if isinstance(n, ast.Assign) else [n.target]):
                    if isinstance(t, ast.Attribute) and t.attr == "last_point_within_tol":
                        others.append(f"{m.loc(n)} {(c.name + '.') if c else ''}{fn.name}")
    col.add("C09.R3", "package#flag-written-only-by-the-evaluation", not others, "xdeps/optimize/", "no other function writes the flag", str(others))
    # the solver's evaluation really evaluates: the flag is refreshed by every eval
    ex = octx(repo, "JacobianSolver", "eval")
    xp = ex.P(0)
    calls = [ev.nid for ev, m in ex.calls_some(("call", ("attr", S.SELF, "func"), (xp,), ()))]
    rets = ex.of_kind("return")
    really = bool(calls) and ex.cfg.must_pass(ex.cfg.ENTRY, ex.cfg.EXIT, calls)
    fresh_ret = bool(rets) and all(S.match(a, ("tuple", (S.mcall(S.SELF, "func", xp), S.ANY))) is not None for r in rets for a in S.alts(r.value))
    col.add("C09.R3", "JacobianSolver.eval#calls-the-merit-function-on-every-path", really and fresh_ret, ex.loc(ex.fn),
            "every evaluation by the solver calls the merit function (which refreshes the within-tolerance flags and runs the model) "
            "and returns that very result: nothing is answered from a remembered evaluation",
            f"calls of self.func(x) on every path: {really}; returned residuals are that call's: {fresh_ret}")
    trues = [e for e in sets if e.value == ("const", "True")]
    falses = [e for e in sets if e.value == ("const", "False")]
    weird = [e for e in sets if e not in trues and e not in falses]
    col.add("C09.R4", f"{q}#flag-values", bool(trues) and bool(falses) and not weird, sx.loc(sx.fn), "the flag is set to the constants True / False", "")
    mask = S.sattr("mask_output")
    for e in trues:
        conds = sx.conds(e.nid)
        uni = [c for c in conds if S.is_call_of(c) and c[1] in (("attr", ("glob", "np"), "all"), ("glob", "all"), ("attr", ("glob", "numpy"), "all"))]
        ok, within = len(uni) == 1, None
        if ok:
            arg = uni[0][2][0] if uni[0][2] else None
            ok = arg is not None and arg[:1] == ("op",) and arg[1] == "|"
            if ok:
                sides = [arg[2], arg[3]]
                inactive = [x for x in sides if x == ("uop", "~", mask)]
                rest = [x for x in sides if x not in inactive]
                ok = len(inactive) == 1 and len(rest) == 1
                within = rest[0] if ok else None
        col.add("C09.R4", f"{q}#true-only-under-universal-test", ok, sx.loc(e),
                "the flag becomes True only under np.all(within-tolerance | inactive-target)", f"conditions: {[S.show(c)[:70] for c in conds]}")
        def _failure_sentinel_test(c):
            # `res is not None` where res is what running the actions returned, or None for "an action failed" (instead of a flag)
            return c[:1] == ("cmp",) and c[1] in ("is", "is not") and c[3] == ("const", "None") and \
                any(S.is_call_of(x, meth="run") for x in S.subterms(c[2])) and ("const", "None") in S.alts(c[2])
        other = [c for c in conds if c not in uni and not (c[:1] == ("uop",) and c[1] == "not" and _is_boolflag(c[2])) and not _is_boolflag(c)
                 and not _failure_sentinel_test(c)]
        col.add("C09.R4", f"{q}#no-extra-condition-for-true", not other, sx.loc(e),
                "no other condition stands between a matched evaluation and the flag", f"{[S.show(c)[:70] for c in other]}")
        if within is not None:
            okw = within[:1] == ("cmp",) and within[1] in ("<", "<=") and S.is_call_of(within[2]) and \
                within[2][1] in (("attr", ("glob", "np"), "abs"), ("glob", "abs"), ("attr", ("glob", "numpy"), "abs"))
            col.add("C09.R4", f"{q}#within-tolerance-comparison", okw, sx.loc(e), "within tolerance means |residual| < tol", S.show(within)[:100])
            if okw:
                res = within[2][2][0]
                okr = all(a[:1] == ("op",) and a[1] == "-" for a in S.alts(res)) and \
                    not S.contains(res, lambda t: t[:1] == ("attr",) and t[2] == "weight") and \
                    S.contains(res, lambda t: t[:1] == ("attr",) and t[2] == "value")
                col.add("C09.R4", f"{q}#tolerance-test-on-unweighted-residual", okr, sx.loc(e),
                        "the residual compared with the tolerances is (transformed result - target value), not rescaled (weights, zeroing) "
                        "before the comparison", S.show(res)[:120])
    tol_stores = [e for e in sx.of_kind("store") if e.value is not None and e.value[:1] == ("attr",) and e.value[2] == "tol"
                  and e.value[1] == ("elem", S.sattr("targets"))]
    col.add("C09.R4", f"{q}#tolerances-from-targets", bool(tol_stores), sx.loc(tol_stores[0]) if tol_stores else sx.loc(sx.fn),
            "the tolerances compared are the targets' own `tol`", "")
    def _failed_test(c):
        return _is_boolflag(c) or (c[:1] == ("cmp",) and c[1] == "is" and c[3] == ("const", "None") and ("const", "None") in S.alts(c[2])
                                   and any(S.is_call_of(x, meth="run") for x in S.subterms(c[2])))
    col.add("C09.R4", f"{q}#false-on-failed-action", any(any(_failed_test(c) for c in sx.conds(e.nid)) for e in falses), sx.loc(sx.fn),
            "an evaluation whose action failed is not within tolerance", "")


def check_reload(col, rule="C09.R5"):
    repo = col.repo
    sx = octx(repo, "Optimize", "reload")
    cfg = sx.cfg
    q = "Optimize.reload"
    it = sx.pnamed("iteration")
    V = ("elem", S.sattr("vary"))
    T = ("elem", S.sattr("targets"))

    def row(key):
        return ("sub", ("sub", LOG, ("const", repr(key))), S.V("it"))

    def it_ok(t):
        return it in S.alts(t)
    knob_target = ("sub", ("attr", V, "container"), ("attr", V, "name"))
    stores = [e for e in sx.of_kind("store") if e.target == knob_target]
    ok, facts = bool(stores), f"{len(stores)} direct knob stores"
    if not stores:
        via = [S.show(ev.term)[:80] for ev, m in sx.calls_some(("call", ("attr", S.SELF, S.V("m", lambda t: t in ("set_knobs_from_x", "_set_knobs"))), S.ANY, S.ANY))]
        via += [S.show(ev.term)[:80] for ev, m in sx.calls_some(("call", ("attr", ERR, S.V("m")), S.ANY, S.ANY)) if "knob" in m["m"] or m["m"] == "__call__"]
        if not via:
            raise AnalysisError(f"{q}: no store of a knob value found -- cannot decide")
        facts = f"the knobs are written through {via} (which writes active knobs only), not directly"
    for e in stores:
        m = S.match(e.value, ("elem", row("knobs")))
        if m is None or not it_ok(m["it"]):
            ok, facts = False, f"value {S.show(e.value)[:100]}"
        elif sx.conds(e.nid):
            ok, facts = False, f"only under {[S.show(c) for c in sx.conds(e.nid)]}"
        elif S.sattr("vary") not in sx.sym.loops(e.nid) and not any(S.is_call_of(l, ("glob", "zip")) and S.sattr("vary") in l[2] for l in sx.sym.loops(e.nid)):
            ok, facts = False, "not in a loop over self.vary"
    col.add(rule, f"{q}#every-knob-written-unconditionally", ok, sx.loc(stores[0]) if stores else sx.loc(sx.fn),
            "reload writes the logged value of every knob -- active or not -- straight into its container", facts)
    for what, key, E in (("vary", "vary_active", V), ("target", "target_active", T)):
        sets = [e for e in sx.of_kind("store") if e.target == ("attr", E, "active")]
        okf = bool(sets)
        for e in sets:
            src = [s_ for s_ in S.subterms(e.value) if S.match(s_, row(key)) is not None and it_ok(S.match(s_, row(key))["it"])]
            if not src or sx.conds(e.nid):
                okf = False
        col.add(rule, f"{q}#{what}-flags-from-same-row", okf, sx.loc(sets[0]) if sets else sx.loc(sx.fn),
                f"the {what} active flags are restored, for every {what}, from the same log row", "")
    movers_ = ("step", "solve", "set_knobs_from_x", "run_jacobian", "_clip_to_limits", "run_simplex", "run_direct", "run_bfgs", "run_ls_trf",
               "run_ls_dogbox", "run_l_bfgs_b")
    after = [ev_.nid for ev_, m_ in sx.calls_some(("call", ("attr", S.SELF, S.V("m", lambda t: t in movers_)), S.ANY, S.ANY))
             if not stores or any(cfg.path_avoiding(e.nid, ev_.nid, []) for e in stores)]
    col.add(rule, f"{q}#nothing-moves-the-knobs-after-the-restore", not after, sx.loc(after[0]) if after else sx.loc(sx.fn),
            "what reload() leaves in the containers are the logged values: nothing clips, steps or resets the knobs after they were written",
            f"{[sx.loc(a) for a in after]}" if after else "")
    col.add(rule, f"{q}#logs-the-restored-point", bool(sx.calls_some(("call", ("attr", S.SELF, "add_point_to_log"), S.ANY, S.ANY))), sx.loc(sx.fn),
            "after restoring, the point is logged (re-evaluated)", "")
    tag = sx.pnamed("tag") if "tag" in sx.sym.params else None
    # where the log is read at `iteration`: every value it can have there is the argument itself, or was derived under `tag is not None`
    okr, facts_r, n_use = True, [], 0
    given_tag = ("cmp", "is not", tag, ("const", "None")) if tag is not None else None
    for nid, nd in cfg.nodes.items():
        if nd.ast is None or nd.kind not in ("stmt", "test", "for"):
            continue
        for part in cfg.own_exprs(nid):
            if part is None:
                continue
            for x in ast.walk(part):
                if isinstance(x, ast.Subscript) and isinstance(x.slice, ast.Name) and isinstance(x.ctx, ast.Load):
                    base = sx.sym.of(x.value, nid)
                    if not (base[:1] == ("sub",) and base[1] == LOG):
                        continue
                    idx_t = sx.sym.of(x.slice, nid)
                    if it not in S.alts(idx_t) and not any(y == it for y in S.subterms(idx_t)):
                        continue
                    n_use += 1
                    for tv, cs in sx.guarded_values(x.slice, nid):
                        if tv == it:
                            continue
                        if given_tag is None or given_tag not in cs:
                            okr = False
                            facts_r.append(f"{S.show(tv)[:60]} under {[S.show(c) for c in cs][:3]}")
    if n_use == 0:
        raise AnalysisError(f"{q}: no read of a log column at the requested iteration found (cannot decide)")
    col.add(rule, f"{q}#iteration-as-given", okr, sx.loc(sx.fn), "the row reloaded is the one asked for (derived from the tag only when a tag is given)",
            "; ".join(facts_r[:2]))
    rng = False
    for n in cfg.nodes.values():
        if n.kind == "test" and n.from_assert:
            t = sx.sym.of(n.ast, n.id)
            for c in S.conjuncts(S.norm_cond(True, t)):
                if c[:1] == ("cmp",) and c[1] in ("<", "<=") and it_ok(c[2]) and S.is_call_of(c[3], ("glob", "len")):
                    rng = True
    col.add(rule, f"{q}#iteration-in-range", rng, sx.loc(sx.fn), "the iteration is checked against the log length", "")


def _outer_for(fn):
    """the loop over the requested number of steps: the outermost `for` of step()"""
    for st in fn.body:
        if isinstance(st, ast.For):
            return st
    return None


def _no_exit_on_a_perturbed_point(col, rule="C09.R10"):
    """get_jacobian evaluates the merit function at perturbed points, so right after it last_point_within_tol describes x + step of
    some knob: JacobianSolver.step may return normally only after evaluating again (the line search does, before it can leave)"""
    sx = octx(col.repo, "JacobianSolver", "step")
    cfg = sx.cfg
    jac = [ev for ev, m in sx.calls_some(("call", ("attr", S.V("f"), "get_jacobian"), S.V("a"), S.V("k")))]
    evals = [ev.nid for ev, m in sx.calls_some(("call", ("attr", S.SELF, "eval"), S.V("a"), S.V("k")))]
    if not jac or not evals:
        raise AnalysisError("JacobianSolver.step: get_jacobian / self.eval calls not found -- cannot decide")
    # the line search: a loop that evaluates in its body and whose only exit before the first evaluation asks for `alpha > ...` with
    # alpha started at -1
    searches = []
    by_ast = {id(n.ast): n for n in cfg.nodes.values() if n.ast is not None and n.kind in ("stmt", "test", "for", "with")}

    def has_eval(stmts):
        return any(isinstance(c, ast.Call) and isinstance(c.func, ast.Attribute) and c.func.attr == "eval" and isinstance(c.func.value, ast.Name)
                   and c.func.value.id == "self" for b in stmts for c in ast.walk(b))
    for w in ast.walk(sx.fn):
        # the line search: a loop that evaluates in its body (it tries at least the full step: the count of halvings starts below
        # the bound that lets it leave)
        if isinstance(w, ast.While) and w.body and has_eval(w.body):
            first = w.body[0]
            n = by_ast.get(id(w.test)) if not (isinstance(w.test, ast.Constant) and w.test.value is True) else \
                by_ast.get(id(first.test if isinstance(first, (ast.If, ast.While)) else first))
            if n is not None:
                searches.append(n.id)
        elif isinstance(w, ast.For) and has_eval(w.body) and w is not _outer_for(sx.fn):
            n = by_ast.get(id(w))
            if n is not None:
                searches.append(n.id)
    for ev in jac:
        ok = not cfg.path_avoiding(ev.nid, cfg.EXIT, evals + searches, normal_only=True)
        if not ok and not searches:
            raise AnalysisError("JacobianSolver.step: the line search after the Jacobian is not recognised -- cannot decide")
        col.add(rule, "JacobianSolver.step#evaluates-again-after-the-jacobian", ok, sx.loc(ev),
                "no normal exit between taking the Jacobian (perturbed evaluations) and the next evaluation of a point the step keeps",
                f"evaluations: {len(evals)}, line-search loops recognised: {len(searches)}")


def _target_values_stay_as_given(col, rule="C09.R11"):
    """a target value given as a reference is followed at every evaluation (MeritFunctionForMatch.__call__ reads `_value` then): the
    constructor replaces a target's value only for the 'preserve' placeholder, never by a snapshot of what a reference holds"""
    sx = octx(col.repo, "Optimize", "__init__")
    n = 0
    for ev in sx.of_kind("store"):
        for t in S.alts(ev.target):
            if t[:1] == ("attr",) and t[2] == "value" and t[1] != S.SELF:
                n += 1
                conds = sx.conds(ev.nid)
                pres = any(c[:2] == ("cmp", "==") and ("const", repr("preserve")) in (c[2], c[3]) and ("attr", t[1], "value") in (c[2], c[3]) for c in conds)
                col.add(rule, "Optimize.__init__#target-value-replaced-only-for-preserve", pres, sx.loc(ev),
                        "the constructor overwrites a target's value only where it is the 'preserve' placeholder",
                        f"{S.show(t)} = {S.show(ev.value)[:50] if ev.value else '?'} under {[S.show(c)[:50] for c in conds]}")
    if n == 0:
        col.ok(rule, "Optimize.__init__#target-value-replaced-only-for-preserve", sx.loc(sx.fn), "no target value is overwritten", "")
    mx = octx(col.repo, "MeritFunctionForMatch", "__call__")
    live = [ev for ev in mx.events if ev.kind in ("call", "store", "return") and any(
        s_[:1] == ("attr",) and s_[2] == "_value" and s_[1][:1] == ("attr",) and s_[1][2] == "value"
        for tm in ([ev.term] if ev.kind == "call" else [ev.value] if ev.value is not None else []) for s_ in S.subterms(tm))]
    if not live:
        raise AnalysisError("MeritFunctionForMatch.__call__: where a reference-valued target value is read is not recognised -- cannot decide")
    col.ok(rule, "MeritFunctionForMatch.__call__#reference-target-values-read-now", mx.loc(live[0]),
           "a reference-valued target is read (`.value._value`) at each evaluation", "")
    # ... and at the point being evaluated: after the knobs were written and the actions ran (a reference-valued target may depend on a knob)
    runs = [ev.nid for ev in mx.of_kind("call") if S.is_call_of(ev.term, meth="run") and not ev.term[2]]
    if not runs:
        raise AnalysisError("MeritFunctionForMatch.__call__: the call that runs the actions is not recognised -- cannot decide")
    # the loop (or comprehension statement) that runs them may have no iteration: what must lie before the read is that loop itself
    heads = [nid for nid, nd in mx.cfg.nodes.items() if nd.kind == "for" and nd.ast is not None
             and any(mx.cfg.node_of(c_) in runs for st_ in getattr(nd.ast, "body", []) for c_ in ast.walk(st_) if mx.cfg.node_of(c_) is not None)]
    early = [ev for ev in live if not mx.cfg.must_pass(mx.cfg.ENTRY, ev.nid, heads or runs)]
    col.add(rule, "MeritFunctionForMatch.__call__#reference-target-values-read-after-the-actions", not early, mx.loc(early[0] if early else live[0]),
            "the values to be matched are read after the knobs were set and the actions ran (they belong to the point being evaluated)",
            "read on a path that has not run the actions yet" if early else "", positive=bool(early))


def check(col: Collector):
    with col.rule():
        _target_values_stay_as_given(col)
    with col.rule():
        _no_exit_on_a_perturbed_point(col)
    with col.rule():
        _solve(col)
    with col.rule():
        _flag(col)
    with col.rule():
        check_reload(col)
    # the knobs left in the containers are the point whose evaluation set the within-tolerance flag
    from . import c15
    from .common import shared, construct_tag
    with col.rule():
        shared(col, "C09.R6", [c15._row_consistency],
               select=lambda o: construct_tag(o) in ("knobs-set-from-solver-x-after-solver-step", "evaluates-current-knobs",
                                                     "evaluate-before-reading-results", "writes-each-active-knob"),
               why="solve() returns on the strength of the flag of the last evaluation; the knobs must be that very point")
    with col.rule():
        shared(col, "C09.R8", [c15._mask_columns], select=lambda o: "add_point_to_log" in o.construct,
               why="the flags restored after a failed solve() are those add_point_to_log wrote as iteration 0")
    from . import c10
    with col.rule():
        shared(col, "C09.R9", [c10._limits], select=lambda o: construct_tag(o) in ("trial-equals-commit", "both-limit-sides"),
               why="the flag solve() trusts belongs to the trial point: it must be the point the knobs are then set to, limits applied")
    with col.rule():
        shared(col, "C09.R7", [c10._masks], select=lambda o: construct_tag(o) == "from-active-flags",
               why="'every active target within tolerance' is judged with mask_output: it must be computed from the current active flags")
