"""C09 -- solve() returns only on a matched point and otherwise restores the knobs."""
from __future__ import annotations

import ast

from .. import astutil as A
from ..core import AnalysisError, Collector
from .common import FnCtx, fnctx, has_guard, is_method_call, is_self_call
from .c18 import handler_reraises

PROP = "C09"
FLOORS = {"C09.R1": 3, "C09.R2": 4, "C09.R3": 2, "C09.R4": 6, "C09.R5": 6}
META = {
    "explanation": "Control skeleton of Optimize.solve: every normally returning path passes, after the last call that can move knobs "
                   "(self.step), the test of the within-tolerance flag whose failing branch raises (guarded by assert_within_tol only); "
                   "the enclosing handler catches Exception, reloads iteration 0 under restore_if_fail only, and re-raises on every path. "
                   "Typestate of the flag: MeritFunctionForMatch.__call__ assigns last_point_within_tol on every normal path (it always "
                   "describes the evaluation that just happened), True only under a universal test over |unweighted residual| < tol "
                   "or-ed with the inactive mask, with the residual = transformed result - target value and no in-place rescaling "
                   "between its definition and the test. reload writes every logged knob unconditionally and restores both kinds of "
                   "active flags from the same log row.",
    "decides": "must-pass-through of the tolerance assertion, handler shape, flag freshness and provenance, reload completeness",
    "not_decided": "'within tolerance' as a numeric fact; bit-exactness of the restore",
    "assumptions": ["user actions signal failure only by returning the string 'failed' or by raising"],
}


def flag_attr(n) -> bool:
    return isinstance(n, ast.Attribute) and n.attr == "last_point_within_tol"


def _solve(col):
    repo = col.repo
    cx = fnctx(repo, "Optimize", "solve")
    cfg = cx.cfg
    q = "Optimize.solve"
    steps = cx.call_nodes(lambda c: is_self_call(c, "step"))
    if not steps:
        col.fail("C09.R1", f"{q}#step", cx.loc(cx.fn), "solve performs its iterations through self.step", "no call")
        return
    # the asserting test: true branch raises
    asserting = []
    for n in cfg.nodes.values():
        if n.kind == "test" and any(flag_attr(x) for x in A.walk(n.ast)):
            tb = [b.id for b in cfg.nodes.values() if b.kind == "T" and b.of == n.id][0]
            reach = cfg.reachable(tb)
            handlers_reach = [r for r in reach if cfg.nodes[r].kind == "except"]
            raises_only = cfg.EXIT not in {r for r in cfg.reachable(tb, avoid=handlers_reach)}
            if raises_only and any(isinstance(cfg.nodes[r].ast, ast.Raise) for r in reach if cfg.nodes[r].kind == "stmt"):
                asserting.append(n)
    ok = len(asserting) == 1
    facts = f"{len(asserting)} tests of the flag whose true branch raises"
    if ok:
        t = asserting[0]
        conj = t.ast.values if isinstance(t.ast, ast.BoolOp) and isinstance(t.ast.op, ast.And) else [t.ast]
        txt = sorted(A.src(c) for c in conj)
        shape = txt == sorted(["self.assert_within_tol", "not self._err.last_point_within_tol"])
        fb = [b.id for b in cfg.nodes.values() if b.kind == "F" and b.of == t.id][0]
        passes = all(cfg.must_pass(s, cfg.EXIT, [fb]) for s in steps)
        after = all(not cfg.path_avoiding(t.id, s, []) for s in steps)
        ok = shape and passes and after
        facts = f"test `{A.src(t.ast)}`; every path step->return passes its false branch: {passes}; no knob-moving step after it: {after}"
    col.add("C09.R1", f"{q}#returns-only-within-tolerance", ok, cx.loc(asserting[0].id) if asserting else cx.loc(cx.fn),
            "every normally returning path of solve passes, after the last step, the test `assert_within_tol and not within tolerance` "
            "on its non-raising branch", facts)
    # nothing that moves knobs between the assertion and the return
    if asserting:
        fb = [b.id for b in cfg.nodes.values() if b.kind == "F" and b.of == asserting[0].id][0]
        later = [r for r in cfg.reachable(fb) if cfg.nodes[r].kind == "stmt" and any(
            is_self_call(c) and c.func.attr in ("step", "reload", "set_knobs_from_x", "run_jacobian", "_clip_to_limits") for c in cx.calls_at(r))
            and not any(cfg.nodes[h].kind == "except" and r in cfg.reachable(h) for h in cfg.nodes)]
        col.add("C09.R1", f"{q}#no-knob-change-after-assertion", not later, cx.loc(later[0]) if later else cx.loc(cx.fn),
                "nothing moves the knobs between the tolerance assertion and the normal return", f"{[cx.loc(l) for l in later]}")
    tries = [n for n in A.walk(cx.fn) if isinstance(n, ast.Try)]
    in_try = bool(tries) and all(any(x is cfg.nodes[s].ast for st in tries[0].body for x in A.walk(st)) for s in steps)
    col.add("C09.R1", f"{q}#step-inside-try", in_try, cx.loc(steps[0]), "the stepping happens inside the try block whose handler restores", "")
    # handler
    if not tries or len(tries[0].handlers) != 1:
        col.fail("C09.R2", f"{q}#handler", cx.loc(cx.fn), "solve has exactly one exception handler around the stepping", "")
        return
    h = tries[0].handlers[0]
    broad = h.type is None or A.dotted(h.type) in ("Exception", "BaseException")
    col.add("C09.R2", f"{q}#handler-catches-Exception", broad, cx.module.loc(h),
            "the handler catches every exception of the stepping (limit violations, user action errors, the tolerance RuntimeError)",
            f"except {A.src(h.type) if h.type else '<bare>'}")
    col.add("C09.R2", f"{q}#handler-reraises", handler_reraises(cx, h), cx.module.loc(h), "the handler re-raises on every path", "")
    rl = [nid for nid in cx.call_nodes(lambda c: is_self_call(c, "reload")) if any(x is cfg.nodes[nid].ast for st in h.body for x in A.walk(st))]
    ok = len(rl) == 1
    facts = ""
    if ok:
        c = cx.calls_at(rl[0], lambda c: is_self_call(c, "reload"))[0]
        it = [k.value for k in c.keywords if k.arg == "iteration"] + c.args[:1]
        ok = len(it) == 1 and A.is_const(it[0], 0)
        gs = [g for g in cfg.guards(rl[0]) if g.kind in ("T", "F") and not isinstance(g.ast, ast.For) and g.of is not None
              and any(x is cfg.nodes[g.of].ast for st in h.body for x in A.walk(st))]
        ok = ok and len(gs) == 1 and gs[0].kind == "T" and A.src(gs[0].ast) == "self.restore_if_fail"
        facts = f"{A.src(c)} under {[A.src(g.ast) for g in gs]}"
        # reload precedes the re-raise on the restoring path
    col.add("C09.R2", f"{q}#restores-iteration-0", ok, cx.loc(rl[0]) if rl else cx.module.loc(h),
            "the handler reloads iteration 0 of the log exactly when restore_if_fail is set", facts)
    # solver.x seeded from current knobs before stepping
    seed = [n.id for n in cfg.nodes.values() if n.kind == "stmt" and isinstance(n.ast, ast.Assign) and A.dotted(n.ast.targets[0]) == "self.solver.x"]
    ok = len(seed) == 1 and all(cfg.dominates(seed[0], s) for s in steps) and "self._extract_knob_values()" in A.src(cfg.nodes[seed[0]].ast)
    col.add("C09.R2", f"{q}#solver-seeded-from-current-knobs", ok, cx.loc(seed[0]) if seed else cx.loc(cx.fn),
            "the solver starts from the knob values currently in the containers", "")


def _flag(col):
    repo = col.repo
    cx = fnctx(repo, "MeritFunctionForMatch", "__call__")
    cfg = cx.cfg
    q = "MeritFunctionForMatch.__call__"
    sets = [n for n in cfg.nodes.values() if n.kind == "stmt" and isinstance(n.ast, ast.Assign) and A.dotted(n.ast.targets[0]) == "self.last_point_within_tol"]
    fresh = bool(sets) and cfg.must_pass(cfg.ENTRY, cfg.EXIT, [s.id for s in sets])
    col.add("C09.R3", f"{q}#flag-assigned-on-every-path", fresh, cx.loc(sets[0].id) if sets else cx.loc(cx.fn),
            "every normally returning evaluation assigns last_point_within_tol (the flag always describes the evaluation that just happened, "
            "also when an action failed)", f"{len(sets)} assignments")
    # who else writes the flag
    others = []
    for m, c, fn in repo.all_functions():
        if fn is cx.fn:
            continue
        for n in A.walk(fn):
            if isinstance(n, (ast.Assign, ast.AugAssign)):
                for t in (n.targets if isinstance(n, ast.Assign) else [n.target]):
                    if flag_attr(t):
                        others.append(f"{m.loc(n)} {(c.name + '.') if c else ''}{fn.name}")
    col.add("C09.R3", "package#flag-written-only-by-the-evaluation", not others, "xdeps/optimize/", "no other function writes the flag", str(others))
    trues = [s for s in sets if A.is_const(s.ast.value, True)]
    falses = [s for s in sets if A.is_const(s.ast.value, False)]
    weird = [s for s in sets if s not in trues and s not in falses]
    col.add("C09.R4", f"{q}#flag-values", bool(trues) and bool(falses) and not weird, cx.loc(cx.fn), "the flag is set to the constants True / False", "")
    for s in trues:
        gs = [g for g in cfg.guards(s.id) if not isinstance(g.ast, ast.For)]
        uni = [g for g in gs if g.kind == "T" and isinstance(g.ast, ast.Call) and A.call_name(g.ast) in ("np.all", "numpy.all", "all")]
        ok = len(uni) == 1
        facts = f"guards: {[g.kind + ':' + A.src(g.ast)[:50] for g in gs]}"
        wt = None
        if ok:
            arg = uni[0].ast.args[0]
            ok = isinstance(arg, ast.BinOp) and isinstance(arg.op, ast.BitOr)
            if ok:
                sides = [arg.left, arg.right]
                inactive = [x for x in sides if A.src(x) in ("~self.mask_output", "(~self.mask_output)")]
                within = [x for x in sides if x not in inactive]
                ok = len(inactive) == 1 and len(within) == 1
                wt = within[0] if ok else None
        col.add("C09.R4", f"{q}#true-only-under-universal-test", ok, cx.loc(s.id),
                "the flag becomes True only under np.all(within-tolerance | inactive-target)", facts)
        other_conds = [g for g in gs if g not in uni and not (g.kind == "F" and A.dotted(g.ast) == "failed") and not (g.kind == "T" and A.src(g.ast) == "not failed")]
        col.add("C09.R4", f"{q}#no-extra-condition-for-true", not other_conds, cx.loc(s.id),
                "no other condition stands between a matched evaluation and the flag", f"{[A.src(g.ast) for g in other_conds]}")
        if wt is not None:
            tn = uni[0].of
            w = cx.resolve(wt, tn)
            p = A.compare_parts(w)
            okw = bool(p) and isinstance(p[1], (ast.Lt, ast.LtE)) and isinstance(p[0], ast.Call) and A.call_name(p[0]) in ("np.abs", "abs", "numpy.abs")
            facts = A.src(w)
            if okw:
                errn = p[0].args[0]
                toln = p[2]
                wdef = [d for d in cx.defs(wt.id, tn) if d.kind == "assign"] if isinstance(wt, ast.Name) else []
                at = wdef[0].nid if wdef else tn
                # residual provenance
                if isinstance(errn, ast.Name):
                    ds = cx.defs(errn.id, at)
                    strong = [d for d in ds if d.kind == "assign"]
                    weak = [d for d in ds if d.kind in ("aug", "store", "mutcall")]
                    okr = len(strong) == 1 and isinstance(strong[0].value, ast.BinOp) and isinstance(strong[0].value.op, ast.Sub) and not weak
                    fr = f"residual `{errn.id}` defined by {[A.src(d.value)[:50] for d in strong]}, modified in place before the test by {[A.src(d.stmt)[:40] for d in weak]}"
                    if okr:
                        lhs = cx.resolve(strong[0].value.left, strong[0].nid)
                        rhs = strong[0].value.right
                        # rhs = target values; lhs = (transformed) results: no weight involved
                        wmention = [n for n in A.walk(strong[0].value) if isinstance(n, ast.Attribute) and n.attr == "weight"]
                        okr = not wmention
                else:
                    okr, fr = False, f"residual expression {A.src(errn)}"
                col.add("C09.R4", f"{q}#tolerance-test-on-unweighted-residual", okr, cx.loc(at),
                        "the residual compared with the tolerances is (transformed result - target value), not rescaled (weights, zeroing) "
                        "between its definition and the comparison", fr)
                if isinstance(toln, ast.Name):
                    ds = cx.defs(toln.id, at)
                    st = [d for d in ds if d.kind == "store"]
                    okt = any("tol" in A.src(d.stmt) and ".tol" in A.src(d.stmt) for d in st) and not [d for d in ds if d.kind == "aug"]
                    col.add("C09.R4", f"{q}#tolerances-from-targets", okt, cx.loc(at), "the tolerances compared are the targets' own `tol`", str(ds)[:120])
            col.add("C09.R4", f"{q}#within-tolerance-comparison", okw, cx.loc(s.id), "within tolerance means |residual| < tol", facts)
    # failed path: residual vector huge, flag False
    for s in falses:
        pass
    col.add("C09.R4", f"{q}#false-on-failed-action", any(has_guard(cfg, s.id, "T", lambda t: A.dotted(t) == "failed") for s in falses), cx.loc(cx.fn),
            "an evaluation whose action failed is not within tolerance", "")


def check_reload(col, rule="C09.R5"):
    repo = col.repo
    cx = fnctx(repo, "Optimize", "reload")
    cfg = cx.cfg
    q = "Optimize.reload"
    it = A.params(cx.fn)[1]
    stores = [n for n in cfg.nodes.values() if n.kind == "stmt" and isinstance(n.ast, ast.Assign) and isinstance(n.ast.targets[0], ast.Subscript)
              and A.src(n.ast.targets[0].value).endswith(".container") and A.src(n.ast.targets[0].slice).endswith(".name")]
    ok = len(stores) == 1
    facts = f"{len(stores)} direct knob stores"
    if ok:
        s = stores[0]
        loops = [g for g in cfg.guards(s.id) if g.kind == "T" and isinstance(g.ast, ast.For)]
        conds = cfg.cond_guards(s.id)
        ok = len(loops) == 1 and not conds and isinstance(loops[0].ast.iter, ast.Call) and A.call_name(loops[0].ast.iter) == "zip" and \
            A.src(loops[0].ast.iter.args[0]) == "self.vary"
        facts = f"loop {A.src(loops[0].ast.iter) if loops else None}; conditions {[A.src(g.ast) for g in conds]}"
        if ok:
            tv = A.target_names(loops[0].ast.target)
            ok = A.dotted(s.ast.value) in tv[1:] and A.src(s.ast.targets[0].value) == f"{tv[0]}.container"
            kv = loops[0].ast.iter.args[1]
            kvr = cx.resolve(kv, loops[0].of)
            ok = ok and A.src(kvr) == f"self._log['knobs'][{it}]"
            facts += f"; values from {A.src(kvr)}"
    col.add(rule, f"{q}#every-knob-written-unconditionally", ok, cx.loc(stores[0].id) if stores else cx.loc(cx.fn),
            "reload writes the logged value of every knob -- active or not -- straight into its container", facts)
    for what, key, attr_owner in (("vary", "vary_active", "self.vary"), ("target", "target_active", "self.targets")):
        sets = [n for n in cfg.nodes.values() if n.kind == "stmt" and isinstance(n.ast, ast.Assign) and isinstance(n.ast.targets[0], ast.Attribute)
                and n.ast.targets[0].attr == "active"]
        okf = False
        for s in sets:
            loops = [g for g in cfg.guards(s.id) if g.kind == "T" and isinstance(g.ast, ast.For)]
            conds = cfg.cond_guards(s.id)
            if len(loops) == 1 and not conds and isinstance(loops[0].ast.iter, ast.Call) and A.src(loops[0].ast.iter.args[0]) == attr_owner:
                mask = cx.resolve(loops[0].ast.iter.args[-1], loops[0].of)
                if f"self._log['{key}'][{it}]" in A.src(mask):
                    okf = True
        col.add(rule, f"{q}#{what}-flags-from-same-row", okf, cx.loc(cx.fn),
                f"the {what} active flags are restored, for every {what}, from the same log row", "")
    # the iteration is validated / derived from a tag
    col.add(rule, f"{q}#logs-the-restored-point", bool(cx.call_nodes(lambda c: is_self_call(c, "add_point_to_log"))), cx.loc(cx.fn),
            "after restoring, the point is logged (re-evaluated)", "")
    reb = [d for nid in cfg.nodes for d in cx.rd.defs.get(nid, []) if d.name == it and d.kind == "assign"]
    okr = all(has_guard(cfg, d.nid, "T", lambda t: A.src(t) == "tag is not None") for d in reb)
    col.add(rule, f"{q}#iteration-as-given", okr, cx.loc(cx.fn), "the row reloaded is the one asked for (derived from the tag only when a tag is given)", "")
    asserts = [n for n in A.walk(cx.fn) if isinstance(n, ast.Assert) and it in A.names_loaded(n.test) and "len" in A.src(n.test)]
    col.add(rule, f"{q}#iteration-in-range", bool(asserts), cx.loc(cx.fn), "the iteration is checked against the log length", "")


def check(col: Collector):
    _solve(col)
    _flag(col)
    check_reload(col)
