"""C19 -- MAD-X expressions mean the same deferred as evaluated immediately."""
from __future__ import annotations

import ast

from .. import astutil as A
from ..core import AnalysisError, Collector
from .. import sym as S
from .common import FnCtx, fnctx, sctx, is_method_call, self_attr_stores
from . import c04, c05

PROP = "C19"
FLOORS = {"C19.R1": 12, "C19.R2": 9, "C19.R3": 5, "C19.R4": 2, "C19.R5": 2, "C19.R6": 5, "C19.R7": 20, "C19.R8": 100, "C19.R9": 6, "C19.R10": 20, "C19.R11": 3}
META = {
    "explanation": "Both evaluators are the same MadxEval class; only the three containers differ. The grammar constant is read from the "
                   "AST and parsed with lark (no code of /repo runs): every rule alias has a callback in MadxEval (also after the "
                   "get='attr' text replacement); each operator production's terminal agrees with the callback's function from the "
                   "operator module; productions nest sum > product > power > atom with left recursion; the grammar builds as LALR; "
                   "MadxEnv wires madexpr over manager.ref(...) of exactly the objects madeval receives, position by position; the callbacks "
                   "access variables/elements/functions through the container operations refs overload. Given that, the two evaluations "
                   "differ only in the operand algebra (C04) and in the dependency reporting that keeps deferred values current (C05 rules, "
                   "re-checked here).",
    "decides": "grammar/callback agreement, evaluator wiring, dependency reporting of the node classes MAD-X expressions build",
    "not_decided": "agreement on all strings and values; Python equality for parenthesised input (follows from operator agreement + C04)",
    "assumptions": ["lark's grammar loader and LALR construction (run on the grammar text only)"],
}

OPERATOR_OF_TOKEN = {"+": "add", "-": "sub", "*": "mul", "/": "truediv", "^": "pow", "**": "pow"}
UNARY_OF_TOKEN = {"-": "neg", "+": "pos"}


def _grammar_text(repo):
    m = repo.module("madxutils")
    g = m.consts.get("calc_grammar")
    if not isinstance(g, ast.Constant) or not isinstance(g.value, str):
        raise AnalysisError("madxutils.calc_grammar is no longer a string constant")
    return m, g.value


def _callbacks(repo):
    """name -> description of the class attribute of MadxEval"""
    c = repo.cls("MadxEval")
    out = {}
    for k, v in c.imports.items():
        out[k] = ("import", v)
    mod_imports = getattr(c.module, "imports", {})
    for k, v in c.consts.items():
        d = A.dotted(v)
        if d and "." in d and mod_imports.get(d.split(".")[0]) in (d.split(".")[0],) and d.split(".")[0] == "operator":
            out[k] = ("import", d)                      # add = operator.add, with `import operator` at module level
        elif d and d in mod_imports and str(mod_imports[d]).startswith("operator."):
            out[k] = ("import", mod_imports[d])         # add = add, with `from operator import add` at module level
        else:
            out[k] = ("const", d or A.src(v))
    for k, fn in c.methods.items():
        out[k] = ("method", fn)
    return c, out


def _plain_names(col, rule="C19.R11"):
    """The callbacks receive lark Tokens (a str subclass with its own repr).  Used as a container key on a *reference* container a Token
    builds ItemRef(owner, Token): it prints as e[Token('NAME', 'q1')], is not equal to e['q1'] and cannot be re-evaluated -- the parsed
    expression is then not linked to the locations it reads.  Every subscript of variables / elements uses the token's plain `.value`."""
    repo = col.repo
    n = 0
    for meth in ("assign_var", "getitem", "getattr", "var"):
        try:
            sx = sctx(repo, "MadxEval", meth, public=True)
        except Exception:
            continue
        toks = {t for t in sx.sym.params.values() if t[:1] == ("param",) and t[2] in ("name", "key")}
        conts = (S.sattr("variables"), S.sattr("elements"))
        bad, seen = [], 0
        for ev in sx.events:
            tms = [ev.term] if ev.kind == "call" else [x for x in (ev.value, ev.target) if x is not None]
            for tm in tms:
                for x in S.subterms(tm):
                    if x[:1] == ("sub",) and (x[1] in conts or (x[1][:1] == ("sub",) and x[1][1] in conts)):
                        seen += 1
                        if x[2] in toks:
                            bad.append(S.show(x)[:60])
                    if S.is_call_of(x, ("glob", "getattr")) and len(x[2]) >= 2 and any(y in conts for y in S.subterms(x[2][0])):
                        seen += 1
                        if x[2][1] in toks:
                            bad.append(S.show(x)[:60])
                    if x[:1] == ("attr",) and x[2] != "value" and x[1][:1] == ("sub",) and x[1][1] in conts and False:
                        pass
        if not seen:
            continue
        n += 1
        col.add(rule, f"MadxEval.{meth}#containers-indexed-by-plain-name", not bad, sx.loc(sx.fn),
                "variables / elements are indexed with the token's plain string value", "; ".join(sorted(set(bad))))
    if n < 3:
        raise AnalysisError("MadxEval: the callbacks that index variables / elements were not recognised (cannot decide)")


def check(col: Collector):
    with col.rule():
        _plain_names(col)
    repo = col.repo
    import lark
    m, text = _grammar_text(repo)
    try:
        parser = lark.Lark(text, parser="lalr")
        built = True
        err = ""
    except Exception as e:  # grammar error / LALR conflict
        built, err, parser = False, f"{type(e).__name__}: {e}"[:300], None
    with col.rule():
        col.add("C19.R4", "madxutils.calc_grammar#builds-as-LALR", built, m.rel, "the grammar builds as an LALR(1) parser without conflicts", err)
    if not built:
        return
    c, cbs = _callbacks(repo)
    term_pat = {t.name: t.pattern.value for t in parser.terminals}
    rules = [r for r in parser.rules if not r.origin.name.startswith("__")]
    aliases = {}
    for r in parser.rules:
        if r.alias:
            aliases.setdefault(r.alias, []).append(r)
    col.info["grammar_rules"] = len(parser.rules)
    col.info["grammar_aliases"] = sorted(aliases)
    for al in sorted(aliases):
        col.add("C19.R1", f"MadxEval#callback:{al}", al in cbs, m.loc(c.node),
                f"the grammar alias `{al}` has a callback in MadxEval (lark would otherwise return a raw Tree to the caller)",
                str(cbs.get(al, "missing"))[:80])
    # default mode leaves the grammar unchanged; attr mode replaces getitem -> getattr
    isx = sctx(repo, "MadxEval", "__init__")
    init = repo.method("MadxEval", "__init__")
    G = ("glob", "calc_grammar")
    get_p = isx.pnamed("get") if "get" in isx.sym.params else None
    repl = isx.calls_some(("call", ("attr", S.V("g"), "replace"), S.V("a"), S.ANY))
    ok = len(repl) == 1 and get_p is not None
    if ok:
        ev, mm = repl[0]
        ok = mm["g"] == G and mm["a"] == (("const", repr("getitem")), ("const", repr("getattr"))) and \
            isx.under(ev.nid, ("cmp", "==", get_p, ("const", repr("attr")))) and len(isx.conds(ev.nid)) == 1
    with col.rule():
        col.add("C19.R5", "MadxEval.__init__#attr-mode-replacement", ok, m.loc(init),
                "only in get='attr' mode the alias getitem is replaced by getattr (and nothing else is rewritten)",
                S.show(repl[0][0].term) if repl else "no replacement")
    attr_text = text.replace("getitem", "getattr")
    try:
        p2 = lark.Lark(attr_text, parser="lalr")
        al2 = {r.alias for r in p2.rules if r.alias}
        ok2 = all(a in cbs for a in al2) and "getattr" in al2 and text.count("getitem") == 1
    except Exception as e:
        ok2 = False
    with col.rule():
        col.add("C19.R5", "MadxEval#attr-mode-aliases-have-callbacks", ok2, m.rel,
                "after the replacement every alias still has a callback and exactly the element access production changed", "")
    # Lark(...) built with parser='lalr', transformer=self; `eval` is that parser's parse, statelessly
    lk = isx.calls_some(("call", ("glob", "Lark"), S.V("a"), S.V("k")))
    okl = len(lk) == 1
    if okl:
        kws = dict(lk[0][1]["k"])
        g0 = lk[0][1]["a"][0] if lk[0][1]["a"] else None
        okl = kws.get("transformer") == S.SELF and kws.get("parser") == ("const", repr("lalr")) and g0 is not None and \
            all(x == G or S.is_call_of(x, meth="replace") for x in S.alts(g0))
    with col.rule():
        col.add("C19.R4", "MadxEval.__init__#lalr-with-inline-transformer", okl, m.loc(init),
                "the evaluator is the LALR parser of calc_grammar with MadxEval itself as inline transformer", "")
    parse_of = lambda t: t[:1] == ("attr",) and t[2] == "parse" and S.is_call_of(t[1], ("glob", "Lark"))   # noqa: E731
    st = {}
    for ev in isx.of_kind("store"):
        for t in S.alts(ev.target):
            if S.is_attr(t, S.SELF):
                st.setdefault(t[2], []).append(ev.value)
    if "eval" in c.methods:
        esx = sctx(repo, "MadxEval", "eval")
        arg = esx.P(0)
        rets = esx.of_kind("return")
        fresh = bool(rets)
        facts = ""
        for r in rets:
            for a_ in S.alts(r.value):
                f = a_[1] if S.is_call_of(a_) else None
                direct = f is not None and f[:1] == ("attr",) and f[1] == S.SELF and len(st.get(f[2], [])) == 1 and parse_of(st[f[2]][0]) and a_[2] == (arg,)
                if not direct:
                    fresh = False
                    facts = f"a path returns {S.show(a_)}"
        col.add("C19.R4", "MadxEval.eval#parses-afresh", fresh, esx.loc(esx.fn),
                "evaluating a string parses and evaluates it on every call (the immediate evaluator must see the current data: "
                "no result is remembered per string)", facts)
    else:
        ok_e = len(st.get("eval", [])) == 1 and parse_of(st["eval"][0])
        col.add("C19.R4", "MadxEval.eval#parses-afresh", ok_e, m.loc(init),
                "`eval` is the parser's own parse function: every call parses and evaluates the string afresh (no remembered results)",
                S.show(st["eval"][0]) if st.get("eval") else "no self.eval")
    # operator agreement
    def tokens_of(r):
        return [term_pat.get(s.name) for s in r.expansion if s.is_term and term_pat.get(s.name) is not None and s.name not in ("NAME", "NUMBER")]

    def nonterms(r):
        return [s.name for s in r.expansion if not s.is_term]
    for al, rs in sorted(aliases.items()):
        for r in rs:
            toks = tokens_of(r)
            nts = nonterms(r)
            if len(nts) == 2 and len(toks) == 1:
                want = OPERATOR_OF_TOKEN.get(toks[0])
                got = cbs.get(al)
                ok = got is not None and got[0] == "import" and got[1] == f"operator.{want}"
                col.add("C19.R2", f"MadxEval.{al}#`{toks[0]}`", ok, m.loc(c.node),
                        f"the production `{nts[0]} {toks[0]} {nts[1]}` is evaluated by operator.{want}", str(got))
                # precedence by nesting and left recursion
                lvl = {"sum": 0, "product": 1, "power": 2, "atom": 3}
                okn = r.origin.name == nts[0] and lvl.get(nts[1], -1) == lvl.get(nts[0], -9) + 1
                col.add("C19.R2", f"grammar#{r.origin.name}:{al}:`{toks[0]}`-nesting", okn, m.rel,
                        "binary productions are left recursive over the next tighter level (sum > product > power > atom)",
                        f"{r.origin.name}: {' '.join(s.name for s in r.expansion)}")
            elif len(nts) == 1 and len(toks) == 1 and al in ("neg", "pos"):
                want = UNARY_OF_TOKEN.get(toks[0])
                got = cbs.get(al)
                ok = got is not None and got[0] == "import" and got[1] == f"operator.{want}" and nts == ["atom"] and r.origin.name == "atom"
                col.add("C19.R2", f"MadxEval.{al}#unary`{toks[0]}`", ok, m.loc(c.node),
                        f"unary `{toks[0]}` applies operator.{want} to an atom", str(got))
    got = cbs.get("number")
    with col.rule():
        col.add("C19.R2", "MadxEval.number#float", got is not None and got[0] == "const" and got[1] == "float", m.loc(c.node),
                "NUMBER tokens are converted with float", str(got))
    # callbacks
    def cb(name):
        if name not in c.methods:
            return None
        return sctx(repo, "MadxEval", name)

    def tok(p):
        return (p, ("attr", p, "value"), S.fcall("str", p))
    sx = cb("var")
    ok = sx is not None
    if ok:
        rets = [r for r in sx.of_kind("return")]
        ok = bool(rets) and all(r.value[:1] == ("sub",) and r.value[1] == S.sattr("variables") and r.value[2] in tok(sx.P(0)) for r in rets)
    with col.rule():
        col.add("C19.R6", "MadxEval.var#variables[name]", ok, sx.loc(sx.fn) if sx else m.rel, "a name evaluates to variables[name]", "")
    sx = cb("getitem")
    ok = sx is not None
    if ok:
        rets = sx.of_kind("return")
        ok = bool(rets) and all(r.value[:1] == ("sub",) and r.value[1][:1] == ("sub",) and r.value[1][1] == S.sattr("elements")
                                and r.value[1][2] in tok(sx.P(0)) and r.value[2] in tok(sx.P(1)) for r in rets)
    with col.rule():
        col.add("C19.R6", "MadxEval.getitem#elements[name][key]", ok, sx.loc(sx.fn) if sx else m.rel, "`name->key` evaluates to elements[name][key]", "")
    sx = cb("getattr")
    ok = sx is not None
    if ok:
        rets = sx.of_kind("return")
        ok = bool(rets) and all(S.is_call_of(r.value, ("glob", "getattr")) and len(r.value[2]) == 2 and r.value[2][0][:1] == ("sub",)
                                and r.value[2][0][1] == S.sattr("elements") and r.value[2][0][2] in tok(sx.P(0)) and r.value[2][1] in tok(sx.P(1))
                                for r in rets)
    with col.rule():
        col.add("C19.R6", "MadxEval.getattr#getattr(elements[name],key)", ok, sx.loc(sx.fn) if sx else m.rel,
                "`name->key` in attr mode evaluates to getattr(elements[name], key)", "")
    sx = cb("call")
    ok = sx is not None
    if ok:
        ps = sorted((t for t in sx.sym.params.values() if t[:1] == ("param",)), key=lambda t: t[1])
        rets = sx.of_kind("return")
        ok = len(ps) == 2 and ps[1][2].startswith("*") and bool(rets) and all(
            S.is_call_of(r.value) and S.is_call_of(r.value[1], ("glob", "getattr")) and r.value[1][2][:2] == (S.sattr("functions"), ps[0])[:2]
            and r.value[1][2][1] in tok(ps[0]) and r.value[2] == (("uop", "*", ps[1]),) and not r.value[3] for r in rets)
    with col.rule():
        col.add("C19.R6", "MadxEval.call#getattr(functions,name)(*args)", ok, sx.loc(sx.fn) if sx else m.rel,
                "a call evaluates to getattr(functions, name)(*args) with all arguments in order", "")
    ps = sorted((t for t in isx.sym.params.values() if t[:1] == ("param",)), key=lambda t: t[1])
    ok = len(ps) >= 3 and all(st.get(a_) == [ps[i]] for i, a_ in enumerate(("variables", "functions", "elements"))) and \
        [p_[2] for p_ in ps[:3]] == ["variables", "functions", "elements"]
    with col.rule():
        col.add("C19.R6", "MadxEval.__init__#containers", ok, m.loc(init),
                "the evaluator stores (variables, functions, elements) as given, in that parameter order", str([p_[2] for p_ in ps]))
    # wiring in MadxEnv
    esx = sctx(repo, "MadxEnv", "__init__")
    fenv = {}
    for ev in esx.of_kind("store"):
        for t in S.alts(ev.target):
            if S.is_attr(t, S.SELF):
                fenv.setdefault(t, []).append(ev.value)
    fmap = {k: v[0] for k, v in fenv.items() if len(v) == 1}

    def deref(t, depth=4):
        for _ in range(depth):
            t2 = S.subst(t, fmap)
            if t2 == t:
                break
            t = t2
        return t

    def evaluator(v):
        v = deref(v) if v is not None else None
        if v is not None and v[:1] == ("attr",) and v[2] == "eval" and S.is_call_of(v[1], ("glob", "MadxEval")):
            return v[1]
        return None
    ex, ev_ = evaluator(fmap.get(S.sattr("madexpr"))), evaluator(fmap.get(S.sattr("madeval")))
    if ex is None or ev_ is None:
        col.fail("C19.R3", "MadxEnv.__init__#evaluators", esx.loc(esx.fn), "madexpr/madeval are MadxEval(...).eval", "")
    else:
        # arguments by parameter, however they were passed
        init_ = repo.method("MadxEval", "__init__")
        pnames = A.params(init_)[1:]
        dflt = A.param_defaults(init_)

        def by_param(c):
            pos, kws = list(c[2]), dict(c[3])
            vals, extra = [], []
            for i, pn in enumerate(pnames):
                if i < len(pos):
                    vals.append(pos[i])
                elif pn in kws:
                    vals.append(kws.pop(pn))
                elif pn in dflt:
                    extra.append((pn, ("default",)))
                    continue
                else:
                    return None
            return ("call", c[1], tuple(vals[:3]), tuple((pn, v) for pn, v in zip(pnames[3:], vals[3:])) + tuple(sorted(kws.items())))
        ex2, ev2 = by_param(ex), by_param(ev_)
        if ex2 is None or ev2 is None:
            raise AnalysisError("MadxEnv.__init__: the arguments of MadxEval(...) are not recognised (cannot decide)")
        ex, ev_ = ex2, ev2
        same_mode = ex[3] == ev_[3] and len(ex[2]) == len(ev_[2]) == 3
        col.add("C19.R3", "MadxEnv.__init__#same-evaluator-and-mode", same_mode, esx.loc(esx.fn),
                "both evaluators are MadxEval with the same element access mode", f"{S.show(ex)[:80]} / {S.show(ev_)[:80]}")
        mgr = deref(S.sattr("manager"))
        for i, what in enumerate(("variables", "functions", "elements")):
            if i >= len(ex[2]) or i >= len(ev_[2]):
                continue
            mm = S.match(ex[2][i], ("call", ("attr", S.V("mg"), "ref"), S.V("a"), S.ANY))
            ok = mm is not None and bool(mm["a"]) and mm["a"][0] == ev_[2][i] and mm["mg"] == mgr
            col.add("C19.R3", f"MadxEnv.__init__#{what}-ref-of-same-object", ok, esx.loc(esx.fn),
                    f"madexpr's {what} is manager.ref(<the very object madeval uses as {what}>)",
                    f"madexpr gets {S.show(ex[2][i])[:80]}; madeval gets {S.show(ev_[2][i])[:60]}")
        col.add("C19.R3", "MadxEnv.__init__#own-manager", S.is_call_of(mgr, ("glob", "Manager")), esx.loc(esx.fn),
                "the environment owns a fresh Manager", S.show(mgr))
    # dependency reporting of the node classes built by MAD-X expressions
    sub = Collector(repo, "C19", col.tier)
    with col.rule():
        c05._readset(sub, rule="C19.R7")
    with col.rule():
        c05._accumulator(sub, rule="C19.R7")
    with col.rule():
        c05._never_none(sub, rule="C19.R7")
    # ... and the operand algebra itself: operator dunders build the node Python prescribes on every path
    with col.rule():
        c04._binary(sub, rule="C19.R8")
    with col.rule():
        c04._unary(sub, rule="C19.R8")
    with col.rule():
        c04._no_build_time_algebra(sub, rule="C19.R8")
    # element access `el->name` / variables are navigated with the name exactly as the grammar delivers it
    with col.rule():
        c04.navigation_rules(sub, rule="C19.R9")
    with col.rule():
        col.obs.extend(o for o in sub.obs if not o.note)
    from .common import shared
    with col.rule():
        shared(col, "C19.R10", [c04._zero_division, c04._calls],
               why="apart from the documented division by zero, a deferred node raises what immediate evaluation raises")
    with col.rule():
        shared(col, "C19.R12", [c04._leaves],
               why="'keeps doing so after the variables change through the manager': element and attribute steps (q1->k1) resolve their "
                   "owner afresh at every evaluation, nothing resolved once and remembered in the node")
    from . import c20
    with col.rule():
        shared(col, "C19.R10", [c20._no_semantic_directives],
               why="deferred and immediate evaluation agree only if the compiled nodes keep Python's arithmetic")
