"""C19 -- MAD-X expressions mean the same deferred as evaluated immediately."""
from __future__ import annotations

import ast

from .. import astutil as A
from ..core import AnalysisError, Collector
from .common import FnCtx, fnctx, is_method_call, self_attr_stores
from . import c05

PROP = "C19"
FLOORS = {"C19.R1": 12, "C19.R2": 9, "C19.R3": 5, "C19.R4": 2, "C19.R5": 2, "C19.R6": 5, "C19.R7": 20}
META = {
    "explanation": "Both evaluators are the same MadxEval class; only the three containers differ. The grammar constant is read from the "
                   "AST and parsed with lark (no code of /repo runs): every rule alias has a callback in MadxEval (also after the "
                   "get='attr' text replacement); each operator production's terminal agrees with the callback's function from the "
                   "operator module; productions nest sum > product > power > atom with left recursion; the grammar builds as LALR; "
                   "MadxEnv wires madexpr over manager.ref(...) of exactly the objects madeval receives, position by position; the callbacks "
                   "access variables/elements/functions through the container operations refs overload. Given that, the two evaluations "
                   "differ only in the operand algebra (C04) and in the dependency reporting that keeps deferred values current (C05 rules, "
                   "re-checked here).",
    "decides": "grammar/callback agreement, evaluator wiring, dependency reporting of the node classes MAD-X expressions build",
    "not_decided": "agreement on all strings and values; Python equality for parenthesised input (follows from operator agreement + C04)",
    "assumptions": ["lark's grammar loader and LALR construction (run on the grammar text only)"],
}

OPERATOR_OF_TOKEN = {"+": "add", "-": "sub", "*": "mul", "/": "truediv", "^": "pow", "**": "pow"}
UNARY_OF_TOKEN = {"-": "neg", "+": "pos"}


def _grammar_text(repo):
    m = repo.module("madxutils")
    g = m.consts.get("calc_grammar")
    if not isinstance(g, ast.Constant) or not isinstance(g.value, str):
        raise AnalysisError("madxutils.calc_grammar is no longer a string constant")
    return m, g.value


def _callbacks(repo):
    """name -> description of the class attribute of MadxEval"""
    c = repo.cls("MadxEval")
    out = {}
    for k, v in c.imports.items():
        out[k] = ("import", v)
    for k, v in c.consts.items():
        out[k] = ("const", A.dotted(v) or A.src(v))
    for k, fn in c.methods.items():
        out[k] = ("method", fn)
    return c, out


def check(col: Collector):
    repo = col.repo
    import lark
    m, text = _grammar_text(repo)
    try:
        parser = lark.Lark(text, parser="lalr")
        built = True
        err = ""
    except Exception as e:  # grammar error / LALR conflict
        built, err, parser = False, f"{type(e).__name__}: {e}"[:300], None
    col.add("C19.R4", "madxutils.calc_grammar#builds-as-LALR", built, m.rel, "the grammar builds as an LALR(1) parser without conflicts", err)
    if not built:
        return
    c, cbs = _callbacks(repo)
    term_pat = {t.name: t.pattern.value for t in parser.terminals}
    rules = [r for r in parser.rules if not r.origin.name.startswith("__")]
    aliases = {}
    for r in parser.rules:
        if r.alias:
            aliases.setdefault(r.alias, []).append(r)
    col.info["grammar_rules"] = len(parser.rules)
    col.info["grammar_aliases"] = sorted(aliases)
    for al in sorted(aliases):
        col.add("C19.R1", f"MadxEval#callback:{al}", al in cbs, m.loc(c.node),
                f"the grammar alias `{al}` has a callback in MadxEval (lark would otherwise return a raw Tree to the caller)",
                str(cbs.get(al, "missing"))[:80])
    # default mode leaves the grammar unchanged; attr mode replaces getitem -> getattr
    init = repo.method("MadxEval", "__init__")
    repl = [x for x in A.calls(init) if isinstance(x.func, ast.Attribute) and x.func.attr == "replace"]
    ok = len(repl) == 1 and [A.const(a) for a in repl[0].args] == ["getitem", "getattr"]
    if ok:
        cx = FnCtx(m, c, init)
        nid = cx.cfg.containing(repl[0])
        gs = [g for g in cx.cfg.guards(nid)]
        ok = len(gs) == 1 and gs[0].kind == "T" and A.src(gs[0].ast) in ("get == 'attr'", 'get == "attr"')
    col.add("C19.R5", "MadxEval.__init__#attr-mode-replacement", ok, m.loc(init),
            "only in get='attr' mode the alias getitem is replaced by getattr (and nothing else is rewritten)", "")
    attr_text = text.replace("getitem", "getattr")
    try:
        p2 = lark.Lark(attr_text, parser="lalr")
        al2 = {r.alias for r in p2.rules if r.alias}
        ok2 = all(a in cbs for a in al2) and "getattr" in al2 and text.count("getitem") == 1
    except Exception as e:
        ok2 = False
    col.add("C19.R5", "MadxEval#attr-mode-aliases-have-callbacks", ok2, m.rel,
            "after the replacement every alias still has a callback and exactly the element access production changed", "")
    # Lark(...) built with parser='lalr', transformer=self
    lk = [x for x in A.calls(init) if A.call_name(x) == "Lark"]
    okl = len(lk) == 1 and any(k.arg == "transformer" and A.dotted(k.value) == "self" for k in lk[0].keywords) and \
        any(k.arg == "parser" and A.const(k.value) == "lalr" for k in lk[0].keywords)
    col.add("C19.R4", "MadxEval.__init__#lalr-with-inline-transformer", okl, m.loc(init),
            "the evaluator is the LALR parser with MadxEval itself as inline transformer", "")
    # operator agreement
    def tokens_of(r):
        return [term_pat.get(s.name) for s in r.expansion if s.is_term and term_pat.get(s.name) is not None and s.name not in ("NAME", "NUMBER")]

    def nonterms(r):
        return [s.name for s in r.expansion if not s.is_term]
    for al, rs in sorted(aliases.items()):
        for r in rs:
            toks = tokens_of(r)
            nts = nonterms(r)
            if len(nts) == 2 and len(toks) == 1:
                want = OPERATOR_OF_TOKEN.get(toks[0])
                got = cbs.get(al)
                ok = got is not None and got[0] == "import" and got[1] == f"operator.{want}"
                col.add("C19.R2", f"MadxEval.{al}#`{toks[0]}`", ok, m.loc(c.node),
                        f"the production `{nts[0]} {toks[0]} {nts[1]}` is evaluated by operator.{want}", str(got))
                # precedence by nesting and left recursion
                lvl = {"sum": 0, "product": 1, "power": 2, "atom": 3}
                okn = r.origin.name == nts[0] and lvl.get(nts[1], -1) == lvl.get(nts[0], -9) + 1
                col.add("C19.R2", f"grammar#{r.origin.name}:{al}:`{toks[0]}`-nesting", okn, m.rel,
                        "binary productions are left recursive over the next tighter level (sum > product > power > atom)",
                        f"{r.origin.name}: {' '.join(s.name for s in r.expansion)}")
            elif len(nts) == 1 and len(toks) == 1 and al in ("neg", "pos"):
                want = UNARY_OF_TOKEN.get(toks[0])
                got = cbs.get(al)
                ok = got is not None and got[0] == "import" and got[1] == f"operator.{want}" and nts == ["atom"] and r.origin.name == "atom"
                col.add("C19.R2", f"MadxEval.{al}#unary`{toks[0]}`", ok, m.loc(c.node),
                        f"unary `{toks[0]}` applies operator.{want} to an atom", str(got))
    got = cbs.get("number")
    col.add("C19.R2", "MadxEval.number#float", got is not None and got[0] == "const" and got[1] == "float", m.loc(c.node),
            "NUMBER tokens are converted with float", str(got))
    # callbacks
    def ret_of(name):
        fn = cbs.get(name, (None, None))[1]
        if not isinstance(fn, ast.FunctionDef):
            return None, None
        rets = [n.value for n in A.walk(fn) if isinstance(n, ast.Return)]
        return fn, rets
    fn, rets = ret_of("var")
    ok = fn is not None and len(rets) == 1 and isinstance(rets[0], ast.Subscript) and A.dotted(rets[0].value) == "self.variables" and \
        A.src(rets[0].slice) in (f"{A.params(fn)[1]}.value", A.params(fn)[1])
    col.add("C19.R6", "MadxEval.var#variables[name]", ok, m.loc(fn) if fn else m.rel, "a name evaluates to variables[name]", "")
    fn, rets = ret_of("getitem")
    ok = fn is not None and len(rets) == 1 and isinstance(rets[0], ast.Subscript) and isinstance(rets[0].value, ast.Subscript) and \
        A.dotted(rets[0].value.value) == "self.elements"
    if ok:
        p = A.params(fn)
        ok = A.src(rets[0].value.slice).split(".")[0] == p[1] and A.src(rets[0].slice).split(".")[0] == p[2]
    col.add("C19.R6", "MadxEval.getitem#elements[name][key]", ok, m.loc(fn) if fn else m.rel, "`name->key` evaluates to elements[name][key]", "")
    fn, rets = ret_of("getattr")
    ok = fn is not None and len(rets) == 1 and isinstance(rets[0], ast.Call) and A.call_name(rets[0]) == "getattr" and len(rets[0].args) == 2 and \
        isinstance(rets[0].args[0], ast.Subscript) and A.dotted(rets[0].args[0].value) == "self.elements"
    if ok:
        p = A.params(fn)
        ok = A.src(rets[0].args[0].slice).split(".")[0] == p[1] and A.src(rets[0].args[1]).split(".")[0] == p[2]
    col.add("C19.R6", "MadxEval.getattr#getattr(elements[name],key)", ok, m.loc(fn) if fn else m.rel,
            "`name->key` in attr mode evaluates to getattr(elements[name], key)", "")
    fn, rets = ret_of("call")
    ok = False
    if fn is not None and len(rets) == 1 and isinstance(rets[0], ast.Call):
        cx = FnCtx(m, c, fn)
        f = rets[0].func
        if isinstance(f, ast.Name):
            vals = [n.value for n in A.walk(fn) if isinstance(n, ast.Assign) and A.target_names(n.targets[0]) == [f.id]]
            f = vals[0] if len(vals) == 1 else f
        ok = isinstance(f, ast.Call) and A.call_name(f) == "getattr" and A.dotted(f.args[0]) == "self.functions" and \
            A.dotted(f.args[1]) == A.params(fn)[1] and len(rets[0].args) == 1 and isinstance(rets[0].args[0], ast.Starred) and \
            fn.args.vararg is not None and A.dotted(rets[0].args[0].value) == fn.args.vararg.arg
    col.add("C19.R6", "MadxEval.call#getattr(functions,name)(*args)", ok, m.loc(fn) if fn else m.rel,
            "a call evaluates to getattr(functions, name)(*args) with all arguments in order", "")
    init_st = {a: n for a, n in self_attr_stores(init)}
    P = A.params(init)
    ok = all(a in init_st and isinstance(init_st[a], ast.Assign) and A.dotted(init_st[a].value) == a for a in ("variables", "functions", "elements")) \
        and P[1:4] == ["variables", "functions", "elements"]
    col.add("C19.R6", "MadxEval.__init__#containers", ok, m.loc(init),
            "the evaluator stores (variables, functions, elements) as given, in that parameter order", str(P))
    # wiring in MadxEnv
    env = repo.method("MadxEnv", "__init__")
    st = {}
    for a, n in self_attr_stores(env):
        if isinstance(n, ast.Assign):
            st[a] = n.value

    def evaluator(v):
        if isinstance(v, ast.Attribute) and v.attr == "eval" and isinstance(v.value, ast.Call) and A.call_name(v.value) == "MadxEval":
            return v.value
        return None
    ex, ev = evaluator(st.get("madexpr")), evaluator(st.get("madeval"))
    if ex is None or ev is None:
        col.fail("C19.R3", "MadxEnv.__init__#evaluators", m.loc(env), "madexpr/madeval are MadxEval(...).eval", "")
    else:
        same_mode = {k.arg: A.src(k.value) for k in ex.keywords} == {k.arg: A.src(k.value) for k in ev.keywords} and len(ex.args) == len(ev.args) == 3
        col.add("C19.R3", "MadxEnv.__init__#same-evaluator-and-mode", same_mode, m.loc(env),
                "both evaluators are MadxEval with the same element access mode", f"{A.src(ex)} / {A.src(ev)}")
        for i, what in enumerate(("variables", "functions", "elements")):
            if i >= len(ex.args) or i >= len(ev.args):
                continue
            ra = A.self_attr(ex.args[i])
            plain = A.src(ev.args[i])
            refdef = st.get(ra) if ra else None
            ok = isinstance(refdef, ast.Call) and isinstance(refdef.func, ast.Attribute) and refdef.func.attr == "ref" and \
                A.dotted(refdef.func.value) == "self.manager" and refdef.args and A.src(refdef.args[0]) == plain
            col.add("C19.R3", f"MadxEnv.__init__#{what}-ref-of-same-object", ok, m.loc(env),
                    f"madexpr's {what} is manager.ref(<the very object madeval uses as {what}>)",
                    f"madexpr gets {A.src(ex.args[i])} = {A.src(refdef)}; madeval gets {plain}")
        mg = st.get("manager")
        col.add("C19.R3", "MadxEnv.__init__#own-manager", isinstance(mg, ast.Call) and A.call_name(mg) == "Manager", m.loc(env),
                "the environment owns a fresh Manager", A.src(mg))
    # dependency reporting of the node classes built by MAD-X expressions
    sub = Collector(repo, "C19", col.tier)
    c05._readset(sub, rule="C19.R7")
    c05._accumulator(sub, rule="C19.R7")
    c05._never_none(sub, rule="C19.R7")
    col.obs.extend(sub.obs)
