"""C08 -- table row selection follows the documented selector semantics, in table order."""
from __future__ import annotations

import ast

from .. import astutil as A
from ..core import AnalysisError, Collector
from .common import FnCtx, fnctx, has_guard, is_method_call, is_self_call
from . import c07

PROP = "C08"
FLOORS = {"C08.R1": 1, "C08.R2": 4, "C08.R3": 2, "C08.R4": 3, "C08.R5": 4, "C08.R6": 7, "C08.R7": 3}
META = {
    "explanation": "Path-sensitive nullness over the whole package (a name proved None by the branch condition is never an operand of "
                   "an ordering comparison or arithmetic); bound roles in the value-range branch (start only as `col >= start`, stop "
                   "only as `col <= stop`, bounds tested with `is None`, never by truthiness: 0 is a legitimate bound); no iteration "
                   "over an unordered collection reaches the returned index array unsorted; absent names are misses on both sibling "
                   "dictionaries; regex selection is a case-insensitive full match by default; rows[...], rows.indices[...] and "
                   "rows.mask[...] all resolve through Table._get_row_indices (tuples left to right through _make_view); name spans "
                   "are inclusive.",
    "decides": "structural necessary conditions of the selector semantics and of table order",
    "not_decided": "equality with a reference selector on all tables",
    "assumptions": ["numpy comparison/where semantics"],
}


def _none_operands(col, rule="C08.R1"):
    """whole package: a name known to be None (by the enclosing branch condition) used as operand of <,<=,>,>=,+,-,*,/"""
    repo = col.repo
    nfun = 0
    hits = 0

    def none_names(test, positive=True):
        conj = test.values if isinstance(test, ast.BoolOp) and isinstance(test.op, ast.And) else [test]
        out = set()
        for c in conj:
            p = A.compare_parts(c)
            if p and isinstance(p[1], ast.Is) and A.is_none(p[2]) and isinstance(p[0], ast.Name):
                out.add(p[0].id)
        return out

    def not_none_single(test):
        p = A.compare_parts(test)
        if p and isinstance(p[1], ast.IsNot) and A.is_none(p[2]) and isinstance(p[0], ast.Name):
            return {p[0].id}
        return set()

    def scan(body, names, m, q):
        nonlocal hits
        assigned = set()
        for st in body:
            assigned |= A.names_stored(st)
        live = names - assigned
        if not live:
            return
        for st in body:
            for n in A.walk(st):
                ops = []
                if isinstance(n, ast.Compare):
                    seq = [n.left] + n.comparators
                    for i, o in enumerate(n.ops):
                        if isinstance(o, (ast.Lt, ast.LtE, ast.Gt, ast.GtE)):
                            ops += [seq[i], seq[i + 1]]
                elif isinstance(n, ast.BinOp):
                    ops = [n.left, n.right]
                for o in ops:
                    if isinstance(o, ast.Name) and o.id in live:
                        hits += 1
                        col.fail(rule, f"{q}#None-operand:{o.id}", m.loc(n),
                                 "a name that the branch condition proves to be None is not used as an operand of an ordering "
                                 "comparison or arithmetic (TypeError at run time)", f"`{A.src(n)}` under a branch where {o.id} is None")

    for m, c, fn in repo.all_functions():
        nfun += 1
        q = f"{c.name}.{fn.name}" if c else fn.name
        for n in A.walk(fn):
            if isinstance(n, ast.If):
                scan(n.body, none_names(n.test), m, q)
                if n.orelse:
                    scan(n.orelse, not_none_single(n.test), m, q)
    col.count("functions_scanned_for_None_operands", nfun)
    if hits == 0:
        col.ok(rule, "package#no-definitely-None-operand", "xdeps/", f"no definitely-None operand in {nfun} functions", "")


def _bound_roles(col, rule="C08.R2"):
    repo = col.repo
    cx = fnctx(repo, "Table", "_get_row_indices")
    fn = cx.fn
    rp = A.params(fn)[1]
    roles = {}
    for n in A.walk(fn):
        if isinstance(n, ast.Assign) and isinstance(n.value, ast.Attribute) and A.dotted(n.value.value) == rp and n.value.attr in ("start", "stop", "step"):
            roles[A.target_names(n.targets[0])[0]] = n.value.attr
    inv = {v: k for k, v in roles.items()}
    if set(inv) != {"start", "stop", "step"}:
        raise AnalysisError("Table._get_row_indices: slice parts not bound to locals (unrecognised shape)")
    ia, ib, ic = inv["start"], inv["stop"], inv["step"]
    # truthiness tests on bounds
    bad = []
    for n in A.walk(fn):
        tests = []
        if isinstance(n, (ast.If, ast.IfExp, ast.While)):
            tests.append(n.test)
        for t in list(tests):
            if isinstance(t, ast.BoolOp):
                tests += t.values
        for t in tests:
            t2 = t.operand if isinstance(t, ast.UnaryOp) and isinstance(t.op, ast.Not) else t
            if isinstance(t2, ast.Name) and t2.id in (ia, ib):
                bad.append(A.src(t))
    col.add(rule, "Table._get_row_indices#bounds-tested-with-is-None", not bad, cx.loc(fn),
            "range bounds are tested with `is None`, never by truthiness (0 and 0.0 are legitimate bounds)", str(bad))
    # comparisons of a column with the bounds
    cmpuses = {ia: [], ib: []}
    for n in A.walk(fn):
        if isinstance(n, ast.Compare) and len(n.ops) == 1 and isinstance(n.ops[0], (ast.Lt, ast.LtE, ast.Gt, ast.GtE)):
            l, r = n.left, n.comparators[0]
            for nm in (ia, ib):
                if A.dotted(r) == nm:
                    cmpuses[nm].append((type(n.ops[0]).__name__, A.src(n)))
                elif A.dotted(l) == nm:
                    flip = {"Lt": "Gt", "LtE": "GtE", "Gt": "Lt", "GtE": "LtE"}[type(n.ops[0]).__name__]
                    cmpuses[nm].append((flip, A.src(n)))
    col.add(rule, "Table._get_row_indices#start-is-inclusive-lower-bound", bool(cmpuses[ia]) and all(o == "GtE" for o, _ in cmpuses[ia]), cx.loc(fn),
            "the start of a value range is used only as `col >= start`", str(cmpuses[ia]))
    col.add(rule, "Table._get_row_indices#stop-is-inclusive-upper-bound", bool(cmpuses[ib]) and all(o == "LtE" for o, _ in cmpuses[ib]), cx.loc(fn),
            "the stop of a value range is used only as `col <= stop`", str(cmpuses[ib]))
    # both bounds: conjunction; the column is self._data[step]
    both = [n for n in A.walk(fn) if isinstance(n, ast.BinOp) and isinstance(n.op, ast.BitAnd)]
    okb = any(ia in A.names_loaded(b) and ib in A.names_loaded(b) for b in both) or \
        any(isinstance(n, ast.AugAssign) and isinstance(n.op, ast.BitAnd) for n in A.walk(fn))
    col.add(rule, "Table._get_row_indices#both-bounds-conjunction", okb, cx.loc(fn), "with both bounds given the two conditions are and-ed", "")
    colsrc = [n for n in A.walk(fn) if isinstance(n, ast.Assign) and A.src(n.value) == f"self._data[{ic}]"]
    col.add(rule, "Table._get_row_indices#range-column-is-step", bool(colsrc), cx.loc(fn), "the column compared is the one named by the slice step", "")
    # each one-sided branch returns the comparison of *its* bound (covered by R1 when swapped); open range selects all
    rets = [n.value for n in A.walk(fn) if isinstance(n, ast.Return)]
    col.add(rule, "Table._get_row_indices#open-range-selects-all", any(A.src(r) == "slice(None)" for r in rets), cx.loc(fn),
            "a range with neither bound selects every row", "")


def _table_order(col, rule="C08.R3"):
    repo = col.repo
    cx = fnctx(repo, "Table", "_get_regexp_indices")
    fn = cx.fn
    cfg = cx.cfg
    rets = [n for n in cfg.nodes.values() if n.kind == "stmt" and isinstance(n.ast, ast.Return)]
    final = rets[-1]
    # the list returned by the last return
    lst = None
    for n in A.walk(final.ast.value):
        if isinstance(n, ast.Call) and A.call_name(n) in ("np.array", "numpy.array", "np.asarray") and n.args:
            lst = n.args[0]
    if lst is None:
        raise AnalysisError("Table._get_regexp_indices: returned index array not recognised (cannot decide)")
    sorted_wrap = isinstance(lst, ast.Call) and A.call_name(lst) == "sorted"
    lname = A.dotted(lst) if not sorted_wrap else A.dotted(lst.args[0])
    # set-typed name collections
    set_names = {A.target_names(n.targets[0])[0] for n in A.walk(fn) if isinstance(n, ast.Assign) and len(A.target_names(n.targets[0])) == 1 and (
        (isinstance(n.value, ast.Call) and A.call_name(n.value) in ("set", "frozenset")) or isinstance(n.value, (ast.Set, ast.SetComp)))}
    # sources feeding the list: loops / comprehensions
    problems = []
    needs_sort = []
    for n in A.walk(fn):
        it = None
        feeds = False
        if isinstance(n, ast.For):
            feeds = any(isinstance(c.func, ast.Attribute) and c.func.attr == "append" and A.dotted(c.func.value) == lname for c in A.calls(n))
            it = n.iter
        elif isinstance(n, ast.Assign) and A.target_names(n.targets[0]) == [lname] and isinstance(n.value, ast.ListComp):
            feeds = True
            it = n.value.generators[0].iter
        if not feeds or it is None:
            continue
        in_table_order = isinstance(it, ast.Call) and A.call_name(it) == "enumerate" and A.src(it.args[0]) == "self._data[self._index]"
        if in_table_order:
            continue
        if isinstance(it, ast.Name) and it.id in set_names:
            problems.append(f"iterates the set `{it.id}` (hash-seed dependent order)")
        needs_sort.append(n)
    sorts = cx.call_nodes(lambda c: isinstance(c.func, ast.Attribute) and c.func.attr == "sort" and A.dotted(c.func.value) == lname)
    ok_sorted = True
    why = ""
    for n in needs_sort:
        nid = cfg.node_of(n) if not isinstance(n, ast.For) else cfg.node_of(n)
        if nid is None:
            continue
        if sorted_wrap:
            continue
        if not sorts or cfg.path_avoiding(nid, final.id, sorts):
            ok_sorted = False
            why = "positions collected per matching name (in order of first appearance of the names, not of the count-th occurrences) reach " \
                  "the result without being sorted into table order"
    col.add(rule, "Table._get_regexp_indices#count-branch-in-table-order", ok_sorted and not problems, cx.loc(final.id),
            "row positions gathered name by name are sorted before they are returned (rows come back in table order, independent of "
            "the hash seed)", "; ".join(problems + ([why] if why else [])))
    # the plain branch scans the column in order and appends the scan index
    scan = [n for n in A.walk(fn) if isinstance(n, ast.For) and isinstance(n.iter, ast.Call) and A.call_name(n.iter) == "enumerate"
            and A.src(n.iter.args[0]) == "self._data[self._index]"]
    oks = len(scan) == 1
    if oks:
        ii, nn = A.target_names(scan[0].target)
        app = [c for c in A.calls(scan[0]) if isinstance(c.func, ast.Attribute) and c.func.attr == "append" and A.dotted(c.func.value) == lname]
        oks = len(app) == 1 and A.dotted(app[0].args[0]) == ii
    col.add(rule, "Table._get_regexp_indices#scan-in-table-order", oks, cx.loc(fn),
            "without a count the matching rows are collected by one scan of the index column, in order", "")
    # concatenate & co: unordered column sets are not row order -- cross reference only
    # offset is applied to the result
    col.add(rule, "Table._get_regexp_indices#offset-applied", A.src(final.ast.value).endswith("+ offset"), cx.loc(final.id),
            "the `<<`/`>>` offset shifts every selected position", A.src(final.ast.value))


def _regex(col, rule="C08.R5"):
    repo = col.repo
    cx = fnctx(repo, "Table", "_get_regexp_indices")
    comp = [c for c in A.calls(cx.fn) if A.call_name(c) == "re.compile"]
    ok = len(comp) == 1 and any(k.arg == "flags" and A.src(k.value) == "self._regex_flags" for k in comp[0].keywords)
    col.add(rule, "Table._get_regexp_indices#compiled-with-table-flags", ok, cx.loc(cx.fn), "the pattern is compiled with the table's regex flags", "")
    fm = [c for c in A.calls(cx.fn) if isinstance(c.func, ast.Attribute) and c.func.attr in ("fullmatch", "match", "search", "findall")]
    col.add(rule, "Table._get_regexp_indices#full-match", len(fm) == 1 and fm[0].func.attr == "fullmatch", cx.loc(cx.fn),
            "a name is selected only if the whole name matches the pattern", str([f.func.attr for f in fm]))
    init = repo.method("Table", "__init__")
    d = A.param_defaults(init).get("regex_flags")
    col.add(rule, "Table.__init__#case-insensitive-by-default", A.src(d) == "re.IGNORECASE", repo.cls("Table").module.loc(init),
            "the default regex flags are re.IGNORECASE", A.src(d))
    stored = False
    for n in A.walk(init):
        if isinstance(n, ast.Dict):
            dd = {A.const(k): v for k, v in zip(n.keys, n.values)}
            stored = A.dotted(dd.get("_regex_flags")) == "regex_flags"
    col.add(rule, "Table.__init__#flags-stored", stored, repo.cls("Table").module.loc(init), "the flags given are the flags used", "")
    # derived tables inherit the flags
    for meth in ("_select", "_select_rows", "_select_cols"):
        fn = repo.method("Table", meth)
        ok = any(any(k.arg == "regex_flags" and A.src(k.value) == "self._regex_flags" for k in c.keywords) for c in A.calls(fn))
        col.add(rule, f"Table.{meth}#flags-inherited", ok, repo.cls("Table").module.loc(fn), "a derived table keeps the regex flags", "")


def _routing(col, rule="C08.R6"):
    repo = col.repo
    t = repo.cls("Table")
    fn = repo.method("_RowView", "__getitem__")
    ok = not A.has_fragments(fn, ["self.indices[{P1}]", "self.table._get_row_indices({P1})", "self.table._select_rows({L})", "isinstance({P1}, tuple)"])
    col.add(rule, "_RowView.__getitem__#single-selector", ok, t.module.loc(fn),
            "rows[...] resolves through Table._get_row_indices (tuples through rows.indices) and selects with _select_rows", "")
    fn = repo.method("Indices", "__getitem__")
    ok = not A.has_fragments(fn, ["self.table.rows._make_view(*{P1})", "get_indices()", "self.table._get_row_indices({P1})",
                                  "np.arange(len(self.table))[{L}]"])
    col.add(rule, "Indices.__getitem__#single-selector", ok, t.module.loc(fn),
            "rows.indices[...] resolves through the same selector; slices are expanded over the table length; tuples through _make_view", "")
    fn = repo.method("Mask", "__getitem__")
    ok = not A.has_fragments(fn, ["self.table.rows.indices[{P1}]", "np.zeros(len(self.table), dtype=bool)", "{L}[{L}] = True"])
    col.add(rule, "Mask.__getitem__#from-indices", ok, t.module.loc(fn), "rows.mask[...] marks exactly the positions rows.indices[...] returns", "")
    cx = fnctx(repo, "_RowView", "_make_view")
    fors = [n for n in A.walk(cx.fn) if isinstance(n, ast.For)]
    ok = len(fors) == 1 and fors[0].iter.id == cx.fn.args.vararg.arg if fors and isinstance(fors[0].iter, ast.Name) and cx.fn.args.vararg else False
    if ok:
        ok = not A.has_fragments(cx.fn, ["{L}._get_row_indices({L})", "_View({L}._data, {L}, len({L}))", "{L} = Table("])
    col.add(rule, "_RowView._make_view#left-to-right", ok, cx.loc(cx.fn),
            "a tuple of selectors is applied left to right, each to the table produced by the previous one", "")
    fn = repo.method("_View", "get_indices")
    ok = not A.has_fragments(fn, ["self.data.get_indices()[self.index]", "np.arange(self.nrows)[self.index]"])
    col.add(rule, "_View.get_indices#composition", ok, t.module.loc(fn), "nested views compose their index arrays back to absolute positions", "")
    fn = repo.method("_View", "__getitem__")
    col.add(rule, "_View.__getitem__#restricts", not A.has_fragments(fn, ["self.data[{P1}][self.index]"]), t.module.loc(fn), "a view restricts every column by its index", "")
    cx = fnctx(repo, "Table", "_select_rows")
    ok = not A.has_fragments(cx.fn, ["self._data[{L}][{P1}]"])
    col.add(rule, "Table._select_rows#same-index-every-column", ok, cx.loc(cx.fn), "one index array is applied to every column", "")
    # dispatch of _get_row_indices
    cx = fnctx(repo, "Table", "_get_row_indices")
    rp = A.params(cx.fn)[1]
    ok = not A.has_fragments(cx.fn, ["return self._get_regexp_indices({P1})", "np.where({P1})[0]", "return [self._get_row_index({P1})]"])
    col.add(rule, "Table._get_row_indices#dispatch", ok, cx.loc(cx.fn),
            "strings go to the regex selector, boolean masks to np.where, single names/tuples to the row resolver", "")
    def bool_test(t):
        return "dtype" in A.src(t) and "bool" in A.src(t)
    w = cx.call_nodes(lambda c: A.call_name(c) == "np.where" and A.dotted(c.args[0]) == rp)
    col.add(rule, "Table._get_row_indices#mask-branch", bool(w) and has_guard(cx.cfg, w[0], "T", bool_test), cx.loc(cx.fn),
            "np.where(mask) is used exactly for boolean arrays", "")


def _name_spans(col, rule="C08.R7"):
    repo = col.repo
    cx = fnctx(repo, "Table", "_get_row_indices")
    plus1 = [n for n in A.walk(cx.fn) if isinstance(n, ast.Assign) and isinstance(n.value, ast.BinOp) and isinstance(n.value.op, ast.Add) and A.is_const(n.value.right, 1)]
    stops = [n for n in plus1 if "stop" in A.src(n) or True]
    roles = {}
    for n in A.walk(cx.fn):
        if isinstance(n, ast.Assign) and isinstance(n.value, ast.Attribute) and n.value.attr in ("start", "stop"):
            roles[A.target_names(n.targets[0])[0]] = n.value.attr
    inv = {v: k for k, v in roles.items()}
    ia, ib = inv.get("start"), inv.get("stop")
    ok_stop = [n for n in plus1 if A.target_names(n.targets[0]) == [ib] and isinstance(n.value.left, ast.Call) and ib in A.names_loaded(n.value.left)]
    bad_start = [n for n in plus1 if A.target_names(n.targets[0]) == [ia]]
    col.add(rule, "Table._get_row_indices#name-span-stop-inclusive", len(ok_stop) >= 1 and not bad_start, cx.loc(cx.fn),
            "the stop name of a span a:b resolves to its position + 1 (inclusive), the start name to its position", "")
    idx = [n for n in A.walk(cx.fn) if isinstance(n, ast.Assign) and A.target_names(n.targets[0]) in ([ia], [ib]) and
           isinstance(n.value, (ast.Call, ast.BinOp)) and "_get_row_index" in A.src(n.value)]
    col.add(rule, "Table._get_row_indices#name-span-through-row-resolver", len(idx) >= 2, cx.loc(cx.fn),
            "span ends given as names resolve through _get_row_index (name::count<<offset forms included)", "")
    rets = [A.src(n.value) for n in A.walk(cx.fn) if isinstance(n, ast.Return)]
    col.add(rule, "Table._get_row_indices#name-span-slice", f"slice({ia}, {ib})" in rets, cx.loc(cx.fn), "a name span becomes slice(start, stop)", "")


def check(col: Collector):
    _none_operands(col)
    _bound_roles(col)
    _table_order(col)
    sub = Collector(col.repo, "C08", col.tier)
    c07._parser(sub, rule="C08.R4")
    for o in sub.obs:
        if "_get_row_cache" in o.construct:
            col.obs.append(o)
    _regex(col)
    _routing(col)
    _name_spans(col)
