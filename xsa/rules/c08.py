"""C08 -- table row selection follows the documented selector semantics, in table order.

The selector `Table._get_row_indices` is read as a set of (conditions, returned term) pairs after normalisation
(helpers inlined, locals dissolved); every rule is a statement about those pairs.
"""
from __future__ import annotations

import ast

from .. import astutil as A
from .. import sym as S
from ..core import AnalysisError, Collector
from .common import SCtx, sctx
from . import c07
from .c07 import DATA, INDEX, tctx

PROP = "C08"
FLOORS = {"C08.R1": 1, "C08.R2": 4, "C08.R3": 2, "C08.R4": 3, "C08.R5": 4, "C08.R6": 7, "C08.R7": 2, "C08.R8": 3}
META = {
    "explanation": "Path-sensitive nullness (a value proved None by the branch condition is never an operand of an ordering "
                   "comparison or arithmetic: package-wide on names, and on symbolic terms in the selector); bound roles in the "
                   "value-range branch (start only as `col >= start`, stop only as `col <= stop`, bounds tested with `is None`, never "
                   "by truthiness: 0 is a legitimate bound); positions gathered in an order other than a scan of the index column are "
                   "sorted before they are returned; absent names are misses on both sibling dictionaries and the name cache is read "
                   "only through the resolver; regex selection is a case-insensitive full match by default; rows[...], "
                   "rows.indices[...] and rows.mask[...] all resolve through Table._get_row_indices (tuples, on every path, left to "
                   "right through _make_view); name spans are inclusive. Value ranges are decided by exact case analysis over given/absent bounds; span ends are resolved exactly when given, on the index column unless a step names another one; the occurrence lookup of `pattern::count` runs exactly when a count is given and the offset is added.",
    "decides": "structural necessary conditions of the selector semantics and of table order",
    "not_decided": "equality with a reference selector on all tables",
    "assumptions": ["numpy comparison/where semantics"],
}

ORDERING = ("<", "<=", ">", ">=")


def _selector_closure(repo):
    """ids of the functions of table.py reachable (by name) from the row-selection entry points"""
    m = repo.module("table")
    fns = {}
    for name, fn in m.functions.items():
        fns.setdefault(name, []).append(fn)
    for c in m.classes.values():
        for name, fn in c.methods.items():
            fns.setdefault(name, []).append(fn)
    todo = []
    for cname, meth in (("_RowView", "__getitem__"), ("Indices", "__getitem__"), ("Mask", "__getitem__"), ("Table", "_get_row_indices"),
                        ("_RowView", "_make_view"), ("Table", "_select_rows")):
        if cname in m.classes and meth in m.classes[cname].methods:
            todo.append(m.classes[cname].methods[meth])
    seen = set()
    while todo:
        fn = todo.pop()
        if id(fn) in seen:
            continue
        seen.add(id(fn))
        for c in A.calls(fn):
            nm = c.func.attr if isinstance(c.func, ast.Attribute) else c.func.id if isinstance(c.func, ast.Name) else None
            if nm and nm.startswith("_") and not nm.startswith("__"):
                todo.extend(fns.get(nm, []))
    return seen


def _none_operands(col, rule="C08.R1"):
    """row-selection code (closure of the selector entry points): a name known to be None (by the enclosing branch condition)
    used as operand of <,<=,>,>=,+,-,*,/"""
    repo = col.repo
    nfun = 0
    hits = 0

    def none_names(test):
        conj = test.values if isinstance(test, ast.BoolOp) and isinstance(test.op, ast.And) else [test]
        out = set()
        for c in conj:
            p = A.compare_parts(c)
            if p and isinstance(p[1], ast.Is) and A.is_none(p[2]) and isinstance(p[0], ast.Name):
                out.add(p[0].id)
        return out

    def not_none_single(test):
        p = A.compare_parts(test)
        if p and isinstance(p[1], ast.IsNot) and A.is_none(p[2]) and isinstance(p[0], ast.Name):
            return {p[0].id}
        return set()

    def scan(body, names, m, q):
        nonlocal hits
        assigned = set()
        for st in body:
            assigned |= A.names_stored(st)
        live = names - assigned
        if not live:
            return
        for st in body:
            for n in A.walk(st):
                ops = []
                if isinstance(n, ast.Compare):
                    seq = [n.left] + n.comparators
                    for i, o in enumerate(n.ops):
                        if isinstance(o, (ast.Lt, ast.LtE, ast.Gt, ast.GtE)):
                            ops += [seq[i], seq[i + 1]]
                elif isinstance(n, ast.BinOp):
                    ops = [n.left, n.right]
                for o in ops:
                    if isinstance(o, ast.Name) and o.id in live:
                        hits += 1
                        col.fail(rule, f"{q}#None-operand:{o.id}", m.loc(n),
                                 "a name that the branch condition proves to be None is not used as an operand of an ordering "
                                 "comparison or arithmetic (TypeError at run time)", f"`{A.src(n)}` under a branch where {o.id} is None")

    scope = _selector_closure(repo)
    for m, c, fn in repo.all_functions():
        if id(fn) not in scope:
            continue
        nfun += 1
        q = f"{c.name}.{fn.name}" if c else fn.name
        for n in A.walk(fn):
            if isinstance(n, ast.If):
                scan(n.body, none_names(n.test), m, q)
                if n.orelse:
                    scan(n.orelse, not_none_single(n.test), m, q)
    col.count("functions_scanned_for_None_operands", nfun)
    # the same on symbolic terms of the selector (through helpers and temporaries)
    sx = tctx(repo, "_get_row_indices")
    for r in sx.of_kind("return"):
        nones = {c[2] for c in sx.conds(r.nid) if c[:1] == ("cmp",) and c[1] == "is" and c[3] == ("const", "None")}
        for s_ in S.subterms(r.value):
            if s_[:1] == ("cmp",) and s_[1] in ORDERING:
                for operand in (s_[2], s_[3]):
                    if operand in nones:
                        hits += 1
                        col.fail(rule, f"Table._get_row_indices#None-operand:{S.show(operand, False)}", sx.loc(r),
                                 "a value that the branch conditions prove to be None is not used as an operand of an ordering comparison",
                                 f"`{S.show(s_)}` under {[S.show(c) for c in sx.conds(r.nid) if c[:1] == ('cmp',) and c[1] == 'is']}")
    if hits == 0:
        col.ok(rule, "selector#no-definitely-None-operand", "xdeps/table.py", f"no definitely-None operand in the {nfun} functions of the row selector", "")


def _selector(col):
    sx = tctx(col.repo, "_get_row_indices")
    row = sx.P(0)
    return sx, row, ("attr", row, "start"), ("attr", row, "stop"), ("attr", row, "step")


def _bound_roles(col, rule="C08.R2"):
    sx, row, start, stop, step = _selector(col)
    column = ("sub", DATA, step)
    rets = sx.of_kind("return")
    uses = {start: [], stop: []}
    both = False
    open_all = False
    for r in rets:
        for s_ in S.subterms(r.value):
            if s_[:1] == ("cmp",) and s_[1] in ORDERING:
                flip = {"<": ">", "<=": ">=", ">": "<", ">=": "<="}
                for b in (start, stop):
                    if s_[3] == b:
                        uses[b].append((s_[1], s_[2] == column, S.show(s_)))
                    elif s_[2] == b:
                        uses[b].append((flip[s_[1]], s_[3] == column, S.show(s_)))
            if s_[:1] == ("op",) and s_[1] == "&" and S.contains(s_, lambda t: t == start) and S.contains(s_, lambda t: t == stop):
                both = True
        cs = sx.conds(r.nid)
        if r.value in (S.fcall("slice", ("const", "None")), S.fcall("slice", ("const", "None"), ("const", "None"), ("const", "None"))) \
                and ("cmp", "is", start, ("const", "None")) in cs and ("cmp", "is", stop, ("const", "None")) in cs:
            open_all = True
    if not uses[start] and not uses[stop]:
        raise AnalysisError("Table._get_row_indices: no comparison of a column with the slice bounds found (cannot decide)")
    # truthiness tests on the bounds anywhere in the selector
    bad = []
    for n in sx.cfg.nodes.values():
        if n.kind == "test":
            t = sx.sym.of(n.ast, n.id)
            for c in S.conjuncts(S.norm_cond(True, t)) + S.conjuncts(S.norm_cond(False, t)):
                parts = list(c[2]) if c[:1] == ("bool",) else [c]
                for p in parts:
                    if p in (start, stop) or (p[:1] == ("uop",) and p[1] == "not" and p[2] in (start, stop)):
                        bad.append(S.show(p))
    col.add(rule, "Table._get_row_indices#bounds-tested-with-is-None", not bad, sx.loc(sx.fn),
            "range bounds are tested with `is None`, never by truthiness (0 and 0.0 are legitimate bounds)", str(sorted(set(bad))))
    col.add(rule, "Table._get_row_indices#start-is-inclusive-lower-bound", bool(uses[start]) and all(o == ">=" and c for o, c, _ in uses[start]), sx.loc(sx.fn),
            "the start of a value range is used only as `self._data[step] >= start`", str([u[2] for u in uses[start]]))
    col.add(rule, "Table._get_row_indices#stop-is-inclusive-upper-bound", bool(uses[stop]) and all(o == "<=" and c for o, c, _ in uses[stop]), sx.loc(sx.fn),
            "the stop of a value range is used only as `self._data[step] <= stop`", str([u[2] for u in uses[stop]]))
    col.add(rule, "Table._get_row_indices#both-bounds-conjunction", both, sx.loc(sx.fn), "with both bounds given the two conditions are and-ed", "")
    col.add(rule, "Table._get_row_indices#open-range-selects-all", open_all, sx.loc(sx.fn), "a range with neither bound selects every row", "")
    # inside the value-range branch the bounds reach the result through those comparisons only (no bisection / arithmetic on them:
    # `lo <= col <= hi` is a statement about every row, whatever the order of the column)
    region = S.fcall("isinstance", step, ("glob", "str"))

    def strip(t):
        if not isinstance(t, tuple):
            return t
        if t[:1] == ("cmp",) and len(t) == 4 and t[1] in ORDERING and ((t[2] == column and t[3] in (start, stop)) or (t[3] == column and t[2] in (start, stop))):
            return ("const", "<cmp>")
        return tuple(strip(x) for x in t)
    other = []
    for r in rets:
        if region not in sx.conds(r.nid):
            continue
        rest = strip(r.value)
        for b in (start, stop):
            if any(x == b for x in S.subterms(rest)):
                other.append(f"{S.show(b, False)} in {S.show(r.value)[:120]}")
    col.add(rule, "Table._get_row_indices#bounds-only-compared-with-the-column", not other, sx.loc(sx.fn),
            "in a value range the bounds are used for nothing but the element-wise comparisons with the column", "; ".join(other))
    # the four cases (start given or not) x (stop given or not), decided exactly: under each case that can reach a return of the
    # value-range branch, the bounds compared there are the bounds that are given
    def ev3(c, A, B):
        """three-valued evaluation of a condition over the atoms A = `start is None`, B = `stop is None`"""
        for b, val in ((start, A), (stop, B)):
            if c == ("cmp", "is", b, ("const", "None")):
                return val
            if c == ("cmp", "is not", b, ("const", "None")):
                return not val
        if c[:2] == ("uop", "not"):
            v = ev3(c[2], A, B)
            return None if v is None else not v
        if c[:1] == ("bool",):
            vs = [ev3(x, A, B) for x in c[2]]
            if c[1] == "and":
                return False if False in vs else (None if None in vs else True)
            return True if True in vs else (None if None in vs else False)
        return None
    covered = set()
    for r in rets:
        cs = sx.conds(r.nid)
        if region not in cs:
            continue
        compared = {b for s_ in S.subterms(r.value) if s_[:1] == ("cmp",) and s_[1] in ORDERING for b in (start, stop) if b in (s_[2], s_[3])}
        for A in (True, False):
            for B in (True, False):
                if any(ev3(c, A, B) is False for c in cs):
                    continue
                covered.add((A, B))
                given = {b for b, isnone in ((start, A), (stop, B)) if not isnone}
                col.add(rule, f"Table._get_row_indices#range-case:start-{'absent' if A else 'given'},stop-{'absent' if B else 'given'}", compared == given, sx.loc(r),
                        "in a value range lo:hi:'col' the column is compared with exactly the bounds that are given (both: lo <= col <= hi; "
                        "one: that side only; none: every row)", f"compares {sorted(S.show(b, False) for b in compared)}: {S.show(r.value)[:80]}")
    if len(covered) != 4:
        col.add(rule, "Table._get_row_indices#range-cases-all-handled", False, sx.loc(sx.fn),
                "each combination of given/absent bounds reaches a return of the value-range branch", f"handled: {sorted(covered)}")
    # np.where(mask) is a 1-tuple of position arrays: the positions are its element 0
    nw = 0
    for r in rets:
        for t in S.subterms(r.value):
            if t[:1] == ("sub",) and S.is_call_of(t[1], ("attr", ("glob", "np"), "where")) and len(t[1][2]) == 1 and t[2][:1] == ("const",):
                nw += 1
                col.add(rule, f"Table._get_row_indices#positions-of-np.where:{nw}", t[2] == ("const", "0"), sx.loc(r),
                        "the row positions of a mask are np.where(mask)[0]", S.show(t)[:80])
    col.count("np_where_sites", nw)
    # one-sided ranges use the bound that is present
    for r in rets:
        cs = sx.conds(r.nid)
        for b, other in ((start, stop), (stop, start)):
            if ("cmp", "is", other, ("const", "None")) in cs and ("cmp", "is not", b, ("const", "None")) in cs:
                used = [s_ for s_ in S.subterms(r.value) if s_[:1] == ("cmp",) and s_[1] in ORDERING]
                ok = bool(used) and all(b in (s_[2], s_[3]) for s_ in used)
                col.add(rule, f"Table._get_row_indices#one-sided:{S.show(b, False)}", ok, sx.loc(r),
                        "a one-sided range compares the column with the bound that was given", S.show(r.value)[:100])


def _positions_lists(t):
    """acc-list instances inside a returned index-array term"""
    return [s_ for s_ in S.subterms(t) if s_[:1] == ("acc",) and s_[1] == "list"]


def _table_order(col, rule="C08.R3"):
    repo = col.repo
    sx = tctx(repo, "_get_regexp_indices")
    rets = sx.of_kind("return")
    if not rets:
        raise AnalysisError("Table._get_regexp_indices: no return")
    col_scan = ("index", ("sub", DATA, INDEX))
    ok_sorted, facts, scans, offset_ok = True, [], 0, True
    final = rets[-1]
    for r in rets:
        for inst in S.instances(r.value, 16):
            wrapped = S.contains(inst, lambda t: S.is_call_of(t, ("glob", "sorted")) or S.is_call_of(t, ("attr", ("glob", "np"), "sort")))
            for lst in _positions_lists(inst):
                unsorted_since = None
                for c in lst[2]:
                    if c[0] == "reorder" and c[2] == ("const", repr("sort")):
                        unsorted_since = None
                    elif c[0] in ("one", "many"):
                        if c[2] == col_scan:
                            scans += 1
                            # the scan is filtered by the match only
                            continue
                        unsorted_since = c
                if unsorted_since is not None and not wrapped:
                    ok_sorted = False
                    facts.append(f"positions {S.show(unsorted_since[2])[:80]} are returned in the order they were gathered")
    col.add(rule, "Table._get_regexp_indices#count-branch-in-table-order", ok_sorted, sx.loc(final),
            "row positions gathered name by name (or in any order other than a scan of the index column) are sorted before they are "
            "returned: rows come back in table order, independent of the hash seed", "; ".join(facts[:2]))
    col.add(rule, "Table._get_regexp_indices#scan-in-table-order", scans >= 1, sx.loc(sx.fn),
            "without a count the matching rows are collected by one scan of the index column, in order", "")
    off = ("item", S.mcall(S.SELF, "_split_name_count_offset", sx.P(0)), 2)
    offset_ok = all(S.match(a, ("op", "+", S.ANY, off)) is not None or S.contains(a, lambda t: t == off) for a in S.alts(final.value))
    for a in S.alts(final.value):
        mo = S.match(a, ("op", S.V("o"), S.ANY, off))
        if mo is not None and mo["o"] != "+":
            offset_ok = False       # the parser already gave `<<k` a negative sign: the offset is added
    # the occurrence lookups happen exactly when a count was given
    cnt = ("item", S.mcall(S.SELF, "_split_name_count_offset", sx.P(0)), 1)
    given, not_given = ("cmp", "is not", cnt, ("const", "None")), ("cmp", "is", cnt, ("const", "None"))
    for ev, m in sx.calls_some(("call", ("attr", S.SELF, "_get_row_cache"), S.V("a"), S.V("k"))):
        if len(m["a"]) >= 2 and m["a"][1] == cnt:
            conds = sx.conds(ev.nid)
            if given in conds or not_given in conds:
                col.add(rule, f"Table._get_regexp_indices#occurrence-lookup-when-count-given:{S.show(m['a'][0], False)[:30]}", given in conds, sx.loc(ev),
                        "`pattern::count` looks up that occurrence of the matching names exactly when a count was given (without one, every "
                        "matching row is selected)", str([S.show(c) for c in conds]))
    counts = [sum(1 for t in S.subterms(a) if t == off) for a in S.instances(final.value, 16)]
    col.add(rule, "Table._get_regexp_indices#offset-applied-once", all(n <= 1 for n in counts), sx.loc(final),
            "the shift is applied once: either the occurrence lookup takes it or the result is shifted, not both",
            f"occurrences of the parsed offset in what is returned: {counts}")
    col.add(rule, "Table._get_regexp_indices#offset-applied", offset_ok, sx.loc(final),
            "the `<<`/`>>` offset shifts every selected position", S.show(final.value)[-60:])


def _regex(col, rule="C08.R5"):
    repo = col.repo
    from .c14 import ctor_kwargs as c14_ctor_kwargs
    sx = tctx(repo, "_get_regexp_indices")
    flags = S.sattr("_regex_flags")
    matchers, bad = [], []
    for ev in sx.events:
        tms = [ev.term] if ev.kind == "call" else [x for x in (ev.value,) if x is not None]
        for n in sx.cfg.nodes.values():
            pass
        for tm in tms:
            for s_ in S.subterms(tm):
                if S.is_call_of(s_) and s_[1][:1] == ("attr",) and s_[1][2] in ("fullmatch", "match", "search", "findall"):
                    matchers.append(s_)
    for n in sx.cfg.nodes.values():
        if n.kind == "test":
            for s_ in S.subterms(sx.sym.of(n.ast, n.id)):
                if S.is_call_of(s_) and s_[1][:1] == ("attr",) and s_[1][2] in ("fullmatch", "match", "search", "findall"):
                    matchers.append(s_)
    if not matchers:
        raise AnalysisError("Table._get_regexp_indices: no regular-expression match found (cannot decide)")
    full = all(m[1][2] == "fullmatch" for m in matchers)
    with_flags = True
    for m in matchers:
        recv = m[1][1]
        if S.is_call_of(recv, ("attr", ("glob", "re"), "compile")):
            with_flags = with_flags and dict(recv[3]).get("flags") == flags or (len(recv[2]) == 2 and recv[2][1] == flags)
        elif recv == ("glob", "re"):
            with_flags = with_flags and (dict(m[3]).get("flags") == flags or (len(m[2]) == 3 and m[2][2] == flags))
        else:
            with_flags = False
    col.add(rule, "Table._get_regexp_indices#compiled-with-table-flags", with_flags, sx.loc(sx.fn), "the pattern is compiled with the table's regex flags", "")
    col.add(rule, "Table._get_regexp_indices#full-match", full, sx.loc(sx.fn),
            "a name is selected only if the whole name matches the pattern", str(sorted({m[1][2] for m in matchers})))
    init = repo.method("Table", "__init__")
    d = A.param_defaults(init).get("regex_flags")
    col.add(rule, "Table.__init__#case-insensitive-by-default", A.src(d) == "re.IGNORECASE", repo.cls("Table").module.loc(init),
            "the default regex flags are re.IGNORECASE", A.src(d))
    isx = tctx(repo, "__init__")
    fl = isx.pnamed("regex_flags") if "regex_flags" in isx.sym.params else None
    stored = False
    for ev in isx.events:
        for tm in ([ev.term] if ev.kind == "call" else [x for x in (ev.value,) if x is not None]):
            for s_ in S.subterms(tm):
                if s_[:1] == ("dict",) and dict(s_[1]).get(("const", repr("_regex_flags"))) == fl:
                    stored = True
                if s_[:1] == ("acc",) and any(c[0] == "kv" and c[2] == ("const", repr("_regex_flags")) and c[3] == fl for c in s_[2]):
                    stored = True
        if ev.kind == "call" and S.match(ev.term, ("call", c07.OBJ_SETATTR, (S.SELF, ("const", repr("_regex_flags")), fl), ())) is not None:
            stored = True
    col.add(rule, "Table.__init__#flags-stored", stored and fl is not None, repo.cls("Table").module.loc(init), "the flags given are the flags used", "")
    for meth in ("_select", "_select_rows", "_select_cols"):
        msx = tctx(repo, meth)
        ok = False
        rets = msx.of_kind("return")
        for r in rets:
            for a in S.alts(r.value):
                if S.is_call_of(a) and c14_ctor_kwargs(repo, a).get("regex_flags") == flags:
                    ok = True
        col.add(rule, f"Table.{meth}#flags-inherited", ok, msx.loc(msx.fn), "a derived table keeps the regex flags", "")


def _routing(col, rule="C08.R6"):
    repo = col.repo
    tab = S.sattr("table")
    # rows[...]
    sx = tctx(repo, "__getitem__", "_RowView")
    rows = sx.P(0)
    rets = sx.of_kind("return")
    via = (("sub", S.sattr("indices"), rows), S.mcall(tab, "_get_row_indices", rows), ("sub", ("attr", ("attr", tab, "rows"), "indices"), rows))
    ok = bool(rets)
    for r in rets:
        for a in S.instances(r.value):
            m = S.match(a, S.mcall(tab, "_select_rows", S.V("i")))
            ok = ok and m is not None and m["i"] in via
    col.add(rule, "_RowView.__getitem__#single-selector", ok, sx.loc(sx.fn),
            "rows[...] resolves through Table._get_row_indices (tuples through rows.indices) and selects with _select_rows",
            S.show(rets[0].value)[:120] if rets else "")
    # rows.indices[...]
    sx = tctx(repo, "__getitem__", "Indices")
    rows = sx.P(0)
    is_tuple = S.fcall("isinstance", rows, ("glob", "tuple"))
    view = ("call", ("attr", ("attr", tab, "rows"), "_make_view"), (("uop", "*", rows),), ())
    sel = S.mcall(tab, "_get_row_indices", rows)
    ok, facts = True, []
    n_tuple = n_single = 0
    cases = []
    for r in sx.of_kind("return"):
        if r.value[:1] == ("alt",):
            # single-exit style: one `return result`; each value with the conditions of the assignment it came from
            node = sx.cfg.nodes[r.nid].ast
            try:
                gv = sx.guarded_values(node.value, r.nid) if getattr(node, "value", None) is not None else []
            except Exception:
                gv = []
            if gv:
                cases.extend((v, tuple(sx.conds(r.nid)) + tuple(cs_)) for v, cs_ in gv)
                continue
        cases.append((r.value, tuple(sx.conds(r.nid))))
    for val, cs in cases:
        tuple_branch = any(c == is_tuple or (c[:1] == ("bool",) and is_tuple in c[2]) for c in cs)
        if tuple_branch:
            n_tuple += 1
            if val != S.mcall(("attr", view, "_data"), "get_indices"):
                ok = False
                facts.append(f"a tuple of selectors returns {S.show(val)[:80]}")
        else:
            n_single += 1
            if val not in (sel, ("sub", S.fcall(("attr", ("glob", "np"), "arange"), S.fcall("len", tab)), sel)):
                ok = False
                facts.append(f"a single selector returns {S.show(val)[:80]}")
    col.add(rule, "Indices.__getitem__#single-selector", ok and n_tuple >= 1 and n_single >= 1, sx.loc(sx.fn),
            "rows.indices[...] resolves through the same selector; slices are expanded over the table length; tuples, on every path, "
            "through _make_view (each selector applied to the rows left by the previous one)", "; ".join(facts))
    # rows.mask[...]
    sx = tctx(repo, "__getitem__", "Mask")
    rows = sx.P(0)
    zeros = S.fcall(("attr", ("glob", "np"), "zeros"), S.fcall("len", tab), dtype=("glob", "bool"))
    idx = ("sub", ("attr", ("attr", tab, "rows"), "indices"), rows)
    st = [e for e in sx.of_kind("store") if e.target == ("sub", zeros, idx) and e.value == ("const", "True")]
    rets = sx.of_kind("return")
    col.add(rule, "Mask.__getitem__#from-indices", bool(st) and bool(rets) and all(r.value == zeros for r in rets), sx.loc(sx.fn),
            "rows.mask[...] marks exactly the positions rows.indices[...] returns", "")
    # _make_view: left to right, each selector on the table produced by the previous one
    sx = tctx(repo, "_make_view", "_RowView")
    va = [t for t in sx.sym.params.values() if t[:1] == ("param",) and t[2].startswith("*")]
    sel_calls = sx.calls_some(("call", ("attr", S.V("t"), "_get_row_indices"), (S.V("r"),), ()))
    ok = bool(va) and len(sel_calls) == 1
    if ok:
        ev, m = sel_calls[0]
        carried = any(a[:1] == ("rec",) or S.contains(a, lambda t: t[:1] == ("rec",)) for a in S.alts(m["t"])) or len(S.alts(m["t"])) > 1
        ok = m["r"] == ("elem", va[0]) and sx.sym.loops(ev.nid) == (va[0],) and carried and not sx.conds(ev.nid)
    views = sx.calls_some(("call", ("glob", "_View"), S.V("a"), S.ANY))
    ok = ok and len(views) == 1 and S.call_args(views[0][0].term, ("data", "index", "nrows")) is not None
    col.add(rule, "_RowView._make_view#left-to-right", ok, sx.loc(sx.fn),
            "a tuple of selectors is applied left to right, each to the table produced by the previous one", "")
    sx = tctx(repo, "get_indices", "_View")
    want = {("sub", S.mcall(S.sattr("data"), "get_indices"), S.sattr("index")),
            ("sub", S.fcall(("attr", ("glob", "np"), "arange"), S.sattr("nrows")), S.sattr("index"))}
    got = {a for r in sx.of_kind("return") for a in S.alts(r.value)}
    col.add(rule, "_View.get_indices#composition", got == want, sx.loc(sx.fn), "nested views compose their index arrays back to absolute positions",
            str([S.show(g) for g in got]))
    sx = tctx(repo, "__getitem__", "_View")
    got = [r.value for r in sx.of_kind("return")]
    col.add(rule, "_View.__getitem__#restricts", bool(got) and all(g == ("sub", ("sub", S.sattr("data"), sx.P(0)), S.sattr("index")) for g in got), sx.loc(sx.fn),
            "a view restricts every column by its index", "")
    sx = tctx(repo, "_select_rows")
    rows = sx.P(0)
    names = S.sattr("_col_names")
    ok = False
    for r in sx.of_kind("return"):
        for a in S.alts(r.value):
            if S.is_call_of(a) and a[2] and a[2][0][:1] == ("acc",):
                for c in a[2][0][2]:
                    if c[0] == "kv" and c[2] == ("elem", names) and c[3] == ("sub", ("sub", DATA, ("elem", names)), rows) and not c[1]:
                        ok = True
    col.add(rule, "Table._select_rows#same-index-every-column", ok, sx.loc(sx.fn), "one index array is applied to every column", "")
    # dispatch of _get_row_indices
    sx, row, start, stop, step = _selector(col)
    by = {}
    for r in sx.of_kind("return"):
        for c in sx.conds(r.nid):
            if c == S.fcall("isinstance", row, ("glob", "str")):
                by.setdefault("str", []).append(r.value)
            if S.contains(c, lambda t: t == ("attr", ("attr", S.fcall(("attr", ("glob", "np"), "array"), row), "dtype"), "kind")) is False and \
                    c[:1] == ("cmp",) and c[1] == "is" and S.contains(c, lambda t: S.is_call_of(t, ("attr", ("glob", "np"), "dtype")) or _is_dtype_const(sx, t)):
                by.setdefault("bool", []).append(r.value)
    ok = by.get("str") == [S.mcall(S.SELF, "_get_regexp_indices", row)] and \
        bool(by.get("bool")) and all(S.match(v, ("sub", S.fcall(("attr", ("glob", "np"), "where"), S.V("m")), ("const", "0"))) is not None for v in by["bool"])
    single = [r.value for r in sx.of_kind("return") if r.value == ("list", (S.mcall(S.SELF, "_get_row_index", row),))]
    col.add(rule, "Table._get_row_indices#dispatch", ok and bool(single), sx.loc(sx.fn),
            "strings go to the regex selector, boolean masks to np.where, single names/tuples to the row resolver",
            str({k: [S.show(x)[:50] for x in v] for k, v in by.items()}))


def _is_dtype_const(sx, t) -> bool:
    """a module-level constant `X = np.dtype(..)` named in a condition is that dtype object"""
    if t[:1] != ("glob",):
        return False
    cv = getattr(sx.cx.module, "consts", {}).get(t[1])
    return isinstance(cv, ast.Call) and (A.dotted(cv.func) or "") in ("np.dtype", "numpy.dtype")


def _name_spans(col, rule="C08.R7"):
    sx, row, start, stop, step = _selector(col)
    spans = []
    for r in sx.of_kind("return"):
        m = S.match(r.value, S.fcall("slice", S.V("a"), S.V("b")))
        if m is not None and any(S.contains(c, lambda t: t == S.fcall("isinstance", start, ("glob", "str"))) for c in sx.conds(r.nid)):
            spans.append((r, m))
    if not spans:
        raise AnalysisError("Table._get_row_indices: name-span branch `slice(start, stop)` not recognised (cannot decide)")
    col_ = ("sub", DATA, step)
    for r, m in spans:
        NONE = ("const", "None")
        a_ok = all(a in (start, NONE, S.mcall(S.SELF, "_get_row_index", start), S.mcall(S.SELF, "_get_row_where_col", col_, start)) for a in S.instances(m["a"]))
        b_ok = all(b in (stop, NONE, ("op", "+", S.mcall(S.SELF, "_get_row_index", stop), ("const", "1")),
                         ("op", "+", S.mcall(S.SELF, "_get_row_where_col", col_, stop), ("const", "1"))) for b in S.instances(m["b"]))
        col.add(rule, "Table._get_row_indices#name-span-stop-inclusive", a_ok and b_ok, sx.loc(r),
                "the stop name of a span a:b resolves to its position + 1 (inclusive), the start name to its position",
                f"slice({S.show(m['a'])[:80]}, {S.show(m['b'])[:80]})")
        through = any(a == S.mcall(S.SELF, "_get_row_index", start) for a in S.instances(m["a"])) and \
            any(b == ("op", "+", S.mcall(S.SELF, "_get_row_index", stop), ("const", "1")) for b in S.instances(m["b"]))
        col.add(rule, "Table._get_row_indices#name-span-through-row-resolver", through, sx.loc(r),
                "span ends given as names resolve through _get_row_index (name::count<<offset forms included)", "")


def _name_span_guards(col, rule="C08.R7"):
    """an end of a name span is resolved exactly when it is given, by the index resolver when the span is on the index column (no step or
    step == index) and by the column search otherwise"""
    sx, row, start, stop, step = _selector(col)
    NONE = ("const", "None")
    on_index = {("cmp", "is", step, NONE), ("cmp", "==", step, INDEX)}
    for ev in sx.of_kind("call"):
        t = ev.term
        if not (t[:1] == ("call",) and t[1][:1] == ("attr",) and t[1][1] == S.SELF and t[1][2] in ("_get_row_index", "_get_row_where_col") and t[2]):
            continue
        end = t[2][-1]
        if end not in (start, stop):
            continue
        cs = sx.conds(ev.nid)
        given, absent = ("cmp", "is not", end, NONE), ("cmp", "is", end, NONE)
        if given in cs or absent in cs:
            col.add(rule, f"Table._get_row_indices#span-end-resolved-when-given:{t[1][2]}({S.show(end, False)})", given in cs, sx.loc(ev),
                    "an end of a name span is resolved when it is given (an absent end stays None: open span)", str([S.show(c) for c in cs][:3]))
        routing = [c for c in cs if (c[:2] == ("bool", "or") and set(c[2]) == on_index)]
        anti = [c for c in cs if c in (("cmp", "is not", step, NONE), ("cmp", "!=", step, INDEX))]
        if routing or anti:
            want_index = t[1][2] == "_get_row_index"
            col.add(rule, f"Table._get_row_indices#span-on-{'index' if want_index else 'other'}-column:{S.show(end, False)}",
                    bool(routing) == want_index and (len(anti) == 2) == (not want_index), sx.loc(ev),
                    "a:b (or a:b:<index column>) resolves the names on the index column, a:b:'col' searches that column", str([S.show(c) for c in cs][:3]))


def _span_on_named_column(col, rule="C08.R7"):
    """string bounds with a step naming a column (`'a':'b':'col'`) are a span between the first rows holding those names in that
    column (the index resolver when the column is the index column) -- not an alphabetical value range"""
    sx, row, start, stop, step = _selector(col)
    if not col.repo.has_method("Table", "_get_row_where_col"):
        raise AnalysisError("Table._get_row_where_col not found -- cannot decide")
    calls = [ev for ev in sx.of_kind("call") if ev.term[:1] == ("call",) and ev.term[1][:1] == ("attr",) and ev.term[1][1] == S.SELF
             and ev.term[1][2] == "_get_row_where_col" and ev.term[2] and ev.term[2][-1] in (start, stop)]
    ends = {ev.term[2][-1] for ev in calls}
    col.add(rule, "Table._get_row_indices#span-on-a-named-column", ends == {start, stop}, sx.loc(calls[0]) if calls else sx.loc(sx.fn),
            "both ends of a:b:'col' given as names are looked up in that column", f"ends looked up in the named column: {[S.show(e, False) for e in ends]}")
    idx = [ev for ev in sx.of_kind("call") if ev.term[:1] == ("call",) and ev.term[1][:1] == ("attr",) and ev.term[1][1] == S.SELF
           and ev.term[1][2] == "_get_row_index" and ev.term[2] and ev.term[2][-1] in (start, stop)]
    on_index = ("cmp", "==", step, INDEX)
    reach = [ev for ev in idx if not any(c in (("cmp", "is", step, ("const", "None")),) for c in sx.conds(ev.nid))
             or any(c[:2] == ("bool", "or") and on_index in c[2] for c in sx.conds(ev.nid))]
    col.add(rule, "Table._get_row_indices#span-with-the-index-column-named", bool(reach), sx.loc(idx[0]) if idx else sx.loc(sx.fn),
            "a:b:<index column> is the span a:b (the index resolver is reached when the step names the index column)", "")


def _empty_selection(col, rule="C08.R6"):
    """an empty list selects no row: what is returned for it must be usable as an index array (integer dtype); numpy converts `[]` to
    float64, which cannot index"""
    sx, row, start, stop, step = _selector(col)
    n = 0
    for r in sx.of_kind("return"):
        cs = sx.conds(r.nid)
        empty = [c for c in cs if c[:1] == ("cmp",) and c[1] == "==" and c[3] == ("const", "0") and
                 (S.is_call_of(c[2], ("glob", "len")) or (c[2][:1] == ("attr",) and c[2][2] == "size"))]
        empty += [c for c in cs if c[:1] == ("empty",)]
        if not empty:
            continue
        n += 1
        bad = []
        for a in S.alts(r.value):
            conv = a == row or (S.is_call_of(a) and a[1][:1] == ("attr",) and a[1][2] in ("array", "asarray", "asanyarray") and a[2][:1] == (row,)
                                and "dtype" not in dict(a[3]))
            if conv:
                bad.append(S.show(a)[:60])
        col.add(rule, "Table._get_row_indices#empty-list-gives-an-integer-index", not bad, sx.loc(r),
                "the empty selection is returned as an integer index array (not as the converted input: np.asarray([]) is float64)", "; ".join(bad))
    col.count("empty_selection_returns", n)


def check(col: Collector):
    with col.rule():
        _empty_selection(col)
    with col.rule():
        _name_span_guards(col)
    with col.rule():
        _span_on_named_column(col)
    with col.rule():
        _none_operands(col)
    with col.rule():
        _bound_roles(col)
    with col.rule():
        _table_order(col)
    sub = Collector(col.repo, "C08", col.tier)
    with col.rule():
        c07._parser(sub, rule="C08.R4")
    with col.rule():
        c07._entry_points(sub, rule="C08.R4")
    for o in sub.obs:
        if "_get_row_cache" in o.construct or o.construct.endswith("#cache-read-only-through-resolver"):
            col.obs.append(o)
    with col.rule():
        _regex(col)
    with col.rule():
        _routing(col)
    with col.rule():
        _name_spans(col)
    from .common import shared
    with col.rule():
        shared(col, "C08.R8", [c07._make_cache],
               why="'name::count', name spans and name lists resolve through the (name, occurrence) -> row cache: occurrences must be "
                   "numbered by a scan of the index column in table order")
