"""Traversal template of xdeps.sorting.toposort/_dfs (shared by C01.R3, C02.R2, C13).

Accepted templates for the DFS worker: (R) recursive, (I) explicit stack with one
iterator per frame.  Anything else is *cannot decide* (AnalysisError).
Each obligation is a necessary condition of "reverse post-order DFS with a
grow-only visited set": breaking it gives duplicated, missing or mis-ordered
vertices on some graph.
"""
from __future__ import annotations

import ast
from typing import List, Optional

from .. import astutil as A
from ..core import AnalysisError, Collector
from .common import FnCtx, fnctx, has_guard


def _not_in(test, var: str, coll: str) -> bool:
    p = A.compare_parts(test)
    return bool(p and isinstance(p[1], ast.NotIn) and A.dotted(p[0]) == var and A.dotted(p[2]) == coll)


def _in(test, var: str, coll: str) -> bool:
    p = A.compare_parts(test)
    return bool(p and isinstance(p[1], ast.In) and A.dotted(p[0]) == var and A.dotted(p[2]) == coll)


def guarded_unvisited(cx: FnCtx, nid: int, var: str, visited: str) -> bool:
    return (has_guard(cx.cfg, nid, "T", lambda t: _not_in(t, var, visited))
            or has_guard(cx.cfg, nid, "F", lambda t: _in(t, var, visited))
            or has_guard(cx.cfg, nid, "F", lambda t: isinstance(t, ast.UnaryOp) and isinstance(t.op, ast.Not)
                         and _not_in(t.operand, var, visited)))


def _neighbours_of(expr, graph: str) -> Optional[str]:
    """name v if expr is graph.get(v, ...)/graph[v]/iter(...) of those"""
    if isinstance(expr, ast.Call) and A.call_name(expr) in ("iter", "list", "tuple") and expr.args:
        return _neighbours_of(expr.args[0], graph)
    if isinstance(expr, ast.Call) and isinstance(expr.func, ast.Attribute) and expr.func.attr == "get" \
            and A.dotted(expr.func.value) == graph and expr.args:
        return A.dotted(expr.args[0])
    if isinstance(expr, ast.Subscript) and A.dotted(expr.value) == graph:
        return A.dotted(expr.slice)
    return None


def check_toposort(col: Collector, rule: str):
    repo = col.repo
    top = fnctx(repo, None, "toposort", "sorting")
    m = top.module
    P = A.params(top.fn)
    if len(P) < 2:
        raise AnalysisError("sorting.toposort: expected (graph, start) parameters")
    graph_p, start_p = P[0], P[1]
    cfg = top.cfg

    # --- the worker call(s)
    worker_calls = []
    for nid in cfg.find(lambda x: isinstance(x, ast.Call) and isinstance(x.func, ast.Name) and x.func.id in m.functions
                        and x.func.id != "reduce"):
        for c in top.calls_at(nid, lambda c: isinstance(c.func, ast.Name) and c.func.id in m.functions):
            worker_calls.append((nid, c))
    if not worker_calls:
        raise AnalysisError("sorting.toposort: no call to a module-level DFS worker found (unrecognised shape)")
    worker_name = worker_calls[0][1].func.id
    for nid, c in worker_calls:
        if len(c.args) != 4:
            raise AnalysisError("sorting.toposort: worker call does not have (graph, vertex, out, visited) arguments")
    nid, c = worker_calls[0]
    g_a, v_a, out_a, vis_a = [A.dotted(a) for a in c.args]
    col.add(rule, "sorting.toposort#worker-graph-arg", g_a == graph_p, top.loc(nid),
            "the DFS worker traverses the graph passed to toposort", f"worker called with graph={g_a}, parameter is {graph_p}")
    # outer loop: for vertex in start, guarded by `vertex not in visited`
    loop_ok = False
    for g in cfg.guards(nid):
        if g.kind == "T" and isinstance(g.ast, ast.For) and A.dotted(g.ast.iter) == start_p and A.target_names(g.ast.target) == [v_a]:
            loop_ok = True
    col.add(rule, "sorting.toposort#iterates-start", loop_ok, top.loc(nid),
            "every vertex of `start` is offered to the DFS worker (one loop over the start collection)",
            f"worker call guards: {[A.src(g.ast)[:40] for g in cfg.guards(nid)]}")
    col.add(rule, "sorting.toposort#start-vertex-unvisited-guard", guarded_unvisited(top, nid, v_a, vis_a), top.loc(nid),
            "a start vertex already reached from an earlier start vertex is not traversed (and emitted) again",
            f"guards of the worker call: {[A.src(g.ast)[:40] for g in cfg.guards(nid) if not isinstance(g.ast, ast.For)]}")
    # fresh containers
    for nm, what, ctor in ((out_a, "output", ("deque", "list", "collections.deque")), (vis_a, "visited", ("set",))):
        ds = top.defs(nm, nid)
        fresh = len([d for d in ds if d.kind == "assign"]) == 1 and all(
            d.kind != "assign" or (isinstance(d.value, ast.Call) and A.call_name(d.value) in ctor and not d.value.args)
            or (isinstance(d.value, (ast.List,)) and not d.value.elts and what == "output") for d in ds)
        col.add(rule, f"sorting.toposort#fresh-{what}", fresh, top.loc(nid),
                f"the {what} container is created empty inside toposort (no state shared between calls)",
                f"definitions reaching the worker call: {ds}")
    out_ctor = None
    for d in top.defs(out_a, nid):
        if d.kind == "assign":
            out_ctor = "deque" if isinstance(d.value, ast.Call) else "list"
    # default start = all vertices, only when start is None
    for tn in [n for n in cfg.nodes.values() if n.kind == "test"]:
        if start_p in A.names_loaded(tn.ast):
            p = A.compare_parts(tn.ast)
            ok = bool(p and isinstance(p[1], (ast.Is,)) and A.dotted(p[0]) == start_p and A.is_none(p[2]))
            col.add(rule, "sorting.toposort#default-start-only-when-None", ok, top.loc(tn.id),
                    "`start` is replaced by all vertices only when it is None (an empty start set means: nothing to do)",
                    f"test: {A.src(tn.ast)}")
    # return value: order preserving
    rets = [n for n in cfg.nodes.values() if n.kind == "stmt" and isinstance(n.ast, ast.Return)]
    ret_mode = None
    for r in rets:
        v = top.resolve(r.ast.value, r.id)
        mode = None
        if isinstance(v, ast.Name) and v.id == out_a:
            mode = "same"
        elif isinstance(v, ast.Call) and A.call_name(v) in ("list", "tuple") and len(v.args) == 1 and A.dotted(v.args[0]) == out_a:
            mode = "same"
        elif isinstance(v, ast.Call) and A.call_name(v) in ("list", "tuple") and len(v.args) == 1 and isinstance(v.args[0], ast.Call) \
                and A.call_name(v.args[0]) == "reversed" and A.dotted(v.args[0].args[0]) == out_a:
            mode = "reversed"
        elif isinstance(v, ast.Subscript) and A.dotted(v.value) == out_a and A.src(v.slice) == "::-1":
            mode = "reversed"
        col.add(rule, "sorting.toposort#order-preserving-return", mode is not None, top.loc(r.id),
                "toposort returns the worker's output sequence in order (or reversed exactly once)",
                f"returns {A.src(r.ast.value)}")
        ret_mode = ret_mode or mode
    if not rets:
        raise AnalysisError("sorting.toposort: no return statement")

    check_worker(col, rule, worker_name, ret_mode or "same", out_ctor)
    return worker_name


def check_worker(col: Collector, rule: str, worker_name: str, ret_mode: str, out_ctor):
    repo = col.repo
    w = fnctx(repo, None, worker_name, "sorting")
    P = A.params(w.fn)
    if len(P) != 4:
        raise AnalysisError(f"sorting.{worker_name}: expected 4 parameters (graph, source, out, visited)")
    graph_p, src_p, out_p, vis_p = P
    cfg = w.cfg
    q = f"sorting.{worker_name}"

    # the shared containers are used as given (a `visited = visited or set()` would un-share an empty set)
    reb = [d for nid in cfg.nodes for d in w.rd.defs.get(nid, []) if d.name in (out_p, vis_p, graph_p) and d.kind in ("assign", "aug", "for", "del")]
    col.add(rule, f"{q}#shared-containers-not-rebound", not reb and not A.param_defaults(w.fn), w.loc(reb[0].nid) if reb else w.loc(w.fn),
            "the worker uses the graph, output and visited containers of its caller as given (they are shared between start vertices)",
            f"rebinding: {reb}; defaults: {list(A.param_defaults(w.fn))}")
    # emissions
    emits = []
    for nid in cfg.find(lambda x: isinstance(x, ast.Call) and isinstance(x.func, ast.Attribute)
                        and A.dotted(x.func.value) == out_p):
        for c in w.calls_at(nid, lambda c: isinstance(c.func, ast.Attribute) and A.dotted(c.func.value) == out_p):
            emits.append((nid, c))
    if len(emits) != 1:
        col.add(rule, f"{q}#single-emission", False, w.loc(w.fn),
                "the worker has exactly one statement that emits a vertex into the output",
                f"{len(emits)} operations on the output sequence: {[A.src(c) for _, c in emits]}")
        return
    e_nid, e_call = emits[0]
    meth = e_call.func.attr
    front = meth == "appendleft" or (meth == "insert" and e_call.args and A.is_const(e_call.args[0], 0))
    back = meth == "append"
    direction_ok = (front and ret_mode == "same") or (back and ret_mode == "reversed")
    col.add(rule, f"{q}#emission-direction", direction_ok, w.loc(e_nid),
            "a finished vertex is placed in front of everything emitted before it (reverse post-order)",
            f"emission `{A.src(e_call)}`, toposort returns the sequence {ret_mode}")
    e_arg = e_call.args[-1] if e_call.args else None
    e_var = A.dotted(e_arg) if e_arg is not None else None

    # template discrimination
    rec_calls = []
    for nid in cfg.find(lambda x: isinstance(x, ast.Call) and isinstance(x.func, ast.Name) and x.func.id == worker_name):
        for c in w.calls_at(nid, lambda c: isinstance(c.func, ast.Name) and c.func.id == worker_name):
            rec_calls.append((nid, c))
    whiles = [n for n in cfg.nodes.values() if n.kind == "test" and cfg.in_loop(n.id)
              and any(isinstance(x, ast.While) and x.test is n.ast for x in A.walk(w.fn))]
    adds = []
    for nid in cfg.find(lambda x: isinstance(x, ast.Call) and isinstance(x.func, ast.Attribute)
                        and A.dotted(x.func.value) == vis_p and x.func.attr == "add"):
        for c in w.calls_at(nid, lambda c: isinstance(c.func, ast.Attribute) and A.dotted(c.func.value) == vis_p and c.func.attr == "add"):
            adds.append((nid, A.dotted(c.args[0]) if c.args else None))
    # visited only grows
    shrink = cfg.find(lambda x: isinstance(x, ast.Call) and isinstance(x.func, ast.Attribute) and A.dotted(x.func.value) == vis_p
                      and x.func.attr in ("remove", "discard", "clear", "pop", "difference_update"))
    col.add(rule, f"{q}#visited-grows-only", not shrink, w.loc(shrink[0]) if shrink else w.loc(w.fn),
            "the visited set only grows (termination on cyclic graphs, at-most-once emission)",
            "" if not shrink else "visited is shrunk")

    if rec_calls and not whiles:
        _recursive(col, rule, w, q, rec_calls, adds, e_nid, e_var, graph_p, src_p, out_p, vis_p)
    elif whiles and not rec_calls:
        _iterative(col, rule, w, q, whiles, adds, e_nid, e_var, graph_p, src_p, out_p, vis_p)
    else:
        raise AnalysisError(f"{q}: neither the recursive nor the explicit-stack DFS template (cannot decide)")


def _recursive(col, rule, w, q, rec_calls, adds, e_nid, e_var, graph_p, src_p, out_p, vis_p):
    cfg = w.cfg
    col.info["dfs_template"] = "recursive"
    mark = [nid for nid, v in adds if v == src_p]
    fors = [n for n in cfg.nodes.values() if n.kind == "for"]
    ok_mark = bool(mark) and all(any(cfg.dominates(mk, f.id) for mk in mark) for f in fors) and bool(fors)
    col.add(rule, f"{q}#mark-before-descent", ok_mark, w.loc(mark[0]) if mark else w.loc(w.fn),
            "a vertex is marked visited before its successors are explored", f"visited.add sites: {adds}")
    for nid, c in rec_calls:
        nv = A.dotted(c.args[1]) if len(c.args) == 4 else None
        passes = len(c.args) == 4 and [A.dotted(a) for a in (c.args[0], c.args[2], c.args[3])] == [graph_p, out_p, vis_p]
        col.add(rule, f"{q}#recursive-call-args", passes, w.loc(nid),
                "the recursive call passes the same graph, output and visited containers", A.src(c))
        col.add(rule, f"{q}#descend-only-unvisited", bool(nv) and _guarded(w, nid, nv, vis_p), w.loc(nid),
                "descent into a successor happens only if it is not yet visited",
                f"guards: {[A.src(g.ast)[:40] for g in cfg.guards(nid) if not isinstance(g.ast, ast.For)]}")
        loop = [g for g in cfg.guards(nid) if g.kind == "T" and isinstance(g.ast, ast.For)]
        nb_ok = bool(loop) and A.target_names(loop[0].ast.target) == [nv] and _neighbours_of(loop[0].ast.iter, graph_p) == src_p
        col.add(rule, f"{q}#successors-of-current-vertex", nb_ok, w.loc(nid),
                "the successors explored are those of the current vertex in the given graph",
                A.src(loop[0].ast.iter) if loop else "no enclosing loop")
    # emission after all descents, of the source vertex, on every path
    post = all(not cfg.path_avoiding(nid, cfg.EXIT, [e_nid]) for nid, _ in rec_calls) and \
        not cfg.path_avoiding(cfg.ENTRY, cfg.EXIT, [e_nid]) and not cfg.in_loop(e_nid) and \
        all(not cfg.path_avoiding(e_nid, nid, []) for nid, _ in rec_calls)
    col.add(rule, f"{q}#post-order-emission", post and e_var == src_p, w.loc(e_nid),
            "the vertex is emitted exactly once, after the exploration of all its successors has finished",
            f"emits `{e_var}`; emission inside loop: {cfg.in_loop(e_nid)}")


def _guarded(w, nid, var, vis):
    return guarded_unvisited(w, nid, var, vis)


def _iterative(col, rule, w, q, whiles, adds, e_nid, e_var, graph_p, src_p, out_p, vis_p):
    cfg = w.cfg
    col.info["dfs_template"] = "explicit-stack"
    wh = whiles[0]
    todo = A.dotted(wh.ast) if isinstance(wh.ast, ast.Name) else None
    if todo is None:
        raise AnalysisError(f"{q}: loop condition is not the work-stack name (cannot decide)")
    # pushes
    pushes = []
    for nid in cfg.find(lambda x: isinstance(x, ast.Call) and isinstance(x.func, ast.Attribute)
                        and A.dotted(x.func.value) == todo and x.func.attr == "append"):
        for c in w.calls_at(nid, lambda c: isinstance(c.func, ast.Attribute) and A.dotted(c.func.value) == todo and c.func.attr == "append"):
            pushes.append((nid, c))
    # frame read: vertex, neighbours = todo[-1]
    frame = None
    for n in cfg.nodes.values():
        if n.kind == "stmt" and isinstance(n.ast, ast.Assign) and isinstance(n.ast.value, ast.Subscript) \
                and A.dotted(n.ast.value.value) == todo and A.src(n.ast.value.slice) == "-1":
            names = A.target_names(n.ast.targets[0])
            if len(names) == 2:
                frame = (n.id, names[0], names[1])
    if frame is None:
        if _two_phase(col, rule, w, q, todo, pushes, adds, e_nid, e_var, graph_p, src_p, vis_p):
            return
        raise AnalysisError(f"{q}: no `vertex, successors = stack[-1]` frame read (cannot decide)")
    init = [d for d in w.rd.reaching(wh.id, todo) if d.kind == "assign"]
    init_ok = False
    if len(init) == 1 and isinstance(init[0].value, ast.List) and len(init[0].value.elts) == 1 \
            and isinstance(init[0].value.elts[0], ast.Tuple) and len(init[0].value.elts[0].elts) == 2:
        v0, it0 = init[0].value.elts[0].elts
        init_ok = A.dotted(v0) == src_p and _neighbours_of(it0, graph_p) == src_p and \
            isinstance(it0, ast.Call) and A.call_name(it0) == "iter"
    col.add(rule, f"{q}#initial-frame", init_ok, w.loc(init[0].nid) if init else w.loc(w.fn),
            "the work stack starts with one frame (source, iterator over the source's successors)",
            A.src(init[0].value) if init else "no unique initialisation")
    mark0 = [nid for nid, v in adds if v == src_p and cfg.dominates(nid, wh.id)]
    col.add(rule, f"{q}#mark-before-descent", bool(mark0), w.loc(mark0[0]) if mark0 else w.loc(w.fn),
            "the source vertex is marked visited before the traversal loop starts", f"visited.add sites: {adds}")
    f_nid, vtx, nbrs = frame
    fors = [n for n in cfg.nodes.values() if n.kind == "for" and A.dotted(n.ast.iter) == nbrs]
    if len(fors) != 1:
        raise AnalysisError(f"{q}: expected one loop over the frame's successor iterator (cannot decide)")
    fr = fors[0]
    nb = A.target_names(fr.ast.target)
    for nid, c in pushes:
        t = c.args[0] if c.args else None
        shape = isinstance(t, ast.Tuple) and len(t.elts) == 2
        nv = A.dotted(t.elts[0]) if shape else None
        it_ok = shape and isinstance(t.elts[1], ast.Call) and A.call_name(t.elts[1]) == "iter" and _neighbours_of(t.elts[1], graph_p) == nv
        col.add(rule, f"{q}#pushed-frame", bool(it_ok) and [nv] == nb, w.loc(nid),
                "a pushed frame pairs the successor with a fresh iterator over *its* successors in the given graph", A.src(c))
        col.add(rule, f"{q}#descend-only-unvisited", bool(nv) and guarded_unvisited(w, nid, nv, vis_p), w.loc(nid),
                "descent into a successor happens only if it is not yet visited",
                f"guards: {[A.src(g.ast)[:40] for g in cfg.guards(nid) if not isinstance(g.ast, ast.For)]}")
        marked = any(v == nv and cfg.dominates(a, nid) and fr.id in cfg.dominators(a) for a, v in adds)
        col.add(rule, f"{q}#mark-on-push", marked, w.loc(nid),
                "a successor is marked visited when (before) its frame is pushed", f"visited.add sites: {adds}")
        # after the push the scan of the current frame is suspended: next node must leave the for loop
        succ = list(cfg.g.successors(nid))
        brk = any(cfg.nodes[s].kind == "stmt" and isinstance(cfg.nodes[s].ast, ast.Break) for s in succ)
        col.add(rule, f"{q}#suspend-after-push", brk, w.loc(nid),
                "after pushing a frame the scan of the current frame is suspended (depth first), to be resumed from the same iterator",
                f"successor statements: {[A.src(cfg.nodes[s].ast)[:30] for s in succ if cfg.nodes[s].ast is not None]}")
    if not pushes:
        col.add(rule, f"{q}#pushed-frame", False, w.loc(w.fn), "successors are pushed on the work stack", "no push found")
    # emission in the exhausted branch of the for, together with the pop, of the frame's vertex
    exhausted = [g for g in cfg.guards(e_nid) if g.kind == "F" and g.of == fr.id]
    pops = cfg.find(lambda x: isinstance(x, ast.Call) and isinstance(x.func, ast.Attribute) and A.dotted(x.func.value) == todo
                    and x.func.attr == "pop")
    pop_ok = len(pops) == 1 and any(g.kind == "F" and g.of == fr.id for g in cfg.guards(pops[0])) and \
        not w.calls_at(pops[0], lambda c: isinstance(c.func, ast.Attribute) and c.func.attr == "pop" and c.args)
    col.add(rule, f"{q}#post-order-emission", bool(exhausted) and e_var == vtx and pop_ok, w.loc(e_nid),
            "a vertex is emitted exactly when its successor iterator is exhausted, and its frame is popped then (and only then)",
            f"emits `{e_var}` (frame vertex `{vtx}`); in exhausted-branch: {bool(exhausted)}; pops: {len(pops)}")
    col.add(rule, f"{q}#frame-read-each-iteration", cfg.dominates(f_nid, fr.id) and wh.id in cfg.dominators(f_nid), w.loc(f_nid),
            "each iteration of the traversal loop resumes the top frame of the work stack", "")


def _two_phase(col, rule, w, q, todo, pushes, adds, e_nid, e_var, graph_p, src_p, vis_p) -> bool:
    """Third template: every vertex is pushed twice, (v, False) to be expanded and (v, True) to be emitted.

    Sound only if a vertex is marked when it is *expanded* (popped), not when it is pushed: with all unvisited
    successors pushed at once, marking at push time lets a sibling that is also a descendant of another sibling be
    emitted before that sibling's subtree is finished (not a post-order).
    """
    cfg = w.cfg
    frame = None
    for n in cfg.nodes.values():
        if n.kind == "stmt" and isinstance(n.ast, ast.Assign) and isinstance(n.ast.value, ast.Call) \
                and isinstance(n.ast.value.func, ast.Attribute) and A.dotted(n.ast.value.func.value) == todo \
                and n.ast.value.func.attr == "pop" and not n.ast.value.args:
            names = A.target_names(n.ast.targets[0])
            if len(names) == 2:
                frame = (n.id, names[0], names[1])
    if frame is None:
        return False
    col.info["dfs_template"] = "two-phase explicit stack"
    f_nid, vtx, flag = frame
    emit_guard = has_guard(cfg, e_nid, "T", lambda t: A.dotted(t) == flag)
    col.add(rule, f"{q}#post-order-emission", emit_guard and e_var == vtx, w.loc(e_nid),
            "a vertex is emitted when its second (emit) entry is popped", f"emits `{e_var}`")
    for nid, c in pushes:
        t = c.args[0] if c.args else None
        if not (isinstance(t, ast.Tuple) and len(t.elts) == 2):
            raise AnalysisError(f"{q}: unrecognised push {A.src(c)}")
        nv = A.dotted(t.elts[0])
        if A.is_const(t.elts[1], True):
            col.add(rule, f"{q}#emit-entry-below-successors", nv == vtx and all(
                not cfg.path_avoiding(p2, nid, [f_nid]) for p2, c2 in pushes if p2 != nid), w.loc(nid),
                "the emit entry of a vertex is pushed before (below) the entries of its successors", A.src(c))
            continue
        loops = [g for g in cfg.guards(nid) if g.kind == "T" and isinstance(g.ast, ast.For)]
        nb_ok = bool(loops) and A.target_names(loops[0].ast.target) == [nv] and _neighbours_of(loops[0].ast.iter, graph_p) == vtx
        col.add(rule, f"{q}#successors-of-current-vertex", nb_ok, w.loc(nid),
                "the successors pushed are those of the vertex being expanded", A.src(loops[0].ast.iter) if loops else "")
        marked_at_push = any(v == nv and (cfg.dominates(a, nid) or cfg.dominates(nid, a)) and
                             any(g.kind == "T" and isinstance(g.ast, ast.For) for g in cfg.guards(a)) for a, v in adds)
        col.add(rule, f"{q}#mark-on-expansion-not-on-push", not marked_at_push, w.loc(nid),
                "with all successors pushed at once a vertex must be marked visited when it is expanded, not when it is "
                "pushed (otherwise a sibling that is also a descendant is emitted before its ancestor's subtree is done)",
                f"visited.add sites: {adds}")
    # expansion marks the vertex under a not-visited guard
    exp_marks = [a for a, v in adds if v == vtx]
    ok = bool(exp_marks) and all(guarded_unvisited(w, a, vtx, vis_p) or
                                 any(isinstance(cfg.nodes[s].ast, ast.Continue) for s in cfg.g.successors(a)) for a in exp_marks)
    col.add(rule, f"{q}#mark-before-descent", ok, w.loc(exp_marks[0]) if exp_marks else w.loc(w.fn),
            "a vertex popped for expansion is skipped if already visited and marked otherwise", f"visited.add sites: {adds}")
    return True
