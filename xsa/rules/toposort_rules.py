"""Traversal template of xdeps.sorting.toposort/_dfs (shared by C01.R3, C02.R2, C13).

Accepted templates for the DFS worker: (R) recursive, (I) explicit stack with one
iterator per frame.  Anything else is *cannot decide* (AnalysisError).
Each obligation is a necessary condition of "reverse post-order DFS with a
grow-only visited set": breaking it gives duplicated, missing or mis-ordered
vertices on some graph.
"""
from __future__ import annotations

import ast
from typing import List, Optional

from .. import astutil as A
from .. import sym as S
from ..core import AnalysisError, Collector
from .common import FnCtx, SCtx, fnctx, sctx, has_guard


def _not_in(test, var: str, coll: str) -> bool:
    p = A.compare_parts(test)
    return bool(p and isinstance(p[1], ast.NotIn) and A.dotted(p[0]) == var and A.dotted(p[2]) == coll)


def _in(test, var: str, coll: str) -> bool:
    p = A.compare_parts(test)
    return bool(p and isinstance(p[1], ast.In) and A.dotted(p[0]) == var and A.dotted(p[2]) == coll)


def guarded_unvisited(cx: FnCtx, nid: int, var: str, visited: str) -> bool:
    return (has_guard(cx.cfg, nid, "T", lambda t: _not_in(t, var, visited))
            or has_guard(cx.cfg, nid, "F", lambda t: _in(t, var, visited))
            or has_guard(cx.cfg, nid, "F", lambda t: isinstance(t, ast.UnaryOp) and isinstance(t.op, ast.Not)
                         and _not_in(t.operand, var, visited)))


def _neighbours_of(expr, graph: str) -> Optional[str]:
    """name v if expr is graph.get(v, ...)/graph[v]/iter(...) of those"""
    if isinstance(expr, ast.Call) and A.call_name(expr) in ("iter", "list", "tuple") and expr.args:
        return _neighbours_of(expr.args[0], graph)
    if isinstance(expr, ast.Call) and isinstance(expr.func, ast.Attribute) and expr.func.attr == "get" \
            and A.dotted(expr.func.value) == graph and expr.args:
        return A.dotted(expr.args[0])
    if isinstance(expr, ast.Subscript) and A.dotted(expr.value) == graph:
        return A.dotted(expr.slice)
    return None


def check_toposort(col: Collector, rule: str):
    """toposort(graph, start): every start vertex not yet visited is handed to the DFS worker with fresh, shared
    output/visited containers; the output is returned in order."""
    repo = col.repo
    top = sctx(repo, None, "toposort", "sorting", keep=set(repo.module("sorting").functions) - {"toposort"})
    m = top.cx.module
    cfg = top.cfg
    params = [p for p in top.sym.params.values() if p[:1] == ("param",)]
    if len(params) < 2:
        raise AnalysisError("sorting.toposort: expected (graph, start) parameters")
    graph_p, start_p = top.P(0), top.P(1)
    workers = [(ev, ev.term) for ev in top.events if ev.kind == "call" and ev.term[1][:1] == ("glob",)
               and ev.term[1][1] in m.functions and ev.term[1][1] not in ("reduce", "toposort") and len(ev.term[2]) == 4]
    if not workers:
        # a module-level worker that is handed the graph but not a set: it cannot know what earlier start vertices reached
        cand = [ev for ev in top.events if ev.kind == "call" and ev.term[1][:1] == ("glob",) and ev.term[1][1] in m.functions
                and ev.term[1][1] not in ("reduce", "toposort") and graph_p in ev.term[2]]
        blind = [ev for ev in cand if not any(a[:1] == ("acc",) and a[1] == "set" for x in ev.term[2] for a in S.alts(x))]
        if cand and len(blind) == len(cand):
            col.fail(rule, "sorting.toposort#worker-shares-visited", top.loc(blind[0]),
                     "the DFS worker works on the caller's visited set, so that a vertex reached from an earlier start vertex "
                     "is neither traversed nor emitted a second time",
                     f"worker call {S.show(blind[0].term)[:120]} passes no visited set")
            return None
        raise AnalysisError("sorting.toposort: no call to a module-level DFS worker with (graph, vertex, out, visited) found "
                            "(unrecognised shape) -- cannot decide")
    worker_name = workers[0][1][1][1]
    ret_mode = None
    out_kind = None
    for ev, t in workers:
        g_a, v_a, out_a, vis_a = t[2]
        nid = ev.nid
        col.add(rule, "sorting.toposort#worker-graph-arg", g_a == graph_p, top.loc(ev),
                "the DFS worker traverses the graph passed to toposort", f"worker called with graph={S.show(g_a)}")
        starts = S.alts(v_a)
        loop_ok = all(a[:1] == ("elem",) and all(x == start_p or S.is_call_of(x, ("glob", "reduce")) or x[:1] in (("call",), ("acc",))
                                                   for x in S.alts(a[1])) and start_p in S.alts(a[1]) for a in starts)
        col.add(rule, "sorting.toposort#iterates-start", loop_ok, top.loc(ev),
                "every vertex of `start` is offered to the DFS worker (one loop over the start collection)",
                f"vertex handed to the worker: {S.show(v_a)}")
        vis_name = _container_name(ev.node.args[3])
        unv = any(S.match(c, ("cmp", "not in", v_a, S.ANY)) is not None and _cond_on(top, nid, vis_name) for c in top.conds(nid))
        col.add(rule, "sorting.toposort#start-vertex-unvisited-guard", unv, top.loc(ev),
                "a start vertex already reached from an earlier start vertex is not traversed (and emitted) again",
                f"conditions of the worker call: {[S.show(c) for c in top.conds(nid)]}")
        for term, what, kinds in ((out_a, "output", ("deque", "list")), (vis_a, "visited", ("set",))):
            fresh = term[:1] == ("acc",) and term[1] in kinds and all(c[0] not in ("one", "many", "kv") for c in term[2])
            col.add(rule, f"sorting.toposort#fresh-{what}", fresh, top.loc(ev),
                    f"the {what} container is created empty inside toposort (no state shared between calls)", S.show(term))
        out_kind = out_a[1] if out_a[:1] == ("acc",) else None
        out_name = _container_name(ev.node.args[2])
        # default start = all vertices, only when start is None
        sname = start_p[2]
        for n2 in list(cfg.nodes):
            for d in top.cx.rd.defs.get(n2, []):
                if d.name == sname and d.kind == "assign":
                    col.add(rule, "sorting.toposort#default-start-only-when-None",
                            top.under(n2, ("cmp", "is", start_p, ("const", "None"))), top.loc(n2),
                            "`start` is replaced by all vertices only when it is None (an empty start set means: nothing to do)",
                            f"conditions: {[S.show(c) for c in top.conds(n2)]}")
        rets = top.of_kind("return")
        if not rets:
            raise AnalysisError("sorting.toposort: no return statement")
        for r in rets:
            mode = _return_mode(r.node.value, out_name, top, r.nid)
            col.add(rule, "sorting.toposort#order-preserving-return", mode is not None, top.loc(r),
                    "toposort returns the worker's output sequence in order (or reversed exactly once)",
                    f"returns {A.src(r.node.value)}")
            ret_mode = ret_mode or mode
        break
    check_worker(col, rule, worker_name, ret_mode or "same", out_kind)
    return worker_name


def _container_name(node) -> Optional[str]:
    return node.id if isinstance(node, ast.Name) else None


def _cond_on(s: SCtx, nid: int, name: Optional[str]) -> bool:
    """some guard of nid mentions the local container `name` (the visited set)"""
    if name is None:
        return False
    for g in s.cfg.guards(nid):
        if g.ast is not None and not isinstance(g.ast, (ast.For, ast.AsyncFor)) and name in A.names_loaded(g.ast):
            return True
    return False


def _return_mode(v, out_name, s: SCtx, nid):
    if isinstance(v, ast.Name) and v.id == out_name:
        return "same"
    if isinstance(v, ast.Name):
        ds = [d for d in s.cx.rd.reaching(nid, v.id) if d.kind == "assign"]
        if len(ds) == 1 and len(s.cx.rd.reaching(nid, v.id)) == 1:
            return _return_mode(ds[0].value, out_name, s, ds[0].nid)
        return None
    if isinstance(v, ast.Call) and A.call_name(v) in ("list", "tuple") and len(v.args) == 1:
        a = v.args[0]
        if A.dotted(a) == out_name:
            return "same"
        if isinstance(a, ast.Call) and A.call_name(a) == "reversed" and a.args and A.dotted(a.args[0]) == out_name:
            return "reversed"
    if isinstance(v, ast.Subscript) and A.dotted(v.value) == out_name and A.src(v.slice) == "::-1":
        return "reversed"
    return None


def check_worker(col: Collector, rule: str, worker_name: str, ret_mode: str, out_ctor):
    repo = col.repo
    sx = sctx(repo, None, worker_name, "sorting")     # private helpers (frame constructors ...) inlined
    w = sx.cx
    P = A.params(w.fn)
    if len(P) != 4:
        raise AnalysisError(f"sorting.{worker_name}: expected 4 parameters (graph, source, out, visited)")
    graph_p, src_p, out_p, vis_p = P
    cfg = w.cfg
    q = f"sorting.{worker_name}"

    # the shared containers are used as given (a `visited = visited or set()` would un-share an empty set)
    reb = [d for nid in cfg.nodes for d in w.rd.defs.get(nid, []) if d.name in (out_p, vis_p, graph_p) and d.kind in ("assign", "aug", "for", "del")]
    col.add(rule, f"{q}#shared-containers-not-rebound", not reb and not A.param_defaults(w.fn), w.loc(reb[0].nid) if reb else w.loc(w.fn),
            "the worker uses the graph, output and visited containers of its caller as given (they are shared between start vertices)",
            f"rebinding: {reb}; defaults: {list(A.param_defaults(w.fn))}")
    # emissions
    emits = []
    for nid in cfg.find(lambda x: isinstance(x, ast.Call) and isinstance(x.func, ast.Attribute)
                        and A.dotted(x.func.value) == out_p):
        for c in w.calls_at(nid, lambda c: isinstance(c.func, ast.Attribute) and A.dotted(c.func.value) == out_p):
            emits.append((nid, c))
    if len(emits) != 1:
        col.add(rule, f"{q}#single-emission", False, w.loc(w.fn),
                "the worker has exactly one statement that emits a vertex into the output",
                f"{len(emits)} operations on the output sequence: {[A.src(c) for _, c in emits]}")
        return
    e_nid, e_call = emits[0]
    meth = e_call.func.attr
    front = meth == "appendleft" or (meth == "insert" and e_call.args and A.is_const(e_call.args[0], 0))
    back = meth == "append"
    direction_ok = (front and ret_mode == "same") or (back and ret_mode == "reversed")
    col.add(rule, f"{q}#emission-direction", direction_ok, w.loc(e_nid),
            "a finished vertex is placed in front of everything emitted before it (reverse post-order)",
            f"emission `{A.src(e_call)}`, toposort returns the sequence {ret_mode}")
    e_arg = e_call.args[-1] if e_call.args else None
    e_var = A.dotted(e_arg) if e_arg is not None else None

    # template discrimination
    rec_calls = []
    for nid in cfg.find(lambda x: isinstance(x, ast.Call) and isinstance(x.func, ast.Name) and x.func.id == worker_name):
        for c in w.calls_at(nid, lambda c: isinstance(c.func, ast.Name) and c.func.id == worker_name):
            rec_calls.append((nid, c))
    whiles = [n for n in cfg.nodes.values() if n.kind == "test" and cfg.in_loop(n.id)
              and any(isinstance(x, ast.While) and x.test is n.ast for x in A.walk(w.fn))]
    adds = []
    for nid in cfg.find(lambda x: isinstance(x, ast.Call) and isinstance(x.func, ast.Attribute)
                        and A.dotted(x.func.value) == vis_p and x.func.attr == "add"):
        for c in w.calls_at(nid, lambda c: isinstance(c.func, ast.Attribute) and A.dotted(c.func.value) == vis_p and c.func.attr == "add"):
            adds.append((nid, A.dotted(c.args[0]) if c.args else None))
    # visited only grows
    shrink = cfg.find(lambda x: isinstance(x, ast.Call) and isinstance(x.func, ast.Attribute) and A.dotted(x.func.value) == vis_p
                      and x.func.attr in ("remove", "discard", "clear", "pop", "difference_update"))
    col.add(rule, f"{q}#visited-grows-only", not shrink, w.loc(shrink[0]) if shrink else w.loc(w.fn),
            "the visited set only grows (termination on cyclic graphs, at-most-once emission)",
            "" if not shrink else "visited is shrunk")

    if rec_calls and not whiles:
        _recursive(col, rule, w, q, rec_calls, adds, e_nid, e_var, graph_p, src_p, out_p, vis_p)
    elif whiles and not rec_calls:
        _iterative(col, rule, sx, q, whiles, adds, e_nid, e_call, graph_p, src_p, out_p, vis_p)
    else:
        raise AnalysisError(f"{q}: neither the recursive nor the explicit-stack DFS template (cannot decide)")


def _recursive(col, rule, w, q, rec_calls, adds, e_nid, e_var, graph_p, src_p, out_p, vis_p):
    cfg = w.cfg
    col.info["dfs_template"] = "recursive"
    mark = [nid for nid, v in adds if v == src_p]
    fors = [n for n in cfg.nodes.values() if n.kind == "for"]
    ok_mark = bool(mark) and all(any(cfg.dominates(mk, f.id) for mk in mark) for f in fors) and bool(fors)
    col.add(rule, f"{q}#mark-before-descent", ok_mark, w.loc(mark[0]) if mark else w.loc(w.fn),
            "a vertex is marked visited before its successors are explored", f"visited.add sites: {adds}")
    for nid, c in rec_calls:
        nv = A.dotted(c.args[1]) if len(c.args) == 4 else None
        passes = len(c.args) == 4 and [A.dotted(a) for a in (c.args[0], c.args[2], c.args[3])] == [graph_p, out_p, vis_p]
        col.add(rule, f"{q}#recursive-call-args", passes, w.loc(nid),
                "the recursive call passes the same graph, output and visited containers", A.src(c))
        col.add(rule, f"{q}#descend-only-unvisited", bool(nv) and _guarded(w, nid, nv, vis_p), w.loc(nid),
                "descent into a successor happens only if it is not yet visited",
                f"guards: {[A.src(g.ast)[:40] for g in cfg.guards(nid) if not isinstance(g.ast, ast.For)]}")
        loop = [g for g in cfg.guards(nid) if g.kind == "T" and isinstance(g.ast, ast.For)]
        nb_ok = bool(loop) and A.target_names(loop[0].ast.target) == [nv] and _neighbours_of(loop[0].ast.iter, graph_p) == src_p
        col.add(rule, f"{q}#successors-of-current-vertex", nb_ok, w.loc(nid),
                "the successors explored are those of the current vertex in the given graph",
                A.src(loop[0].ast.iter) if loop else "no enclosing loop")
    # emission after all descents, of the source vertex, on every path
    post = all(not cfg.path_avoiding(nid, cfg.EXIT, [e_nid]) for nid, _ in rec_calls) and \
        not cfg.path_avoiding(cfg.ENTRY, cfg.EXIT, [e_nid]) and not cfg.in_loop(e_nid) and \
        all(not cfg.path_avoiding(e_nid, nid, []) for nid, _ in rec_calls)
    col.add(rule, f"{q}#post-order-emission", post and e_var == src_p, w.loc(e_nid),
            "the vertex is emitted exactly once, after the exploration of all its successors has finished",
            f"emits `{e_var}`; emission inside loop: {cfg.in_loop(e_nid)}")


def _guarded(w, nid, var, vis):
    return guarded_unvisited(w, nid, var, vis)


def _iterative(col, rule, sx: SCtx, q, whiles, adds, e_nid, e_call, graph_p, src_p, out_p, vis_p):
    """Explicit stack of frames (vertex, iterator over its successors).

    Formulated on symbolic terms and (flag-refined) paths, not on statement shapes: `for ... else`, a `descended`
    flag, `continue`-style guards, temporaries and helper functions for the frame all give the same answers.
    """
    w = sx.cx
    cfg = sx.cfg
    R = cfg.refined
    sym = sx.sym
    col.info["dfs_template"] = "explicit-stack"
    graph, source, vis = sym.params[graph_p], sym.params[src_p], sym.params[vis_p]
    wh = whiles[0]
    names = [x.id for x in A.walk(wh.ast) if isinstance(x, ast.Name)]
    if len(names) != 1:
        raise AnalysisError(f"{q}: loop condition is not a test of the work stack (cannot decide)")
    todo = names[0]
    tt = S.norm_cond(True, sym.of(wh.ast, wh.id))
    runs_while_nonempty = tt[:1] in (("acc",), ("list",), ("nonempty",), ("opaque",), ("alt",), ("call",)) or \
        (tt[:1] == ("cmp",) and tt[1] in (">", "!=", ">="))
    col.add(rule, f"{q}#runs-while-the-stack-is-nonempty", runs_while_nonempty and not (tt[:1] == ("uop",) and tt[1] == "not")
            and tt[:1] != ("empty",), w.loc(wh.id),
            "the traversal loop runs as long as the work stack holds a frame", S.show(tt)[:80])

    def succ_of(v):
        return (S.mcall(graph, "get", v, S.ANY), S.mcall(graph, "get", v), ("sub", graph, v))

    def is_frame(t, v):
        """t == (v, iter(<successors of v in graph>))"""
        if not (t[:1] == ("tuple",) and len(t[1]) == 2 and t[1][0] == v):
            return False
        it = t[1][1]
        return S.is_call_of(it, ("glob", "iter")) and len(it[2]) == 1 and any(S.match(it[2][0], p) is not None for p in succ_of(v))

    # ---- the loop over the successors of the top frame
    top_frame = ("sub", S.V("stack"), ("const", "-1"))
    fors = []
    for n in cfg.nodes.values():
        if n.kind == "for":
            it = sym.of(n.ast.iter, n.id)
            if S.match(it, ("item", top_frame, 1)) is not None:
                fors.append((n, it))
    if len(fors) != 1:
        if _two_phase(col, rule, w, q, todo, _pushes(w, todo), adds, e_nid, A.dotted(e_call.args[-1]) if e_call.args else None,
                      graph_p, src_p, vis_p):
            return
        raise AnalysisError(f"{q}: expected one loop over the successor iterator of the top frame `stack[-1]` (cannot decide)")
    fr, it_term = fors[0]
    nb = ("elem", it_term)
    vtx_term = ("item", it_term[1], 0)
    exhausted = [n.id for n in cfg.nodes.values() if n.kind == "F" and n.of == fr.id]
    # ---- initial frame and mark
    init_defs = [d for d in w.rd.reaching(wh.id, todo) if d.kind == "assign"]
    init_ok = False
    if len(init_defs) == 1:
        t0 = sym.of(init_defs[0].value, init_defs[0].nid)
        init_ok = t0[:1] == ("list",) and len(t0[1]) == 1 and is_frame(t0[1][0], source)
        if not init_ok and t0[:1] in (("list",), ("acc",)) and not (t0[:1] == ("list",) and t0[1]):
            # created empty, the source frame pushed before the loop starts (unconditionally, once)
            first = [(nid, c) for nid, c in _pushes(w, todo) if cfg.dominates(nid, wh.id) and not cfg.in_loop(nid) and not sx.conds(nid)]
            init_ok = len(first) == 1 and bool(first[0][1].args) and is_frame(sym.of(first[0][1].args[0], first[0][0]), source) \
                and not [1 for nid, c in _pushes(w, todo) if cfg.path_avoiding(nid, wh.id, []) and not cfg.in_loop(nid) and nid != first[0][0]]
    col.add(rule, f"{q}#initial-frame", init_ok, w.loc(init_defs[0].nid) if init_defs else w.loc(w.fn),
            "the work stack starts with one frame (source, iterator over the source's successors)",
            A.src(init_defs[0].value) if init_defs else "no unique initialisation")
    add_evs = [(ev, m) for ev, m in sx.calls_some(S.mcall(vis, "add", S.V("x")))]
    mark0 = [ev.nid for ev, m in add_evs if m["x"] == source and cfg.dominates(ev.nid, wh.id)]
    col.add(rule, f"{q}#mark-before-descent", bool(mark0), w.loc(mark0[0]) if mark0 else w.loc(w.fn),
            "the source vertex is marked visited before the traversal loop starts",
            f"visited.add sites: {[(sx.loc(e), S.show(m['x'])) for e, m in add_evs]}")
    # ---- pushes
    wh_body = [n.id for n in cfg.nodes.values() if n.kind == "T" and n.of == wh.id]
    pushes = [(nid, c) for nid, c in _pushes(w, todo) if any(cfg.dominates(b, nid) for b in wh_body)]
    if not pushes:
        col.add(rule, f"{q}#pushed-frame", False, w.loc(w.fn), "successors are pushed on the work stack", "no push found")
    unvisited = ("cmp", "not in", nb, vis)
    for nid, c in pushes:
        t = sym.of(c.args[0], nid) if c.args else ("opaque", "?")
        # the vertex pushed was found unvisited: at the push, or where the value pushed was picked
        vexpr = c.args[0].elts[0] if (c.args and isinstance(c.args[0], ast.Tuple) and c.args[0].elts) else None
        prov = sx.guarded_values(vexpr, nid) if vexpr is not None else []
        picked_unvisited = bool(prov) and all(tv == nb and unvisited in cs for tv, cs in prov)
        same_as_nb = set()
        if vexpr is not None and prov and all(tv == nb for tv, _cs in prov):
            # on every feasible path the vertex pushed is the successor just picked (a `{v | None}` merged over an infeasible path is v)
            vt = sym.of(vexpr, nid)
            if vt != nb:
                same_as_nb.add(vt)
                t = S.subst(t, {vt: nb})
        col.add(rule, f"{q}#pushed-frame", is_frame(t, nb), w.loc(nid),
                "a pushed frame pairs the successor with a fresh iterator over *its* successors in the given graph", S.show(t))
        col.add(rule, f"{q}#descend-only-unvisited", sx.under(nid, unvisited) or picked_unvisited, w.loc(nid),
                "descent into a successor happens only if it is not yet visited",
                f"conditions: {[S.show(x) for x in sx.conds(nid)]}")
        marks = [ev.nid for ev, m in add_evs if m["x"] == nb or m["x"] in same_as_nb]
        br = [b for b in sx.branches(unvisited) if fr.id in cfg.dominators(b)]
        marked = bool(marks) and bool(br) and all(R.must_pass(b, wh.id, marks) or not R.path_avoiding(b, nid, []) for b in br) \
            and all(R.must_pass(b, wh.id, marks) for b in br if R.path_avoiding(b, nid, []))
        col.add(rule, f"{q}#mark-on-push", marked, w.loc(nid),
                "a successor is marked visited when its frame is pushed (before the traversal loop resumes)",
                f"visited.add sites: {[(sx.loc(e), S.show(m['x'])) for e, m in add_evs]}")
        susp = not R.path_avoiding(nid, fr.id, [wh.id])
        col.add(rule, f"{q}#suspend-after-push", susp, w.loc(nid),
                "after pushing a frame the scan of the current frame is suspended (depth first): the successor loop is not "
                "continued before the traversal loop re-reads the top frame",
                "a path from the push back to the successor loop does not pass the traversal loop's test" if not susp else "")
    # ---- emission: of the frame's vertex, exactly when its iterator is exhausted, together with the pop
    e_term = sym.of(e_call.args[-1], e_nid) if e_call.args else ("opaque", "?")
    pops = [ev.nid for ev, m in sx.calls_some(("call", ("attr", S.ANY, "pop"), S.V("a"), ())) if
            isinstance(ev.node.func, ast.Attribute) and A.dotted(ev.node.func.value) == todo and not ev.node.args]
    frame_reads = [n.id for n in cfg.nodes.values() if n.kind == "stmt" and isinstance(n.ast, ast.Assign)
                   and S.match(sym.of(n.ast.value, n.id), top_frame) is not None]
    start = frame_reads[0] if frame_reads else [n.id for n in cfg.nodes.values() if n.kind == "T" and n.of == wh.id][0]
    only_when_done = bool(exhausted) and R.must_pass(start, e_nid, exhausted) and all(R.must_pass(start, p_, exhausted) for p_ in pops)
    paired = bool(pops) and all(R.must_pass(x, wh.id, [e_nid]) and R.must_pass(x, wh.id, pops) for x in exhausted)
    inner = [g for g in cfg.guards(e_nid) if g.kind == "T" and isinstance(g.ast, (ast.For, ast.AsyncFor))]
    col.add(rule, f"{q}#post-order-emission", only_when_done and paired and e_term == vtx_term and not inner, w.loc(e_nid),
            "a vertex is emitted exactly when its successor iterator is exhausted, and its frame is popped then (and only then)",
            f"emits {S.show(e_term)}; emission only after exhaustion: {only_when_done}; pop and emission paired: {paired}; pops: {len(pops)}")
    reread = all(cfg.dominates(f, fr.id) for f in frame_reads) if frame_reads else True
    col.add(rule, f"{q}#frame-read-each-iteration", reread and wh.id in cfg.dominators(fr.id), w.loc(fr.id),
            "each iteration of the traversal loop resumes the top frame of the work stack", "")


def _pushes(w, todo):
    out = []
    for nid in w.cfg.find(lambda x: isinstance(x, ast.Call) and isinstance(x.func, ast.Attribute)
                          and A.dotted(x.func.value) == todo and x.func.attr == "append"):
        for c in w.calls_at(nid, lambda c: isinstance(c.func, ast.Attribute) and A.dotted(c.func.value) == todo and c.func.attr == "append"):
            out.append((nid, c))
    return out


def _two_phase(col, rule, w, q, todo, pushes, adds, e_nid, e_var, graph_p, src_p, vis_p) -> bool:
    """Third template: every vertex is pushed twice, (v, False) to be expanded and (v, True) to be emitted.

    Sound only if a vertex is marked when it is *expanded* (popped), not when it is pushed: with all unvisited
    successors pushed at once, marking at push time lets a sibling that is also a descendant of another sibling be
    emitted before that sibling's subtree is finished (not a post-order).
    """
    cfg = w.cfg
    frame = None
    for n in cfg.nodes.values():
        if n.kind == "stmt" and isinstance(n.ast, ast.Assign) and isinstance(n.ast.value, ast.Call) \
                and isinstance(n.ast.value.func, ast.Attribute) and A.dotted(n.ast.value.func.value) == todo \
                and n.ast.value.func.attr == "pop" and not n.ast.value.args:
            names = A.target_names(n.ast.targets[0])
            if len(names) == 2:
                frame = (n.id, names[0], names[1])
    if frame is None:
        return False
    col.info["dfs_template"] = "two-phase explicit stack"
    f_nid, vtx, flag = frame
    emit_guard = has_guard(cfg, e_nid, "T", lambda t: A.dotted(t) == flag)
    col.add(rule, f"{q}#post-order-emission", emit_guard and e_var == vtx, w.loc(e_nid),
            "a vertex is emitted when its second (emit) entry is popped", f"emits `{e_var}`")
    for nid, c in pushes:
        t = c.args[0] if c.args else None
        if not (isinstance(t, ast.Tuple) and len(t.elts) == 2):
            raise AnalysisError(f"{q}: unrecognised push {A.src(c)}")
        nv = A.dotted(t.elts[0])
        if A.is_const(t.elts[1], True):
            col.add(rule, f"{q}#emit-entry-below-successors", nv == vtx and all(
                not cfg.path_avoiding(p2, nid, [f_nid]) for p2, c2 in pushes if p2 != nid), w.loc(nid),
                "the emit entry of a vertex is pushed before (below) the entries of its successors", A.src(c))
            continue
        loops = [g for g in cfg.guards(nid) if g.kind == "T" and isinstance(g.ast, ast.For)]
        nb_ok = bool(loops) and A.target_names(loops[0].ast.target) == [nv] and _neighbours_of(loops[0].ast.iter, graph_p) == vtx
        col.add(rule, f"{q}#successors-of-current-vertex", nb_ok, w.loc(nid),
                "the successors pushed are those of the vertex being expanded", A.src(loops[0].ast.iter) if loops else "")
        marked_at_push = any(v == nv and (cfg.dominates(a, nid) or cfg.dominates(nid, a)) and
                             any(g.kind == "T" and isinstance(g.ast, ast.For) for g in cfg.guards(a)) for a, v in adds)
        col.add(rule, f"{q}#mark-on-expansion-not-on-push", not marked_at_push, w.loc(nid),
                "with all successors pushed at once a vertex must be marked visited when it is expanded, not when it is "
                "pushed (otherwise a sibling that is also a descendant is emitted before its ancestor's subtree is done)",
                f"visited.add sites: {adds}")
    # expansion marks the vertex under a not-visited guard
    exp_marks = [a for a, v in adds if v == vtx]
    ok = bool(exp_marks) and all(guarded_unvisited(w, a, vtx, vis_p) or
                                 any(isinstance(cfg.nodes[s].ast, ast.Continue) for s in cfg.g.successors(a)) for a in exp_marks)
    col.add(rule, f"{q}#mark-before-descent", ok, w.loc(exp_marks[0]) if exp_marks else w.loc(w.fn),
            "a vertex popped for expansion is skipped if already visited and marked otherwise", f"visited.add sites: {adds}")
    return True
