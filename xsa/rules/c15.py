"""C15 -- the optimizer log is truthful: reload reproduces a row, steps never end worse."""
from __future__ import annotations

import ast

from .. import astutil as A
from .. import sym as S
from ..core import AnalysisError, Collector
from ..dataflow import MUTATORS
from .common import SCtx, sctx
from . import c09
from .c09 import ERR, FLAG, LOG, octx

PROP = "C15"
FLOORS = {"C15.R1": 24, "C15.R2": 6, "C15.R3": 5, "C15.R4": 6, "C15.R5": 6, "C15.R6": 8}
META = {
    "explanation": "Rectangular log: every region that appends a row (the body of the step loop -- helpers inlined --, "
                   "add_point_to_log) appends to each key of the `_log` literal exactly once on every normal path (path-sensitive "
                   "over the CFG), log() reads only those keys, nothing else appends; reload restores every knob and both kinds of "
                   "flags from one row (shared with C09.R5); take_best takes argmin over the penalties logged from the starting "
                   "point of *this* call (window start evaluated after the starting point was logged, same offset added back), only "
                   "when take_best and not within tolerance; penalty and knob vector of a row describe the same point, and the "
                   "penalty is computed by a real evaluation (never answered from a remembered one). vary_active/target_active take the mask of their own side read when the row is written; set_knobs_from_x writes every active knob; disabled targets contribute exactly zero.",
    "decides": "rectangularity of the log on all paths, window arithmetic of take_best, ordering of the statements that build a row",
    "not_decided": "reproducibility of a row by re-evaluation (numeric)",
    "assumptions": ["the solver's penalty_after_last_step refers to solver.x (C10.R4 trial = commit)"],
}

SOLVER = S.sattr("solver")
NP = ("glob", "np")


def col_of(key):
    return ("sub", LOG, ("const", repr(key)))


def _log_keys(repo):
    sx = octx(repo, "Optimize", "__init__")
    for e in sx.of_kind("store"):
        if e.target == LOG:
            v = e.value
            if S.is_call_of(v, ("glob", "dict")):
                return [k for k, _ in v[3]], all(x in (("list", ()), ("acc", "list", ())) for _, x in v[3]), sx, e
            if v[:1] == ("dict",):
                return [k[1].strip("'\"") for k, _ in v[1]], all(x in (("list", ()), ("acc", "list", ())) for _, x in v[1]), sx, e
            if v[:1] == ("acc",) and v[1] == "dict":
                ks = [c[2][1].strip("'\"") for c in v[2] if c[0] == "kv" and c[2][:1] == ("const",)]
                # {k: [] for k in FIELDS} over a module-level tuple of names (or a display written in place)
                for c in v[2]:
                    if c[0] == "kv" and c[2][:1] == ("elem",) and not c[1]:
                        dom = c[2][1]
                        names = None
                        if dom[:1] == ("glob",):
                            cv = getattr(sx.cx.module, "consts", {}).get(dom[1])
                            if isinstance(cv, (ast.Tuple, ast.List)) and all(isinstance(x, ast.Constant) and isinstance(x.value, str) for x in cv.elts):
                                names = [x.value for x in cv.elts]
                        elif dom[:1] in (("tuple",), ("list",)) and all(x[:1] == ("const",) for x in dom[1]):
                            names = [x[1].strip("'\"") for x in dom[1]]
                        if names:
                            ks.extend(names)
                return ks, all(c[3] in (("list", ()), ("acc", "list", ())) for c in v[2] if c[0] == "kv"), sx, e
    raise AnalysisError("Optimize.__init__: the `_log` literal was not found")


def _appends(sx: SCtx):
    """{key: [(event, value term)]} for self._log[key].append(value)"""
    out = {}
    for ev, m in sx.calls_some(("call", ("attr", ("sub", LOG, S.V("k")), "append"), (S.V("v"),), ())):
        k = m["k"]
        if k[:1] == ("const",):
            out.setdefault(k[1].strip("'\""), []).append((ev, m["v"]))
        else:
            out.setdefault("?" + S.show(k), []).append((ev, m["v"]))
    return out


def _keys_read(sx: SCtx):
    out = set()
    for ev in sx.events:
        tms = [ev.term] if ev.kind == "call" else [x for x in (ev.value, ev.target) if x is not None]
        for tm in tms:
            for s_ in S.subterms(tm):
                if s_[:1] == ("sub",) and s_[1] == LOG:
                    k = s_[2]
                    if all(x[:1] == ("const",) for x in S.alts(k)):
                        out |= {x[1].strip("'\"") for x in S.alts(k)}
                    elif k[:1] == ("elem",) and k[1][:1] in (("tuple",), ("list",)):
                        out |= {x[1].strip("'\"") for x in k[1][1] if x[:1] == ("const",)}
                    elif k[:1] == ("elem",) and k[1] == LOG:
                        out.add("*")
    return out


def _step_loop(sx: SCtx):
    cfg = sx.cfg
    loops = [n for n in cfg.nodes.values() if n.kind == "for" and S.is_call_of(sx.sym.of(n.ast.iter, n.id), ("glob", "range"))
             and any(ev.nid in cfg.reachable([b.id for b in cfg.nodes.values() if b.kind == "T" and b.of == n.id][0], avoid=[n.id])
                     for ev, m in sx.calls_some(("call", ("attr", SOLVER, "step"), S.ANY, S.ANY)))]
    if len(loops) != 1:
        raise AnalysisError("Optimize.step: the loop around self.solver.step(...) was not recognised (cannot decide)")
    L = loops[0].id
    tb = [b.id for b in cfg.nodes.values() if b.kind == "T" and b.of == L][0]
    return L, tb


def _rectangular(col, rule="C15.R1"):
    repo = col.repo
    keys, empty, isx, iev = _log_keys(repo)
    opt = repo.cls("Optimize")
    col.add(rule, "Optimize.__init__#log-starts-empty", empty and len(keys) == len(set(keys)), isx.loc(iev),
            "the log starts as one empty list per key", str(keys))
    col.info["log_keys"] = keys
    sx = octx(repo, "Optimize", "add_point_to_log")
    cfg = sx.cfg
    ap = _appends(sx)
    for k in keys:
        nodes = [ev.nid for ev, v in ap.get(k, [])]
        once = bool(nodes) and cfg.must_pass(cfg.ENTRY, cfg.EXIT, nodes)
        twice = any(cfg.path_avoiding(a, b, []) for a in nodes for b in nodes)
        col.add(rule, f"Optimize.add_point_to_log#appends-once:{k}", once and not twice, sx.loc(nodes[0]) if nodes else sx.loc(sx.fn),
                f"logging a point appends exactly one entry to `{k}` on every normal path", f"{len(nodes)} append statements")
    extra = [k for k in ap if k not in keys]
    col.add(rule, "Optimize.add_point_to_log#only-declared-keys", not extra, sx.loc(sx.fn), "no entry is appended under an undeclared key", str(extra))
    # ---- the step loop
    sx = octx(repo, "Optimize", "step")
    cfg = sx.cfg
    L, tb = _step_loop(sx)
    body = {n for n in cfg.nodes if cfg.dominates(tb, n) and n in (cfg.reachable(tb) | {tb})}
    # exits of one iteration: back to the header, or out of the loop through a break (first node outside the body region)
    exits = {L}
    for n in body:
        for s_ in cfg.g.successors(n):
            if s_ not in body and s_ != L and cfg.g[n][s_]["kind"] != "x":
                exits.add(s_)
    ap = _appends(sx)
    for k in keys:
        nodes = [ev.nid for ev, v in ap.get(k, []) if ev.nid in body]
        once = bool(nodes) and all(not cfg.path_avoiding(tb, e, nodes + [x for x in exits if x != e]) for e in exits)
        twice = any(cfg.path_avoiding(a, b, [L]) for a in nodes for b in nodes)
        col.add(rule, f"Optimize.step#loop-appends-once:{k}", once and not twice, sx.loc(nodes[0]) if nodes else sx.loc(L),
                f"every completed iteration of the step loop (also the one that ends it with `break`) appends exactly one entry to `{k}`",
                f"{len(nodes)} append statements in the loop; on every path: {once}; twice on some path: {twice}")
    stray = {k: [ev.nid for ev, v in lst if ev.nid not in body] for k, lst in ap.items()}
    stray = {k: v for k, v in stray.items() if v}
    col.add(rule, "Optimize.step#no-append-outside-loop", not stray, sx.loc(sx.fn), "step appends rows only inside its loop (start point through tag())", str(list(stray)))
    # ---- who else appends / mutates the log
    others = []
    seen = set()
    for name, fn in opt.methods.items():
        if id(fn) in seen or name in ("add_point_to_log", "step", "__init__", "clear_log") or "_log" not in A.src(fn):
            continue
        seen.add(id(fn))
        if name.startswith("_") and not name.startswith("__") and name not in c09.OPT_KEEP:
            continue    # private helper: judged where it is inlined
        msx = octx(repo, "Optimize", name)
        for ev in msx.events:
            if ev.kind == "call":
                f = ev.term[1]
                if f[:1] == ("attr",) and f[2] in MUTATORS and f[1][:1] == ("sub",) and f[1][1] == LOG:
                    others.append(f"{name}: {S.show(ev.term)[:50]}")
            elif ev.kind in ("store", "del"):
                for t in S.alts(ev.target):
                    if (t[:1] == ("sub",) and t[1] == LOG) or (t[:1] == ("sub",) and t[1][:1] == ("sub",) and t[1][1] == LOG):
                        others.append(f"{name}: {S.show(t)[:50]}")
    col.add(rule, "Optimize#no-other-log-writer", not others, opt.module.rel, "no other method appends to, removes from or overwrites log columns", str(others))
    csx = octx(repo, "Optimize", "clear_log")
    clears = csx.calls_some(("call", ("attr", ("sub", LOG, ("elem", LOG)), "clear"), (), ())) or \
        csx.calls_some(("call", ("attr", ("elem", S.mcall(LOG, "values")), "clear"), (), ())) or \
        csx.calls_some(("call", ("attr", ("val", LOG), "clear"), (), ()))
    logs = csx.calls_some(("call", ("attr", S.SELF, "add_point_to_log"), S.ANY, S.ANY))
    ok = len(clears) == 1 and not csx.conds(clears[0][0].nid) and bool(logs) and all(csx.cfg.dominates(clears[0][0].nid, ev.nid) or True for ev, m in logs)
    col.add(rule, "Optimize.clear_log#all-keys", ok, csx.loc(csx.fn), "clear_log empties every column and logs the current point", "")
    lsx = octx(repo, "Optimize", "log")
    stored = []
    for r in lsx.of_kind("return"):
        for a in S.instances(r.value, 16):
            root = a
            while root[:1] in (("sub",), ("item",), ("attr",)) and root != S.SELF and not S.is_attr(root, S.SELF):
                root = root[1]
            if S.is_attr(root, S.SELF) and root != LOG:
                stored.append(S.show(a)[:60])
    col.add(rule, "Optimize.log#built-from-the-log-on-every-call", not stored, lsx.loc(lsx.fn),
            "log() builds its table from the current log lists on every call (a table kept from an earlier call describes another history)",
            f"returns stored object(s): {stored}")
    read = _keys_read(lsx)
    col.add(rule, "Optimize.log#reads-declared-keys", "*" in read or (read - {"*"} <= set(keys) and not (set(keys) - read)), lsx.loc(lsx.fn),
            "log() builds its table from the declared columns, all of them", f"missing: {sorted(set(keys) - read)} undeclared: {sorted(read - set(keys) - {'*'})}")
    tsx = octx(repo, "Optimize", "tag")
    tg = tsx.P(0)
    ok = bool(tsx.calls_some(("call", ("attr", S.SELF, "add_point_to_log"), (), (("tag", tg),)))) or bool(tsx.calls_some(S.mcall(S.SELF, "add_point_to_log", tg)))
    col.add(rule, "Optimize.tag#logs-point", ok, tsx.loc(tsx.fn), "tag() logs the current point under the tag", "")


def _take_best(col, rule="C15.R3"):
    repo = col.repo
    sx = octx(repo, "Optimize", "step")
    cfg = sx.cfg
    q = "Optimize.step"
    L, tb = _step_loop(sx)
    start = [ev.nid for ev, m in sx.calls_some(("call", ("attr", S.SELF, S.V("m", lambda t: t in ("_add_starting_point_to_log_and_print", "tag", "add_point_to_log"))), S.ANY, S.ANY))
             if cfg.path_avoiding(ev.nid, L, [])]
    pen = col_of("penalty")
    ILS = ("op", "-", S.fcall("len", pen), ("const", "1"))
    # where the window start is evaluated: every evaluation of len(self._log['penalty']) before the loop
    lens = [ev.nid for ev, m in sx.calls_some(S.fcall("len", pen)) if cfg.path_avoiding(ev.nid, L, [])]
    ok = bool(start) and bool(lens) and all(any(cfg.dominates(s_, n) for s_ in start) for n in lens)
    col.add(rule, f"{q}#window-starts-at-this-call's-starting-point", ok, sx.loc(lens[0]) if lens else sx.loc(sx.fn),
            "the take_best window starts at the row logged as this call's starting point: its index is taken after that row was appended",
            f"start-point logging at {[sx.loc(s_) for s_ in start]}, log length read at {[sx.loc(n) for n in lens]}")
    # the helper that logs the starting point does so on every path (not only when it also prints)
    if repo.has_method("Optimize", "_add_starting_point_to_log_and_print") and any(
            cfg.nodes[s_].ast is not None and "_add_starting_point_to_log_and_print" in A.src(cfg.nodes[s_].ast) for s_ in start):
        hx = octx(repo, "Optimize", "_add_starting_point_to_log_and_print")
        logs = [ev.nid for ev, m in hx.calls_some(("call", ("attr", S.SELF, S.V("m", lambda t: t in ("tag", "add_point_to_log"))), S.ANY, S.ANY))]
        okh = bool(logs) and hx.cfg.must_pass(hx.cfg.ENTRY, hx.cfg.EXIT, logs)
        col.add(rule, "Optimize._add_starting_point_to_log_and_print#logs-on-every-path", okh, hx.loc(hx.fn),
                "the starting point is logged whatever the verbosity: the take_best window and the restore point rely on that row",
                "a path reaches the end without tag()/add_point_to_log()" if not okh else "", positive=bool(logs) and not okh)
    rl = [(ev, m) for ev, m in sx.calls_some(("call", ("attr", S.SELF, "reload"), S.V("a"), S.V("k")))]
    if len(rl) != 1:
        col.fail(rule, f"{q}#take-best-reload", sx.loc(sx.fn), "step reloads the best row once", f"{len(rl)} reload calls")
        return
    ev, m = rl[0]
    it = (list(m["a"][:1]) + [v for k_, v in m["k"] if k_ == "iteration"])[0]
    window = ("sub", pen, ("slice", ILS, None, None))
    best = S.fcall(("attr", NP, "argmin"), window)
    okmin = S.match(it, ("op", "+", best, ILS)) is not None
    has_argmin = S.contains(it, lambda t: S.is_call_of(t, ("attr", NP, "argmin")))
    col.add(rule, f"{q}#argmin-over-window", has_argmin and S.contains(it, lambda t: t == window), sx.loc(ev),
            "the best point is the argmin (not argmax) of the penalties logged since the window start", f"reload({S.show(it)[:120]})")
    col.add(rule, f"{q}#same-offset-added-back", okmin, sx.loc(ev), "the row reloaded is window start + index within the window", S.show(it)[:120])
    conds = sx.conds(ev.nid)
    tbp = sx.pnamed("take_best")
    okg = tbp in conds and ("uop", "not", FLAG) in conds and any(c[:1] == ("cmp",) and c[1] == "!=" and best in (c[2], c[3]) for c in conds) and len(conds) == 3
    col.add(rule, f"{q}#only-when-take_best-and-not-matched", okg, sx.loc(ev),
            "a row is reloaded only if take_best is set, the last point is not within tolerance and the best row is not the last one",
            str([S.show(c)[:60] for c in conds]))
    col.add(rule, f"{q}#after-the-steps", not cfg.path_avoiding(ev.nid, L, []), sx.loc(ev), "the best point is chosen after the steps", "")
    body = {n for n in cfg.nodes if cfg.dominates(tb, n)}
    leave = [b for b in sx.branches(FLAG) if b in body and not cfg.path_avoiding(b, L, [])]
    col.add(rule, f"{q}#stops-when-matched", bool(leave), sx.loc(leave[0]) if leave else sx.loc(sx.fn), "the loop ends on the first point within tolerance", "")


def _value_nodes(sx: SCtx, expr, at: int, depth=4):
    """CFG nodes at which the value of `expr` (used at node `at`) was computed"""
    if isinstance(expr, ast.Name) and depth > 0:
        ds = [d for d in sx.cx.rd.reaching(at, expr.id) if d.kind == "assign"]
        out = []
        for d in ds:
            out += _value_nodes(sx, d.value, d.nid, depth - 1)
        return out or [at]
    return [at]


def _row_consistency(col, rule="C15.R4"):
    repo = col.repo
    sx = octx(repo, "Optimize", "step")
    cfg = sx.cfg
    q = "Optimize.step"
    ap = _appends(sx)
    st = [ev.nid for ev, m in sx.calls_some(("call", ("attr", SOLVER, "step"), S.ANY, S.ANY))]
    setk = [(ev, m) for ev, m in sx.calls_some(S.mcall(S.SELF, "set_knobs_from_x", S.V("x")))]
    ok = len(st) == 1 and len(setk) == 1 and setk[0][1]["x"] == ("attr", SOLVER, "x") and cfg.dominates(st[0], setk[0][0].nid)
    col.add(rule, f"{q}#knobs-set-from-solver-x-after-solver-step", ok, sx.loc(setk[0][0]) if setk else sx.loc(sx.fn),
            "after each solver step the containers receive the solver's current x", "")
    # ... and set_knobs_from_x does write them: each active knob receives its coordinate of _x_to_knobs(x)
    kx = octx(repo, "Optimize", "set_knobs_from_x")
    conv = S.mcall(ERR, "_x_to_knobs", kx.P(0))
    wr, V_, VL = [], None, None
    for VL in (S.sattr("vary"), ("attr", ERR, "vary")):     # the optimizer's list is the merit function's list
        V_ = ("elem", VL)
        kt = ("sub", ("attr", V_, "container"), ("attr", V_, "name"))
        wr = [e for e in kx.of_kind("store") if e.target == kt]
        if wr:
            break
    if wr:
        okw = all(e.value in (("elem", conv), ("sub", conv, ("index", VL))) and
                  [c for c in kx.conds(e.nid)] in ([("attr", V_, "active")], []) for e in wr) and \
            all(any(VL in (l[2] if S.is_call_of(l, ("glob", "zip")) else (l,)) for l in kx.sym.loops(e.nid)) for e in wr)
        facts = "; ".join(f"{S.show(e.value)[:50]} under {[S.show(c) for c in kx.conds(e.nid)]}" for e in wr)
    else:
        via = kx.calls_some(("call", ("attr", ERR, S.V("m", lambda t: t in ("_set_x", "__call__"))), S.ANY, S.ANY)) or \
            kx.calls_some(("call", ERR, S.ANY, S.ANY))
        other = [e for e in kx.of_kind("store") if e.target[:1] == ("sub",) and e.target[1][:1] == ("attr",) and e.target[1][2] == "container"]
        if via or other:
            raise AnalysisError("Optimize.set_knobs_from_x: the knobs are written through the merit function or over an iteration that is not "
                                "`self.vary` itself (cannot decide)")
        okw, facts = False, "no store to vv.container[vv.name]"
    col.add(rule, "Optimize.set_knobs_from_x#writes-each-active-knob", okw, kx.loc(wr[0]) if wr else kx.loc(kx.fn),
            "set_knobs_from_x stores coordinate i of _x_to_knobs(x) into knob i, for every active knob", facts)
    pen = ap.get("penalty", [])
    okp = len(pen) == 1 and bool(st) and cfg.dominates(st[0], pen[0][0].nid) and pen[0][1] == ("attr", SOLVER, "penalty_after_last_step")
    col.add(rule, f"{q}#penalty-of-the-accepted-point", okp, sx.loc(pen[0][0]) if pen else sx.loc(sx.fn),
            "the penalty logged is the solver's penalty after the step just taken", S.show(pen[0][1]) if pen else "")
    kn = ap.get("knobs", [])
    okk = False
    if len(kn) == 1 and setk:
        ev, v = kn[0]
        arg = ev.node.args[0]
        nodes = _value_nodes(sx, arg, ev.nid)
        okk = v in c09.KNOBS_ALTS and all(cfg.dominates(setk[0][0].nid, n) for n in nodes)
    col.add(rule, f"{q}#knobs-read-after-they-were-set", okk, sx.loc(kn[0][0]) if kn else sx.loc(sx.fn),
            "the knob vector logged is read from the containers after set_knobs_from_x", "")
    # ---- add_point_to_log
    sx = octx(repo, "Optimize", "add_point_to_log")
    cfg = sx.cfg
    ap = _appends(sx)
    KN = c09.KNOBS
    evs = sx.calls_some(S.mcall(SOLVER, "eval", S.V("x")))
    ok = len(evs) == 1 and all(cfg.dominates(evs[0][0].nid, e.nid) for k in ("targets", "tol_met", "penalty") for e, v in ap.get(k, []))
    col.add(rule, "Optimize.add_point_to_log#evaluate-before-reading-results", ok, sx.loc(evs[0][0]) if evs else sx.loc(sx.fn),
            "the point is evaluated before its target values, tolerance flags and penalty are logged", "")
    if evs:
        ev, m = evs[0]
        okx = any(m["x"] == S.mcall(ERR, "_knobs_to_x", kn) and len(ap.get("knobs", [])) == 1 and ap["knobs"][0][1] == kn
                  for kn in c09.KNOBS_ALTS)
        col.add(rule, "Optimize.add_point_to_log#evaluates-current-knobs", okx, sx.loc(ev),
                "the point evaluated is the knob vector that is logged", S.show(m["x"]))
        pn = ap.get("penalty", [])
        okp = len(pn) == 1 and pn[0][1] == ("item", ev.term, 1)
        col.add(rule, "Optimize.add_point_to_log#penalty-from-that-evaluation", okp, sx.loc(sx.fn), "the penalty logged is the one just computed",
                S.show(pn[0][1])[:80] if pn else "")
    ex = octx(repo, "JacobianSolver", "eval")
    xp = ex.P(0)
    y = S.mcall(S.SELF, "func", xp)
    rets = ex.of_kind("return")
    norm = S.fcall(("attr", NP, "sqrt"), S.fcall(("attr", NP, "dot"), y, y))
    ok = bool(rets) and all(a == ("tuple", (y, norm)) for r in rets for a in S.alts(r.value))
    calls = [e.nid for e, m in ex.calls_some(y)]
    ok = ok and bool(calls) and ex.cfg.must_pass(ex.cfg.ENTRY, ex.cfg.EXIT, calls)
    col.add(rule, "JacobianSolver.eval#penalty-is-norm-of-residuals", ok, ex.loc(ex.fn),
            "the penalty is the Euclidean norm of the residual vector obtained by calling the merit function at x, on every path "
            "(never a remembered value: masks and targets may have changed without x moving)", S.show(rets[0].value)[:100] if rets else "")


def _published_arrays(col, rule="C15.R4"):
    """what the merit function publishes as the result of the last evaluation (last_res_values, last_residue_values,
    last_targets_within_tol: read by the log) is not modified afterwards through another name of the same array"""
    sx = octx(col.repo, "MeritFunctionForMatch", "__call__")
    cfg = sx.cfg
    import ast as _ast
    n = 0
    for e in sx.of_kind("store"):
        if not (S.is_attr(e.target, S.SELF) and e.target[2].startswith("last_")):
            continue
        node = e.node if hasattr(e, "node") else None
        v = getattr(node, "value", None)
        if not isinstance(v, _ast.Name):
            continue        # a copy / fresh expression is published
        n += 1
        name = v.id
        later = []
        for nd in cfg.nodes.values():
            st = nd.ast
            if st is None or nd.kind != "stmt" or not cfg.path_avoiding(e.nid, nd.id, []):
                continue
            # the name must still denote the published array there
            if {d.nid for d in sx.cx.rd.reaching(nd.id, name) if d.strong} != {d.nid for d in sx.cx.rd.reaching(e.nid, name) if d.strong}:
                continue
            if isinstance(st, _ast.Assign) and any(isinstance(t, _ast.Subscript) and isinstance(t.value, _ast.Name) and t.value.id == name for t in st.targets):
                later.append(sx.loc(nd.id))
            elif isinstance(st, _ast.AugAssign) and ((isinstance(st.target, _ast.Name) and st.target.id == name) or
                                                     (isinstance(st.target, _ast.Subscript) and isinstance(st.target.value, _ast.Name) and st.target.value.id == name)):
                later.append(sx.loc(nd.id))
            else:
                for c in _ast.walk(st):
                    if isinstance(c, _ast.Call) and any(kw.arg == "out" and isinstance(kw.value, _ast.Name) and kw.value.id == name for kw in c.keywords):
                        later.append(sx.loc(nd.id))
        col.add(rule, f"MeritFunctionForMatch.__call__#published-{e.target[2]}-not-modified-afterwards", not later, sx.loc(e),
                f"`{name}`, published as self.{e.target[2]}, is not written in place after that (the log row would hold the modified values)",
                f"in-place writes at {later}")
    col.count("published_arrays", n)


def _mask_columns(col, rule="C15.R6"):
    """the `vary_active` / `target_active` entries of a row are the masks in force when the row's point was evaluated:
    each column takes the mask of its own side, read at the time the row is written (not before a call that changes flags)"""
    repo = col.repo
    side = {"vary_active": (("attr", ERR, "mask_input"), ("attr", ERR, "mask_output"), S.sattr("vary"), S.sattr("targets")),
            "target_active": (("attr", ERR, "mask_output"), ("attr", ERR, "mask_input"), S.sattr("targets"), S.sattr("vary"))}
    n = 0
    for meth in ("add_point_to_log", "step"):
        sx = octx(repo, "Optimize", meth)
        cfg = sx.cfg
        ap = _appends(sx)
        flips = [ev.nid for ev, m in sx.calls_some(("call", ("attr", S.SELF, S.V("m", lambda t: t in ("enable", "disable", "_set_state"))), S.ANY, S.ANY))]
        flips += [ev.nid for ev, m in sx.calls_some(("call", ("glob", "_set_state"), S.ANY, S.ANY))]
        flips += [e.nid for e in sx.of_kind("store") if e.target[:1] == ("attr",) and e.target[2] == "active"]
        for key, (own, other, own_list, other_list) in side.items():
            for ev, v in ap.get(key, []):
                n += 1
                subs = set(S.subterms(v))
                has_own = own in subs or any(t[:1] == ("attr",) and t[2] == "active" and t[1] == ("elem", own_list) for t in subs)
                has_other = other in subs or any(t[:1] == ("attr",) and t[2] == "active" and t[1] == ("elem", other_list) for t in subs)
                if not has_own and not has_other:
                    raise AnalysisError(f"Optimize.{meth}: the value appended to `{key}` ({S.show(v)[:80]}) is not derived from the masks in a recognised way (cannot decide)")
                col.add(rule, f"Optimize.{meth}#{key}-from-own-mask", has_own and not has_other, sx.loc(ev),
                        f"`{key}` records the {'knob' if key == 'vary_active' else 'target'} mask (reload restores the flags of that side from it)",
                        S.show(v)[:100])
                arg = ev.node.args[0] if getattr(ev, "node", None) is not None and getattr(ev.node, "args", None) else None
                nodes = _value_nodes(sx, arg, ev.nid) if arg is not None else [ev.nid]
                stale = [f for f in flips for d in nodes if d != ev.nid and cfg.path_avoiding(d, f, []) and cfg.path_avoiding(f, ev.nid, [d])]
                col.add(rule, f"Optimize.{meth}#{key}-read-when-the-row-is-written", not stale, sx.loc(ev),
                        "the mask is read after the last change of active flags that precedes the row (the temporary enable/disable of step() included)",
                        f"flags may change at {[sx.loc(f) for f in stale[:2]]} between the read and the append")
    col.count("mask_column_appends", n)


def check(col: Collector):
    with col.rule():
        _rectangular(col)
    with col.rule():
        _mask_columns(col)
    with col.rule():
        c09.check_reload(col, rule="C15.R2")
    with col.rule():
        _take_best(col)
    with col.rule():
        _row_consistency(col)
    with col.rule():
        _published_arrays(col)
    # "within all tolerances" in step() is the flag the merit function computes: same obligations as C09.R3/R4
    from .common import shared
    with col.rule():
        shared(col, "C15.R5", [c09._flag],
               why="step() stops and skips take_best on the strength of last_point_within_tol")
    # the row logged after a solver step pairs knobs/penalty of the committed point with the merit function's side state
    # (target values, tol_met) -- they belong to one point only if the committed point is the one evaluated last
    from . import c10
    from .common import construct_tag
    with col.rule():
        shared(col, "C15.R5", [c10._masks], select=lambda o: construct_tag(o) in ("disabled-targets-zeroed", "disabled-targets-stay-zero"),
               why="the penalty of a row is that of the active targets under the row's masks: a disabled target (whatever its value, NaN included) "
                   "contributes exactly 0")
    with col.rule():
        shared(col, "C15.R5", [c10._limits], select=lambda o: construct_tag(o) in ("trial-equals-commit", "both-limit-sides"),
               why="the log row reads the merit function's last evaluation next to the committed knobs")
    # round 7: the residuals of a row are taken against target values read at that row's point
    from . import c09 as _c09
    with col.rule():
        shared(col, "C15.R7", [_c09._target_values_stay_as_given], select=lambda o: "read-after-the-actions" in o.construct,
               why="a reference-valued target read before the knobs are written belongs to the previously evaluated point: the logged "
                   "penalty is not reproduced by evaluating the logged knobs")
