"""C15 -- the optimizer log is truthful: reload reproduces a row, steps never end worse."""
from __future__ import annotations

import ast

from .. import astutil as A
from ..core import AnalysisError, Collector
from .common import FnCtx, fnctx, has_guard, is_method_call, is_self_call
from . import c09

PROP = "C15"
FLOORS = {"C15.R1": 24, "C15.R2": 6, "C15.R3": 6, "C15.R4": 5}
META = {
    "explanation": "Rectangular log: every region that appends a row (the step-loop body, add_point_to_log) appends to each key of the "
                   "`_log` literal exactly once on every normal path (path-sensitive over the CFG), log() reads only those keys, nothing "
                   "else appends; reload restores every knob and both kinds of flags from one row (shared with C09.R5); take_best takes "
                   "argmin over the penalties logged from the starting point of *this* call (window start defined after the starting "
                   "point was logged, same offset added back), only when take_best and not within tolerance; penalty and knob vector "
                   "of a step row describe the same point.",
    "decides": "rectangularity of the log on all paths, window arithmetic of take_best, ordering of the statements that build a row",
    "not_decided": "reproducibility of a row by re-evaluation (numeric)",
    "assumptions": ["the solver's penalty_after_last_step refers to solver.x (C10.R4 trial = commit)"],
}


def log_key(node):
    """k if node is self._log['k']"""
    if isinstance(node, ast.Subscript) and A.dotted(node.value) == "self._log" and isinstance(node.slice, ast.Constant):
        return node.slice.value
    return None


def _log_keys(repo):
    init = repo.method("Optimize", "__init__")
    for n in A.walk(init):
        if isinstance(n, ast.Assign) and A.dotted(n.targets[0]) == "self._log":
            v = n.value
            if isinstance(v, ast.Call) and A.call_name(v) == "dict":
                return [k.arg for k in v.keywords], all(isinstance(k.value, ast.List) and not k.value.elts for k in v.keywords), n
            if isinstance(v, ast.Dict):
                return [A.const(k) for k in v.keys], all(isinstance(x, ast.List) and not x.elts for x in v.values), n
    raise AnalysisError("Optimize.__init__: the `_log` literal was not found")


def _append_nodes(cx: FnCtx):
    out = {}
    for nid in cx.call_nodes(lambda c: isinstance(c.func, ast.Attribute) and c.func.attr == "append" and log_key(c.func.value) is not None):
        for c in cx.calls_at(nid, lambda c: isinstance(c.func, ast.Attribute) and c.func.attr == "append" and log_key(c.func.value) is not None):
            out.setdefault(log_key(c.func.value), []).append(nid)
    return out


def _rectangular(col, rule="C15.R1"):
    repo = col.repo
    keys, empty, node = _log_keys(repo)
    opt = repo.cls("Optimize")
    col.add(rule, "Optimize.__init__#log-starts-empty", empty and len(keys) == len(set(keys)), opt.module.loc(node),
            "the log starts as one empty list per key", str(keys))
    col.info["log_keys"] = keys
    # region 1: add_point_to_log
    cx = fnctx(repo, "Optimize", "add_point_to_log")
    cfg = cx.cfg
    ap = _append_nodes(cx)
    for k in keys:
        nodes = ap.get(k, [])
        once = bool(nodes) and cfg.must_pass(cfg.ENTRY, cfg.EXIT, nodes)
        twice = any(cfg.path_avoiding(a, b, []) for a in nodes for b in nodes)
        col.add(rule, f"Optimize.add_point_to_log#appends-once:{k}", once and not twice, cx.loc(nodes[0]) if nodes else cx.loc(cx.fn),
                f"logging a point appends exactly one entry to `{k}` on every normal path", f"{len(nodes)} append statements")
    extra = [k for k in ap if k not in keys]
    col.add(rule, "Optimize.add_point_to_log#only-declared-keys", not extra, cx.loc(cx.fn), "no entry is appended under an undeclared key", str(extra))
    # region 2: the step loop
    cx = fnctx(repo, "Optimize", "step")
    cfg = cx.cfg
    loops = [n for n in cfg.nodes.values() if n.kind == "for" and "range" in A.src(n.ast.iter)]
    if len(loops) != 1:
        raise AnalysisError("Optimize.step: step loop not recognised")
    L = loops[0].id
    tb = [b.id for b in cfg.nodes.values() if b.kind == "T" and b.of == L][0]
    fb = [b.id for b in cfg.nodes.values() if b.kind == "F" and b.of == L][0]
    breaks = [n.id for n in cfg.nodes.values() if n.kind == "stmt" and isinstance(n.ast, ast.Break)]
    ap = _append_nodes(cx)
    outside = {k: [n for n in v if not (cfg.path_avoiding(tb, n, [L]) )] for k, v in ap.items()}
    for k in keys:
        nodes = [n for n in ap.get(k, []) if cfg.path_avoiding(tb, n, [L])]
        ends = [L] + breaks
        once = bool(nodes) and all(cfg.must_pass(tb, e, nodes, ) if e == L else not cfg.path_avoiding(tb, e, nodes + [L]) for e in ends)
        twice = any(cfg.path_avoiding(a, b, [L]) for a in nodes for b in nodes)
        col.add(rule, f"Optimize.step#loop-appends-once:{k}", once and not twice, cx.loc(nodes[0]) if nodes else cx.loc(L),
                f"every completed iteration of the step loop (also the one that ends it with `break`) appends exactly one entry to `{k}`",
                f"{len(nodes)} append statements in the loop; on every path: {once}; twice on some path: {twice}")
    stray = {k: v for k, v in outside.items() if v}
    col.add(rule, "Optimize.step#no-append-outside-loop", not stray, cx.loc(cx.fn), "step appends rows only inside its loop (start point through tag())", str(list(stray)))
    # who else appends / mutates the log
    others = []
    for name, fn in opt.methods.items():
        if name in ("add_point_to_log", "step", "__init__"):
            continue
        for c in A.calls(fn):
            if isinstance(c.func, ast.Attribute) and c.func.attr in ("append", "insert", "extend", "pop", "remove") and log_key(c.func.value) is not None:
                others.append(f"{name}: {A.src(c)[:50]}")
        for n in A.walk(fn):
            if isinstance(n, (ast.Assign, ast.Delete)):
                for t in (n.targets if isinstance(n, (ast.Assign, ast.Delete)) else []):
                    if log_key(t) is not None or (isinstance(t, ast.Subscript) and log_key(t.value) is not None and name != "step"):
                        others.append(f"{name}: {A.src(n)[:50]}")
    col.add(rule, "Optimize#no-other-log-writer", not others, opt.module.rel, "no other method appends to, removes from or overwrites log columns", str(others))
    # clear_log clears every key then logs the point
    cx2 = fnctx(repo, "Optimize", "clear_log")
    ok = not A.has_fragments(cx2.fn, ["for {L} in self._log", "self._log[{L}].clear()", "self.add_point_to_log()"])
    col.add(rule, "Optimize.clear_log#all-keys", ok, cx2.loc(cx2.fn), "clear_log empties every column and logs the current point", "")
    # log() reads declared keys only and every one of them
    fn = opt.methods["log"]
    read = {log_key(n) for n in A.walk(fn) if log_key(n) is not None}
    col.add(rule, "Optimize.log#reads-declared-keys", read <= set(keys) and set(keys) - read <= set(), opt.module.loc(fn),
            "log() builds its table from the declared columns, all of them", f"missing: {sorted(set(keys) - read)} undeclared: {sorted(read - set(keys))}")
    # tag / _add_starting_point
    fn = opt.methods["tag"]
    ok = not A.has_fragments(fn, ["self.add_point_to_log(tag={P1})"])
    col.add(rule, "Optimize.tag#logs-point", ok, opt.module.loc(fn), "tag() logs the current point under the tag", "")


def _take_best(col, rule="C15.R3"):
    repo = col.repo
    cx = fnctx(repo, "Optimize", "step")
    cfg = cx.cfg
    q = "Optimize.step"
    start = cx.call_nodes(lambda c: is_self_call(c, "_add_starting_point_to_log_and_print") or is_self_call(c, "tag") or is_self_call(c, "add_point_to_log"))
    ils = [n for n in cfg.nodes.values() if n.kind == "stmt" and isinstance(n.ast, ast.Assign) and A.src(n.ast.value) == "len(self._log['penalty']) - 1"]
    ok = len(ils) == 1 and bool(start)
    ivar = A.target_names(ils[0].ast.targets[0])[0] if ils else None
    if ok:
        ok = any(cfg.dominates(s, ils[0].id) for s in start) and not any(cfg.path_avoiding(ils[0].id, s, []) for s in start)
    col.add(rule, f"{q}#window-starts-at-this-call's-starting-point", ok, cx.loc(ils[0].id) if ils else cx.loc(cx.fn),
            "the take_best window starts at the row logged as this call's starting point: its index is taken after that row was appended",
            f"start-point logging at {[cx.loc(s) for s in start]}, index taken at {[cx.loc(i.id) for i in ils]}")
    loops = [n for n in cfg.nodes.values() if n.kind == "for" and "range" in A.src(n.ast.iter)]
    if ils and loops:
        col.add(rule, f"{q}#window-index-before-loop", cfg.dominates(ils[0].id, loops[0].id), cx.loc(ils[0].id), "the window start is fixed before the steps", "")
    rl = cx.call_nodes(lambda c: is_self_call(c, "reload"))
    ok = len(rl) == 1
    facts = ""
    if ok:
        c = cx.calls_at(rl[0], lambda c: is_self_call(c, "reload"))[0]
        it = ([k.value for k in c.keywords if k.arg == "iteration"] + c.args[:1])[0]
        okit = isinstance(it, ast.BinOp) and isinstance(it.op, ast.Add) and ivar in (A.dotted(it.left), A.dotted(it.right))
        best = A.dotted(it.left) if A.dotted(it.right) == ivar else A.dotted(it.right)
        bdef = cx.resolve(ast.Name(id=best, ctx=ast.Load()), rl[0]) if best else None
        okmin = isinstance(bdef, ast.Call) and A.call_name(bdef) in ("np.argmin", "numpy.argmin") and len(bdef.args) == 1
        win = cx.resolve(bdef.args[0], rl[0]) if okmin else None
        okwin = win is not None and A.src(win) == f"self._log['penalty'][{ivar}:]"
        gs = cfg.cond_guards(rl[0])
        outer = [g for g in gs if g.kind == "T" and A.src(g.ast) == "take_best and (not self._err.last_point_within_tol)"]
        inner = [g for g in gs if g.kind == "T" and isinstance(g.ast, ast.Compare) and isinstance(g.ast.ops[0], ast.NotEq)]
        okg = len(outer) == 1 and len(inner) == 1 and len(gs) == 2
        after_loop = loops and not cfg.path_avoiding(rl[0], loops[0].id, [])
        ok = okit and okmin and okwin and okg and bool(after_loop)
        facts = f"reload({A.src(it)}), best = {A.src(bdef)}, window = {A.src(win) if win is not None else None}, guards {[A.src(g.ast) for g in gs]}"
        col.add(rule, f"{q}#argmin-over-window", okmin and okwin, cx.loc(rl[0]),
                "the best point is the argmin (not argmax) of the penalties logged since the window start", facts)
        col.add(rule, f"{q}#same-offset-added-back", okit, cx.loc(rl[0]), "the row reloaded is window start + index within the window", A.src(it))
        col.add(rule, f"{q}#only-when-take_best-and-not-matched", okg, cx.loc(rl[0]),
                "a row is reloaded only if take_best is set, the last point is not within tolerance and the best row is not the last one", str([A.src(g.ast) for g in gs]))
        col.add(rule, f"{q}#after-the-steps", bool(after_loop), cx.loc(rl[0]), "the best point is chosen after the steps", "")
    else:
        col.fail(rule, f"{q}#take-best-reload", cx.loc(cx.fn), "step reloads the best row once", f"{len(rl)} reload calls")
    # the loop stops as soon as a point is within tolerance
    brk = [n for n in cfg.nodes.values() if n.kind == "stmt" and isinstance(n.ast, ast.Break)]
    ok = len(brk) == 1 and has_guard(cfg, brk[0].id, "T", lambda t: A.src(t) == "self._err.last_point_within_tol")
    col.add(rule, f"{q}#stops-when-matched", ok, cx.loc(brk[0].id) if brk else cx.loc(cx.fn), "the loop ends on the first point within tolerance", "")


def _row_consistency(col, rule="C15.R4"):
    repo = col.repo
    cx = fnctx(repo, "Optimize", "step")
    cfg = cx.cfg
    q = "Optimize.step"
    ap = _append_nodes(cx)
    st = cx.call_nodes(lambda c: is_method_call(c, "step", "self.solver"))
    setk = cx.call_nodes(lambda c: is_self_call(c, "set_knobs_from_x"))
    ok = len(st) == 1 and len(setk) == 1
    if ok:
        c = cx.calls_at(setk[0], lambda c: is_self_call(c, "set_knobs_from_x"))[0]
        ok = A.src(c.args[0]) == "self.solver.x" and cfg.dominates(st[0], setk[0])
    col.add(rule, f"{q}#knobs-set-from-solver-x-after-solver-step", ok, cx.loc(setk[0]) if setk else cx.loc(cx.fn),
            "after each solver step the containers receive the solver's current x", "")
    pen = ap.get("penalty", [])
    okp = len(pen) == 1 and st and cfg.dominates(st[0], pen[0]) and "self.solver.penalty_after_last_step" in A.src(cfg.nodes[pen[0]].ast)
    col.add(rule, f"{q}#penalty-of-the-accepted-point", bool(okp), cx.loc(pen[0]) if pen else cx.loc(cx.fn),
            "the penalty logged is the solver's penalty after the step just taken", "")
    kn = ap.get("knobs", [])
    okk = False
    if len(kn) == 1 and setk:
        c = cx.calls_at(kn[0], lambda c: isinstance(c.func, ast.Attribute) and c.func.attr == "append")[0]
        v = c.args[0]
        if isinstance(v, ast.Name):
            ds = [d for d in cx.defs(v.id, kn[0]) if d.kind == "assign"]
            okk = len(ds) == 1 and "self._extract_knob_values()" in A.src(ds[0].value) and cfg.dominates(setk[0], ds[0].nid)
    col.add(rule, f"{q}#knobs-read-after-they-were-set", okk, cx.loc(kn[0]) if kn else cx.loc(cx.fn),
            "the knob vector logged is read from the containers after set_knobs_from_x", "")
    # add_point_to_log: evaluation precedes the values read from it
    cx = fnctx(repo, "Optimize", "add_point_to_log")
    cfg = cx.cfg
    ap = _append_nodes(cx)
    ev = cx.call_nodes(lambda c: is_method_call(c, "eval", "self.solver"))
    ok = len(ev) == 1 and all(cfg.dominates(ev[0], n) for k in ("targets", "tol_met", "penalty") for n in ap.get(k, []))
    col.add(rule, "Optimize.add_point_to_log#evaluate-before-reading-results", ok, cx.loc(ev[0]) if ev else cx.loc(cx.fn),
            "the point is evaluated before its target values, tolerance flags and penalty are logged", "")
    if ev:
        c = cx.calls_at(ev[0], lambda c: is_method_call(c, "eval", "self.solver"))[0]
        x = cx.resolve(c.args[0], ev[0])
        okx = isinstance(x, ast.Call) and A.src(x.func) == "self._err._knobs_to_x" and "self._extract_knob_values()" in A.src(cx.resolve(x.args[0], ev[0]))
        col.add(rule, "Optimize.add_point_to_log#evaluates-current-knobs", okx, cx.loc(ev[0]),
                "the point evaluated is the knob vector that is logged", A.src(x))
        pn = ap.get("penalty", [])
        okp = len(pn) == 1
        if okp:
            pc = cx.calls_at(pn[0], lambda c: isinstance(c.func, ast.Attribute) and c.func.attr == "append")[0]
            pv = pc.args[0]
            tgt = cfg.nodes[ev[0]].ast
            okp = isinstance(tgt, ast.Assign) and isinstance(tgt.targets[0], ast.Tuple) and A.dotted(tgt.targets[0].elts[1]) == A.dotted(pv)
        col.add(rule, "Optimize.add_point_to_log#penalty-from-that-evaluation", okp, cx.loc(cx.fn), "the penalty logged is the one just computed", "")
    cxe = fnctx(repo, "JacobianSolver", "eval")
    ok = not A.has_fragments(cxe.fn, ["{L} = self.func({P1})", "np.sqrt(np.dot({L}, {L}))"])
    col.add(rule, "JacobianSolver.eval#penalty-is-norm-of-residuals", ok, cxe.loc(cxe.fn), "the penalty is the Euclidean norm of the residual vector at x", "")


def check(col: Collector):
    _rectangular(col)
    c09.check_reload(col, rule="C15.R2")
    _take_best(col)
    _row_consistency(col)
