"""C13 -- generated setter functions are equivalent to assigning through the manager."""
from __future__ import annotations

import ast

from .. import astutil as A
from ..core import AnalysisError, Collector
from .common import FnCtx, fnctx, is_method_call, is_self_call
from . import c01, c11
from .toposort_rules import check_toposort

PROP = "C13"
FLOORS = {"C13.R1": 7, "C13.R2": 12, "C13.R3": 4, "C13.R4": 8}
META = {
    "explanation": "Template of the compiler: mk_fun takes ONE task list from find_tasks over all argument refs together (the same "
                   "scheduler as assignment: trigger closure + reverse-post-order DFS, re-checked here), emits the header, then one "
                   "assignment per argument, then each task once in that order; gen_fun executes exactly mk_fun's text with every "
                   "container label bound to the container object; an ExprTask prints as `target = expr`; the printed expressions are "
                   "faithful (C11's printing obligations, re-checked here).",
    "decides": "the shape of the generated source and the identity of its schedule with the manager's own",
    "not_decided": "the equivalence of the executed function with the manager on all values (translation validation is another family)",
    "assumptions": ["no division by zero (excluded by the property)"],
}


def _mk_fun(col, rule="C13.R1"):
    repo = col.repo
    cx = fnctx(repo, "Manager", "mk_fun")
    cfg = cx.cfg
    q = "Manager.mk_fun"
    kw = cx.fn.args.kwarg.arg if cx.fn.args.kwarg else None
    name_p = A.params(cx.fn)[1]
    if kw is None:
        raise AnalysisError("Manager.mk_fun: no **kwargs")
    ft = cx.call_nodes(lambda c: is_self_call(c, "find_tasks"))
    ok = len(ft) == 1 and not cfg.in_loop(ft[0])
    facts = f"{len(ft)} find_tasks call sites; in loop: {[cfg.in_loop(f) for f in ft]}"
    tasks_var = None
    if ok:
        c = cx.calls_at(ft[0], lambda c: is_self_call(c, "find_tasks"))[0]
        arg = cx.resolve(c.args[0], ft[0]) if c.args else None
        ok = isinstance(arg, ast.Call) and isinstance(arg.func, ast.Attribute) and arg.func.attr == "values" and A.dotted(arg.func.value) == kw
        if isinstance(arg, ast.Call) and A.call_name(arg) in ("list", "tuple") and arg.args:
            inner = arg.args[0]
            ok = isinstance(inner, ast.Call) and isinstance(inner.func, ast.Attribute) and inner.func.attr == "values" and A.dotted(inner.func.value) == kw
        facts = A.src(c)
        st = cfg.nodes[ft[0]].ast
        if isinstance(st, ast.Assign):
            tasks_var = A.target_names(st.targets[0])[0] if A.target_names(st.targets[0]) else None
    col.add(rule, f"{q}#one-schedule-for-all-arguments", ok, cx.loc(ft[0]) if ft else cx.loc(cx.fn),
            "the task list is one find_tasks() over all argument refs together (a global topological order, not a merge of per-argument orders)",
            facts)
    # emission: appends to the line list
    appends = cx.call_nodes(lambda c: isinstance(c.func, ast.Attribute) and c.func.attr == "append")
    assign_nodes, task_nodes = [], []
    for nid in appends:
        loops = [g for g in cfg.guards(nid) if g.kind == "T" and isinstance(g.ast, ast.For)]
        conds = [g for g in cfg.guards(nid) if not isinstance(g.ast, ast.For)]
        c = cx.calls_at(nid, lambda c: isinstance(c.func, ast.Attribute) and c.func.attr == "append")[0]
        e = c.args[0] if c.args else None
        if len(loops) == 1 and isinstance(e, ast.JoinedStr):
            fv = [p for p in e.values if isinstance(p, ast.FormattedValue)]
            lits = "".join(p.value for p in e.values if isinstance(p, ast.Constant))
            it = loops[0].ast.iter
            tv = A.target_names(loops[0].ast.target)
            if isinstance(it, ast.Call) and isinstance(it.func, ast.Attribute) and it.func.attr == "items" and A.dotted(it.func.value) == kw \
                    and len(tv) == 2 and [A.dotted(p.value) for p in fv] == [tv[1], tv[0]] and lits.strip() == "=" and not conds \
                    and all(p.conversion == -1 for p in fv):
                assign_nodes.append(nid)
            elif tasks_var and A.dotted(it) == tasks_var and len(tv) == 1 and [A.dotted(p.value) for p in fv] == tv and lits.strip() == "" and not conds:
                task_nodes.append(nid)
    col.add(rule, f"{q}#one-assignment-per-argument", len(assign_nodes) == 1, cx.loc(assign_nodes[0]) if assign_nodes else cx.loc(cx.fn),
            "for every (name, ref) argument one line `<ref> = <name>` is emitted, unconditionally", f"{len(assign_nodes)} such loops")
    col.add(rule, f"{q}#each-task-once-in-order", len(task_nodes) == 1, cx.loc(task_nodes[0]) if task_nodes else cx.loc(cx.fn),
            "every task of the schedule is emitted exactly once, in schedule order, unfiltered", f"{len(task_nodes)} such loops")
    if assign_nodes and task_nodes:
        order = not cfg.path_avoiding(task_nodes[0], assign_nodes[0], []) and cfg.path_avoiding(assign_nodes[0], task_nodes[0], [])
        col.add(rule, f"{q}#assignments-before-tasks", order, cx.loc(task_nodes[0]),
                "the argument assignments precede the task lines in the generated body", "")
    other = [n for n in appends if n not in assign_nodes + task_nodes]
    col.add(rule, f"{q}#no-other-lines", not other, cx.loc(other[0]) if other else cx.loc(cx.fn),
            "no other line is emitted into the function body", f"{[cx.loc(o) for o in other]}")
    # header
    hdr = False
    for n in A.walk(cx.fn):
        if isinstance(n, ast.JoinedStr):
            lits = "".join(p.value for p in n.values if isinstance(p, ast.Constant))
            if lits.startswith("def ") and lits.rstrip().endswith("):"):
                fv = [p for p in n.values if isinstance(p, ast.FormattedValue)]
                hdr = len(fv) == 2 and A.dotted(fv[0].value) == name_p and "join" in A.src(fv[1].value)
    col.add(rule, f"{q}#header", hdr, cx.loc(cx.fn), "the header is `def <name>(<argument names>):`", "")
    rets = [n for n in cfg.nodes.values() if n.kind == "stmt" and isinstance(n.ast, ast.Return)]
    col.add(rule, f"{q}#returns-joined-lines", len(rets) == 1, cx.loc(cx.fn), "mk_fun returns the joined lines", "")
    # sorted/reversed/set applied to the task list?
    bad = [c for c in A.calls(cx.fn) if A.call_name(c) in ("sorted", "reversed", "set", "frozenset") or
           (isinstance(c.func, ast.Attribute) and c.func.attr in ("sort", "reverse"))]
    col.add(rule, f"{q}#schedule-not-reordered", not bad, cx.loc(cx.fn), "the schedule is not re-ordered or de-duplicated by hand", f"{[A.src(b) for b in bad]}")


def _gen_fun(col, rule="C13.R3"):
    repo = col.repo
    cx = fnctx(repo, "Manager", "gen_fun")
    q = "Manager.gen_fun"
    kw = cx.fn.args.kwarg.arg if cx.fn.args.kwarg else None
    name_p = A.params(cx.fn)[1]
    mk = cx.call_nodes(lambda c: is_self_call(c, "mk_fun"))
    ok = len(mk) == 1
    src_var = None
    if ok:
        c = cx.calls_at(mk[0], lambda c: is_self_call(c, "mk_fun"))[0]
        ok = len(c.args) == 1 and A.dotted(c.args[0]) == name_p and len(c.keywords) == 1 and c.keywords[0].arg is None and A.dotted(c.keywords[0].value) == kw
        st = cx.cfg.nodes[mk[0]].ast
        if isinstance(st, ast.Assign):
            src_var = A.target_names(st.targets[0])[0]
    col.add(rule, f"{q}#source-from-mk_fun", ok, cx.loc(cx.fn), "gen_fun compiles exactly mk_fun(name, **kwargs)", "")
    ex = [c for c in A.calls(cx.fn) if A.call_name(c) == "exec"]
    ok = len(ex) == 1 and len(ex[0].args) == 3 and A.dotted(ex[0].args[0]) == src_var
    col.add(rule, f"{q}#executes-that-source", ok, cx.loc(cx.fn), "the text executed is mk_fun's text, unmodified", A.src(ex[0]) if ex else "")
    gbl = A.dotted(ex[0].args[1]) if ex and len(ex[0].args) == 3 else None
    okg = False
    for c in A.calls(cx.fn):
        if isinstance(c.func, ast.Attribute) and c.func.attr == "update" and A.dotted(c.func.value) == gbl and c.args:
            g = c.args[0]
            if isinstance(g, (ast.GeneratorExp, ast.ListComp, ast.DictComp)) and len(g.generators) == 1 and not g.generators[0].ifs \
                    and A.src(g.generators[0].iter) == "self.containers.items()":
                tv = A.target_names(g.generators[0].target)
                e = g.elt if not isinstance(g, ast.DictComp) else ast.Tuple(elts=[g.key, g.value])
                okg = isinstance(e, ast.Tuple) and A.dotted(e.elts[0]) == tv[0] and A.dotted(e.elts[1]) == f"{tv[1]}._owner"
    col.add(rule, f"{q}#labels-bound-to-containers", okg, cx.loc(cx.fn),
            "every container label is bound to the container object itself in the function's globals", "")
    rets = [n.value for n in A.walk(cx.fn) if isinstance(n, ast.Return)]
    lcl = A.dotted(ex[0].args[2]) if ex and len(ex[0].args) == 3 else None
    okr = len(rets) == 1 and isinstance(rets[0], ast.Subscript) and A.dotted(rets[0].value) == lcl and A.dotted(rets[0].slice) == name_p
    col.add(rule, f"{q}#returns-compiled-function", okr, cx.loc(cx.fn), "gen_fun returns the function it just defined", "")


def check(col: Collector):
    _mk_fun(col)
    # the schedule is the manager's own (shared obligations)
    c01._trigger_closure(col, "C13.R2")
    check_toposort(col, "C13.R2")
    _gen_fun(col)
    # printing faithfulness that generated source depends on
    sub = Collector(col.repo, "C13", col.tier)
    c11._literal_rendering(sub, rule="C13.R4")
    c11._precedence(sub, rule="C13.R4")
    c11._resolvable_names(sub, rule="C13.R4")
    for o in sub.obs:
        if o.note:
            continue
        col.obs.append(o)
