"""C13 -- generated setter functions are equivalent to assigning through the manager."""
from __future__ import annotations

import ast

from .. import astutil as A
from ..core import AnalysisError, Collector
from .. import sym as S
from .common import FnCtx, SCtx, fnctx, sctx, is_method_call, is_self_call
from . import c01, c11
from .toposort_rules import check_toposort

PROP = "C13"
FLOORS = {"C13.R1": 7, "C13.R2": 10, "C13.R3": 4, "C13.R4": 8, "C13.R5": 3, "C13.R6": 12, "C13.R8": 1}
META = {
    "explanation": "Template of the compiler: mk_fun takes ONE task list from find_tasks over all argument refs together (the same "
                   "scheduler as assignment: trigger closure + reverse-post-order DFS, re-checked here), emits the header, then one "
                   "assignment per argument, then each task once in that order; gen_fun executes exactly mk_fun's text with every "
                   "container label bound to the container object; an ExprTask prints as `target = expr`; the printed expressions are "
                   "faithful (C11's printing obligations, re-checked here). The generated def executes with a locals mapping of its own (exec(text, globals, locals)).",
    "decides": "the shape of the generated source and the identity of its schedule with the manager's own",
    "not_decided": "the equivalence of the executed function with the manager on all values (translation validation is another family)",
    "assumptions": ["no division by zero (excluded by the property)"],
}


def _kw(sx: SCtx):
    for t in sx.sym.params.values():
        if t[:1] == ("param",) and t[2].startswith("**"):
            return t
    raise AnalysisError(f"{sx.qual}: no **kwargs parameter")


def _mk_fun(col, rule="C13.R1"):
    """the text returned by mk_fun, as a term: header line, one assignment line per argument, one line per task of
    ONE schedule over all argument refs; joined by newlines -- however the lines are formatted and collected"""
    sx = sctx(col.repo, "Manager", "mk_fun", public=True, keep=c01.ANCHORS)
    q = "Manager.mk_fun"
    kw = _kw(sx)
    name_p = sx.P(0)
    rets = sx.of_kind("return")
    if len(rets) != 1:
        raise AnalysisError(f"{q}: expected one return -- cannot decide")
    v = S.norm_str(rets[0].value)
    m = S.match(v, S.mcall(("const", repr("\n")), "join", S.V("lines")))
    if m is not None and m["lines"][:1] == ("list",) and S._list_contribs(m["lines"]) is not None:
        m = dict(m, lines=("acc", "list", S._list_contribs(m["lines"])))       # a display with starred parts is the list built in that order
    if m is not None and m["lines"][:1] == ("acc",) and m["lines"][1] == "gen":
        m = dict(m, lines=("acc", "list", m["lines"][2]))       # joining a generator built here joins the same lines in the same order
    if m is None or m["lines"][:1] != ("acc",) or m["lines"][1] != "list":
        raise AnalysisError(f"{q}: the result is not '\\n'.join(<list of lines built here>): {S.show(v)} -- cannot decide")
    lines = m["lines"][2]
    col.add(rule, f"{q}#returns-joined-lines", True, sx.loc(rets[0]), "mk_fun returns the emitted lines joined by newlines", "")
    values = (S.mcall(kw, "values"), S.fcall("list", S.mcall(kw, "values")), S.fcall("tuple", S.mcall(kw, "values")))
    sched = [S.mcall(S.SELF, "find_tasks", x) for x in values]
    hdr, assigns, tasks, other = [], [], [], []
    for c in lines:
        if c[0] != "one":
            other.append(c)
            continue
        tp = S.template(c[2])
        if tp is None:
            other.append(c)
            continue
        skel, holes = tp
        hv = [h[1] for h in holes]
        if skel.startswith("def ") and skel.rstrip().endswith("):"):
            hdr.append((c, skel, holes))
        elif len(hv) == 2 and skel.strip() == "{} = {}":
            assigns.append((c, skel, holes))
        elif len(hv) == 1 and skel.strip() == "{}" and hv[0][:1] == ("elem",):
            tasks.append((c, skel, holes))
        elif not hv:
            pass        # a constant line (comment, pass, docstring) carries no data
        else:
            other.append(c)
    ok_h = len(hdr) == 1 and not hdr[0][0][1] and len(hdr[0][2]) == 2 and hdr[0][2][0][1] == name_p and \
        S.match(hdr[0][2][1][1], S.mcall(S.V("sep", lambda t: t[:1] == ("const",) and "," in t[1]), "join",
                                         S.V("ks", lambda t: t in (kw, S.mcall(kw, "keys"))))) is not None
    col.add(rule, f"{q}#header", ok_h, sx.loc(sx.fn), "the header is `def <name>(<argument names>):`",
            S.show(hdr[0][0][2]) if hdr else "no header line")
    ok_a = len(assigns) == 1 and not assigns[0][0][1] and [h[1] for h in assigns[0][2]] == [("val", kw), ("key", kw)] \
        and all(h[0] in ("", "!s") for h in assigns[0][2]) and assigns[0][1].startswith(" ")
    col.add(rule, f"{q}#one-assignment-per-argument", ok_a, sx.loc(sx.fn),
            "for every (name, ref) argument one line `<ref> = <name>` is emitted, unconditionally",
            "; ".join(S.show(a[0][2]) + (" if ..." if a[0][1] else "") for a in assigns) or "no such line")
    ok_t = len(tasks) == 1 and not tasks[0][0][1] and tasks[0][2][0][1][1] in sched and tasks[0][2][0][0] in ("", "!s") \
        and tasks[0][1].startswith(" ")
    col.add(rule, f"{q}#each-task-once-in-order", ok_t, sx.loc(sx.fn),
            "every task of the schedule is emitted exactly once, in schedule order, unfiltered",
            "; ".join(S.show(t[0][2]) + (" if ..." if t[0][1] else "") for t in tasks) or "no such line")
    one = len(tasks) == 1 and tasks[0][2][0][1][1] in sched
    col.add(rule, f"{q}#one-schedule-for-all-arguments", one, sx.loc(sx.fn),
            "the task list is one find_tasks() over all argument refs together (a global topological order, not a merge of "
            "per-argument orders)", S.show(tasks[0][2][0][1][1]) if tasks else "")
    if hdr and assigns and tasks:
        idx = [list(lines).index(x[0]) for x in (hdr[0], assigns[0], tasks[0])]
        col.add(rule, f"{q}#assignments-before-tasks", idx == sorted(idx), sx.loc(sx.fn),
                "header, then the argument assignments, then the task lines", f"line order {idx}")
    col.add(rule, f"{q}#no-other-lines", not other, sx.loc(sx.fn), "no other data-carrying line is emitted into the function body",
            f"{[S.show(('acc', 'list', (o,))) for o in other]}")


def _gen_fun(col, rule="C13.R3"):
    sx = sctx(col.repo, "Manager", "gen_fun", public=True, keep=c01.ANCHORS)
    q = "Manager.gen_fun"
    kw = _kw(sx)
    name_p = sx.P(0)
    ex = sx.calls_some(S.fcall("exec", S.V("src"), S.V("gbl"), S.V("lcl")))
    ex2 = sx.calls_some(S.fcall("exec", S.V("src"), S.V("gbl")))
    if len(ex) + len(ex2) != 1:
        raise AnalysisError(f"{q}: expected one exec(source, globals, locals) -- cannot decide")
    import ast as _ast
    if ex2:
        ev, m = ex2[0]
        m = dict(m, lcl=m["gbl"])
        separate = False
    else:
        ev, m = ex[0]
        a = getattr(ev.node, "args", [])
        separate = not (len(a) == 3 and isinstance(a[1], _ast.Name) and isinstance(a[2], _ast.Name) and a[1].id == a[2].id)
    col.add(rule, f"{q}#definition-lands-outside-the-container-namespace", separate, sx.loc(ev),
            "the `def` executes with a locals mapping of its own: executed in the globals alone it rebinds its name there, and a container whose "
            "label equals the function name is no longer reachable from the body", "exec(source, globals) binds the function in globals" if not separate else "")
    want_src = ("call", ("attr", S.SELF, "mk_fun"), (name_p,), (("**", kw),))
    if S.is_call_of(m["src"], ("glob", "compile")) and len(m["src"][2]) >= 3 and m["src"][2][2] in (("const", "'exec'"), ("const", '"exec"')):
        m = dict(m, src=m["src"][2][0])          # exec(compile(text, name, "exec"), ...) executes that text
    col.add(rule, f"{q}#source-from-mk_fun", m["src"] == want_src, sx.loc(ev),
            "gen_fun compiles exactly mk_fun(name, **kwargs): the text executed is mk_fun's text, unmodified", S.show(m["src"]))
    cont = S.sattr("containers")
    pair_k, pair_v = ("key", cont), ("attr", ("val", cont), "_owner")
    g = m["gbl"]
    okg = False
    if g[:1] == ("acc",) and g[1] == "dict":
        data = [c for c in g[2]]
        okg = len(data) == 1 and not data[0][1] and (
            (data[0][0] == "kv" and data[0][2] == pair_k and data[0][3] == pair_v) or
            (data[0][0] == "one" and data[0][2] == ("tuple", (pair_k, pair_v))))
    col.add(rule, f"{q}#labels-bound-to-containers", okg, sx.loc(ev),
            "every container label is bound to the container object itself in the function's globals (and nothing else)", S.show(g))
    rets = sx.of_kind("return")
    okr = len(rets) == 1 and S.match(rets[0].value, ("sub", S.V("l"), name_p)) is not None and \
        S.match(rets[0].value, ("sub", S.V("l"), name_p))["l"][:2] == m["lcl"][:2]
    col.add(rule, f"{q}#returns-compiled-function", okr, sx.loc(sx.fn), "gen_fun returns the function it just defined",
            S.show(rets[0].value) if rets else "")
    st = [S.show(t) for e in sx.of_kind("store") for t in S.alts(e.target) if S.is_attr(t, S.SELF) or (t[:1] == ("sub",) and t[1][:1] == ("glob",))]
    col.add(rule, f"{q}#no-cache", not st, sx.loc(sx.fn),
            "the compiled function is not remembered across calls (it is bound to this manager's containers)", f"stores: {st}")


def check(col: Collector):
    with col.rule():
        _mk_fun(col)
    # the schedule is the manager's own (shared obligations)
    with col.rule():
        c01._trigger_closure(col, "C13.R2")
    with col.rule():
        check_toposort(col, "C13.R2")
    with col.rule():
        _gen_fun(col)
    # printing faithfulness that generated source depends on
    sub = Collector(col.repo, "C13", col.tier)
    with col.rule():
        c11._literal_rendering(sub, rule="C13.R4")
    with col.rule():
        c11._precedence(sub, rule="C13.R4")
    with col.rule():
        c11._resolvable_names(sub, rule="C13.R4")
    for o in sub.obs:
        if o.note:
            continue
        col.obs.append(o)
    # "assigning through the manager" stores and propagates unconditionally -- what the generated setter does by construction
    from .common import shared, construct_tag
    from . import c04
    with col.rule():
        shared(col, "C13.R6", [c04._calls, c04._leaves, c04._zero_division],
               why="the generated text looks every operand (and the called function) up afresh on each call; the manager's tasks must "
                   "evaluate them afresh too (nothing resolved once and remembered)")
    with col.rule():
        shared(col, "C13.R7", [c01._task_bodies], select=lambda o: o.construct.startswith("ExprTask.run#"),
               why="the generated line `target = expression` rebinds the target to the freshly evaluated value, whatever it held before: "
                   "run() must write exactly that value through the target's _set_value on every run (no in-place reuse, no skip)")
    with col.rule():
        shared(col, "C13.R5", [c01._set_value_protocol],
               select=lambda o: construct_tag(o) in ("write-on-every-path", "propagate-after-write", "trigger-set", "written-value"),
               why="the generated function writes each argument and runs the tasks unconditionally; set_value must do the same")
    # round 7: the generated text `(lhs OP rhs)` is evaluated by Python; the manager evaluates the node's _get_value
    with col.rule():
        shared(col, "C13.R8", [c04._binary, c04._unary],
               why="a node whose _get_value is not exactly Python's operator on its evaluated operands (a short cut for a zero factor ..) "
                   "computes something else than the printed expression the generated function executes")
