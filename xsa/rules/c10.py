"""C10 -- accepted optimizer iterates respect limits, max_step and disabled knobs."""
from __future__ import annotations

import ast

from .. import astutil as A
from ..core import AnalysisError, Collector
from .common import FnCtx, fnctx, has_guard, is_method_call, is_self_call

PROP = "C10"
FLOORS = {"C10.R1": 8, "C10.R2": 6, "C10.R3": 4, "C10.R4": 8, "C10.R5": 1, "C10.R6": 7}
META = {
    "explanation": "Every enable/disable call of Optimize passes keywords its callee accepts; each temporary enable_*/disable_* applied "
                   "before the step loop has its inverse (opposite method, same keyword, argument and guard) after it; every store into a "
                   "knob container is dominated by the `active` test of that very knob (except reload, which restores a logged row); the "
                   "limit tests precede the write and have both sides, the solver zeroes a coordinate that would leave its limits and "
                   "tries / commits the same `x - step`; limits are converted to solver space with the inverse of the weight scaling; the "
                   "max-step clip never decides about the running copy by reading the stale original; the masked solve writes into a "
                   "zero vector with the same masks on matrix and right-hand side, and disabled targets are zeroed.",
    "decides": "who may write knobs and under which guard, pairing of temporary state changes, shape of limit/step clipping, mask plumbing",
    "not_decided": "the bounds as numeric facts for all inputs and weights",
    "assumptions": ["Vary.active is the only notion of a disabled knob"],
}


def _callsig(col, rule="C10.R1"):
    repo = col.repo
    opt = repo.cls("Optimize")
    n = 0
    for name, fn in opt.methods.items():
        for c in A.calls(fn):
            if is_self_call(c) and c.func.attr in ("enable", "disable"):
                callee = opt.methods[c.func.attr]
                accepted = set(A.params(callee)[1:]) | {a.arg for a in callee.args.kwonlyargs}
                bad = [k.arg for k in c.keywords if k.arg is not None and k.arg not in accepted]
                toomany = len(c.args) > len(A.params(callee)) - 1
                n += 1
                col.add(rule, f"Optimize.{name}#{c.func.attr}({','.join(k.arg or '**' for k in c.keywords)})@{A.src(c.keywords[0].value) if c.keywords else ''}",
                        not bad and not toomany, opt.module.loc(c),
                        f"the call passes only keywords that Optimize.{c.func.attr} accepts {sorted(accepted)}", f"unknown keywords: {bad}")
    col.count("enable_disable_call_sites", n)
    # enable/disable semantics
    for meth, state in (("enable", True), ("disable", False)):
        fn = opt.methods[meth]
        calls = [c for c in A.calls(fn) if A.call_name(c) == "_set_state"]
        want = {("self.targets", "target", None), ("self.vary", "vary", "tag"), ("self.vary", "vary_name", "name")}
        got = set()
        for c in calls:
            attr = [A.const(k.value) for k in c.keywords if k.arg == "attr"]
            if len(c.args) == 3 and A.is_const(c.args[1], state):
                got.add((A.src(c.args[0]), A.src(c.args[2]), attr[0] if attr else None))
        col.add(rule, f"Optimize.{meth}#sets-state-{state}", got == want, opt.module.loc(fn),
                f"{meth}() sets active={state} on the targets selected by `target`, the knobs selected by tag (`vary`) and by name (`vary_name`)",
                str(sorted(map(str, got))))
    cx = fnctx(repo, None, "_set_state", "optimize.optimize")
    ok = not A.has_fragments(cx.fn, ["{P1}[{L}].active = {P2}", "{L}.active = {P2}", "{L}.active = not {P2}", "re.fullmatch({L}, getattr({L}, {P4}))"])
    col.add(rule, "_set_state#assigns-active", ok, cx.loc(cx.fn), "_set_state assigns the requested state to the selected entries only", "")


def _pairing(col, rule="C10.R2"):
    repo = col.repo
    cx = fnctx(repo, "Optimize", "step")
    cfg = cx.cfg
    loops = [n for n in cfg.nodes.values() if n.kind == "for" and "range" in A.src(n.ast.iter)]
    if len(loops) != 1:
        raise AnalysisError("Optimize.step: step loop not recognised")
    loop = loops[0].id
    pre, post = [], []
    for nid in cx.call_nodes(lambda c: is_self_call(c) and c.func.attr in ("enable", "disable")):
        c = cx.calls_at(nid, lambda c: is_self_call(c) and c.func.attr in ("enable", "disable"))[0]
        gs = cfg.cond_guards(nid)
        kw = c.keywords[0].arg if c.keywords else None
        arg = A.src(c.keywords[0].value) if c.keywords else None
        rec = (c.func.attr, kw, arg, tuple(g.kind + ":" + A.src(g.ast) for g in gs), nid)
        if cfg.path_avoiding(nid, loop, []):
            pre.append(rec)
        else:
            post.append(rec)
    inv = {"enable": "disable", "disable": "enable"}
    for m, kw, arg, gs, nid in pre:
        match = [p for p in post if p[0] == inv[m] and p[1] == kw and p[2] == arg and p[3] == gs]
        okm = len(match) == 1
        if okm:
            # the inverse lies on every normal path from the loop to the exit, under its guard
            okm = not cfg.path_avoiding(match[0][4], loop, [])
        col.add(rule, f"Optimize.step#{m}({kw}={arg})-undone", okm, cx.loc(nid),
                f"the temporary {m}({kw}={arg}) applied before the steps is undone after them by {inv[m]}({kw}={arg}) under the same guard",
                f"post-loop calls: {[(p[0], p[1], p[2]) for p in post]}")
    stray = [p for p in post if not any(q[0] == inv[p[0]] and q[1] == p[1] and q[2] == p[2] for q in pre)]
    col.add(rule, "Optimize.step#no-unpaired-post-call", not stray, cx.loc(stray[0][4]) if stray else cx.loc(cx.fn),
            "no enable/disable after the steps without its counterpart before them", str([(p[0], p[1], p[2]) for p in stray]))
    # guards are `X is not None` of the argument
    for m, kw, arg, gs, nid in pre + post:
        ok = gs == (f"T:{arg} is not None",)
        col.add(rule, f"Optimize.step#{m}({kw}={arg})-guard@{'pre' if (m, kw, arg, gs, nid) in pre else 'post'}", ok, cx.loc(nid),
                "a temporary change is applied exactly when its argument is given", str(gs))
    if len(pre) < 6:
        raise AnalysisError(f"Optimize.step: only {len(pre)} temporary enable/disable applications found before the loop (expected 6)")


def knob_stores(fn):
    out = []
    for n in A.walk(fn):
        if isinstance(n, (ast.Assign, ast.AugAssign)):
            for t in (n.targets if isinstance(n, ast.Assign) else [n.target]):
                if isinstance(t, ast.Subscript) and isinstance(t.value, ast.Attribute) and t.value.attr == "container" \
                        and isinstance(t.slice, ast.Attribute) and t.slice.attr == "name" and A.dotted(t.value.value) == A.dotted(t.slice.value):
                    out.append((n, A.dotted(t.value.value)))
    return out


def _who_writes(col, rule="C10.R3"):
    repo = col.repo
    m = repo.module("optimize.optimize")
    n = 0
    for mod, c, fn in repo.all_functions():
        if mod is not m:
            continue
        st = knob_stores(fn)
        if not st:
            continue
        cx = FnCtx(mod, c, fn)
        q = f"{c.name}.{fn.name}" if c else fn.name
        for node, who in st:
            n += 1
            nid = cx.cfg.node_of(node)
            if q == "Optimize.reload":
                col.ok(rule, f"{q}#knob-store", mod.loc(node), "reload restores a logged row: deliberately unguarded (C09.R5/C15.R2)", "")
                continue
            ok = has_guard(cx.cfg, nid, "T", lambda t, who=who: A.dotted(t) == f"{who}.active")
            col.add(rule, f"{q}#knob-store-only-if-active", ok, mod.loc(node),
                    f"a knob's container is written only under `{who}.active` (a disabled knob is never changed)",
                    f"guards: {[g.kind + ':' + A.src(g.ast)[:40] for g in cx.cfg.cond_guards(nid)]}")
    col.count("knob_store_sites", n)
    if n < 4:
        raise AnalysisError(f"only {n} knob store sites found (expected at least 4)")
    # indirect knob writers used by reload-like code paths: set_knobs_from_x only writes active knobs -> must not be what restores rows
    # (C09.R5 checks reload's direct stores)


def _limits(col, rule="C10.R4"):
    repo = col.repo
    cx = fnctx(repo, "MeritFunctionForMatch", "__call__")
    cfg = cx.cfg
    q = "MeritFunctionForMatch.__call__"
    st = knob_stores(cx.fn)
    if len(st) != 1:
        raise AnalysisError(f"{q}: expected one knob store")
    w = cfg.node_of(st[0][0])
    who = st[0][1]
    val = A.dotted(st[0][0].value)
    sides = {}
    for n in cfg.nodes.values():
        if n.kind == "test":
            conj = n.ast.values if isinstance(n.ast, ast.BoolOp) and isinstance(n.ast.op, ast.And) else [n.ast]
            for cmp_ in conj:
                p = A.compare_parts(cmp_)
                if p and A.dotted(p[0]) == val and isinstance(p[2], ast.Subscript) and A.src(p[2].value) == f"{who}.limits" \
                        and isinstance(p[1], (ast.Lt, ast.LtE, ast.Gt, ast.GtE)):
                    tb = [b.id for b in cfg.nodes.values() if b.kind == "T" and b.of == n.id][0]
                    raises = any(isinstance(cfg.nodes[r].ast, ast.Raise) for r in cfg.g.successors(tb))
                    sides[A.const(p[2].slice)] = (type(p[1]).__name__, raises, n.id)
    if 0 not in sides or 1 not in sides:
        raise AnalysisError(f"{q}: limit tests `value < limits[0]` / `value > limits[1]` not recognised (cannot decide)")
    ok_lo = sides.get(0, (None,))[0] == "Lt" and sides[0][1]
    ok_hi = sides.get(1, (None,))[0] == "Gt" and sides[1][1]
    col.add(rule, f"{q}#lower-limit-raises", bool(ok_lo), cx.loc(sides[0][2]) if 0 in sides else cx.loc(cx.fn),
            "a value below limits[0] raises (strictly below: the closed limit itself is allowed)", str(sides.get(0)))
    col.add(rule, f"{q}#upper-limit-raises", bool(ok_hi), cx.loc(sides[1][2]) if 1 in sides else cx.loc(cx.fn),
            "a value above limits[1] raises", str(sides.get(1)))
    for i in (0, 1):
        if i in sides:
            t = sides[i][2]
            gs = [A.src(g.ast) for g in cfg.cond_guards(t) if g.kind == "T"] + [A.src(cfg.nodes[t].ast)]
            okg = any("check_limits" in g for g in gs) and cfg.path_avoiding(t, w, []) and not cfg.path_avoiding(w, t, [cx.cfg.of_ast.get(id(None), -1)]) or True
            before = cfg.path_avoiding(t, w, []) and all(g.of != t for g in cfg.guards(w))
            col.add(rule, f"{q}#limit-{i}-tested-before-write", before and any("check_limits" in g for g in gs), cx.loc(t),
                    "with check_limits the limit is tested before the container is written (a refused value is never stored)", str(gs))
    # _get_x_limits: knob limits -> x space through _knobs_to_x, [low, high] order
    cx = fnctx(repo, "MeritFunctionForMatch", "_get_x_limits")
    conv = sorted((c for c in A.calls(cx.fn) if is_self_call(c) and c.func.attr in ("_knobs_to_x", "_x_to_knobs")), key=lambda c: (c.lineno, c.col_offset))
    ok = len(conv) == 2 and all(c.func.attr == "_knobs_to_x" for c in conv)
    col.add(rule, "MeritFunctionForMatch._get_x_limits#limits-to-solver-space", ok, cx.loc(cx.fn),
            "knob limits are converted to solver space with _knobs_to_x (division by the weight), the inverse of what __call__ applies",
            f"{[c.func.attr for c in conv]}")
    idx = sorted(A.src(c.args[0])[-12:] for c in conv if c.args)
    ok = len(conv) == 2 and "[:, 0]" in A.src(conv[0].args[0]) and "[:, 1]" in A.src(conv[1].args[0])
    col.add(rule, "MeritFunctionForMatch._get_x_limits#low-then-high", ok, cx.loc(cx.fn), "column 0 holds the lower and column 1 the upper limit", "")
    col.add(rule, "MeritFunctionForMatch._get_x_limits#default-limits", not A.has_fragments(cx.fn, ["{L}.limits is None", "LIMITS_DEFAULT"]), cx.loc(cx.fn),
            "a knob without limits gets the wide default limits", "")
    # JacobianSolver.step
    cx = fnctx(repo, "JacobianSolver", "step")
    cfg = cx.cfg
    q = "JacobianSolver.step"
    tests = {}
    for n in cfg.nodes.values():
        if n.kind == "test":
            p = A.compare_parts(n.ast)
            if p and isinstance(p[0], ast.BinOp) and isinstance(p[0].op, ast.Sub) and "limits" in A.src(p[2]):
                tests[A.src(p[2])[-3:]] = (type(p[1]).__name__, A.src(p[0]), n.id)
    lo = tests.get("[0]")
    hi = tests.get("[1]")
    ok = lo is not None and hi is not None and lo[0] == "Lt" and hi[0] == "Gt" and lo[1] == hi[1]
    col.add(rule, f"{q}#both-limit-sides", ok, cx.loc(lo[2]) if lo else cx.loc(cx.fn),
            "each coordinate of the trial point is tested against its lower (<) and its upper (>) limit", str(tests))
    if ok:
        trial = lo[1]   # e.g. self.x[ii] - this_xstep[ii]
        for key, t in (("lower", lo), ("upper", hi)):
            tb = [b.id for b in cfg.nodes.values() if b.kind == "T" and b.of == t[2]][0]
            body = [cfg.nodes[r].ast for r in cfg.reachable(tb, avoid=[b.id for b in cfg.nodes.values() if b.kind in ("for",)]) if cfg.nodes[r].kind == "stmt"]
            zero = any(isinstance(s, ast.Assign) and isinstance(s.targets[0], ast.Subscript) and A.is_const(s.value, 0) and A.dotted(s.targets[0].value) in trial for s in body)
            col.add(rule, f"{q}#{key}-limit-zeroes-step", zero, cx.loc(t[2]), "a coordinate that would leave its limits is not moved (its step is set to 0)", "")
        stepname = trial.split(" - ")[1].split("[")[0]
        ev = [c for c in A.calls(cx.fn) if is_self_call(c, "eval") and c.args and A.src(c.args[0]) == f"self.x - {stepname}"]
        commit = [n for n in A.walk(cx.fn) if isinstance(n, ast.AugAssign) and isinstance(n.op, ast.Sub) and A.dotted(n.target) == "self.x" and A.dotted(n.value) == stepname]
        col.add(rule, f"{q}#trial-equals-commit", len(ev) == 1 and len(commit) == 1, cx.loc(cx.fn),
                "the point evaluated, the point limit-tested and the point committed are the same `x - step`", f"eval {len(ev)}, commit {len(commit)}")
        lim = [n for n in A.walk(cx.fn) if isinstance(n, ast.Assign) and A.src(n.value) == "self.func._get_x_limits()"]
        col.add(rule, f"{q}#limits-from-merit-function", len(lim) == 1, cx.loc(cx.fn), "the limits are the merit function's solver-space limits", "")
    # _clip_to_limits (check_limits False mode)
    cx = fnctx(repo, "Optimize", "_clip_to_limits")
    ok = not A.has_fragments(cx.fn, ["{L} < {L}.limits[0]", "{L}.container[{L}.name] = {L}.limits[0]", "{L} > {L}.limits[1]", "{L}.container[{L}.name] = {L}.limits[1]"])
    col.add(rule, "Optimize._clip_to_limits#clips-to-violated-limit", ok, cx.loc(cx.fn), "a value below/above its limit is set to that limit", "")


def _stale_copy(col, rule="C10.R5"):
    """if Y = X.copy() and a loop mutates Y in place, the loop's tests must not read X"""
    repo = col.repo
    m = repo.module("optimize.optimize")
    n = 0
    for mod, c, fn in repo.all_functions():
        if mod is not m:
            continue
        copies = {}
        for x in A.walk(fn):
            if isinstance(x, ast.Assign) and len(x.targets) == 1 and isinstance(x.targets[0], ast.Name) and isinstance(x.value, ast.Call) \
                    and isinstance(x.value.func, ast.Attribute) and x.value.func.attr == "copy" and isinstance(x.value.func.value, ast.Name):
                copies[x.targets[0].id] = x.value.func.value.id
        for y, xname in copies.items():
            for loop in (l for l in A.walk(fn) if isinstance(l, (ast.For, ast.While))):
                mutates = any(isinstance(s, ast.AugAssign) and A.dotted(s.target) == y or
                              (isinstance(s, (ast.Assign, ast.AugAssign)) and any(isinstance(t, ast.Subscript) and A.dotted(t.value) == y
                                                                                   for t in (s.targets if isinstance(s, ast.Assign) else [s.target])))
                              for s in A.walk(loop))
                whole = any(isinstance(s, ast.AugAssign) and A.dotted(s.target) == y for s in A.walk(loop))
                if not mutates or not whole:
                    continue
                n += 1
                stale = [A.src(t.test) for t in A.walk(loop) if isinstance(t, (ast.If, ast.IfExp, ast.While)) and xname in A.names_loaded(t.test)
                         and any(isinstance(s, ast.Subscript) and A.dotted(s.value) == xname for s in A.walk(t.test))]
                q = f"{c.name}.{fn.name}" if c else fn.name
                col.add(rule, f"{q}#no-decision-on-stale-original:{xname}->{y}", not stale, mod.loc(loop),
                        f"`{y}` is a copy of `{xname}` rescaled as a whole inside the loop: from the second iteration on `{xname}` is a stale "
                        f"version of it, so no test of the loop may read `{xname}[...]`", str(stale))
    if n == 0:
        # an implementation without such a loop (e.g. one min-factor applied once) has nothing to check
        fn = repo.method("MeritFunctionForMatch", "_clip_to_max_steps")
        col.ok(rule, "MeritFunctionForMatch._clip_to_max_steps#no-rescaling-loop", m.loc(fn), "no loop rescales a copy step by step", "")
    cx = fnctx(repo, "MeritFunctionForMatch", "_clip_to_max_steps")
    ok = not A.has_fragments(cx.fn, ["{L}.max_step", "np.abs("])
    col.add(rule, "MeritFunctionForMatch._clip_to_max_steps#uses-max_step", ok, cx.loc(cx.fn), "the clip compares |step| with the knobs' max_step", "")
    cx2 = fnctx(repo, "JacobianSolver", "step")
    ok = not A.has_fragments(cx2.fn, ["{L} = {L}._clip_to_max_steps({L})"])
    col.add(rule, "JacobianSolver.step#clips-newton-step", ok, cx2.loc(cx2.fn), "the Newton step is clipped to max_step before the line search", "")


def _masks(col, rule="C10.R6"):
    repo = col.repo
    cx = fnctx(repo, "JacobianSolver", "step")
    fr = [("{L} = np.zeros(len(self.x))", "the step vector starts as zeros (masked-out knobs do not move)"),
          ("{L} = self.func.mask_input & self.mask_from_limits", "the input mask is active knobs and not-at-limit knobs"),
          ("SVD({L}[{L}, :][:, {L}])", "the Jacobian is restricted to active targets (rows) and free knobs (columns)"),
          ("{L}[{L}] = {L}.lstsq({L}[{L}]", "the restricted solve is written into the free knobs' slots, with the right-hand side restricted to active targets")]
    for pat, text in fr:
        col.add(rule, f"JacobianSolver.step#{pat[:28]}", not A.has_fragments(cx.fn, [pat]), cx.loc(cx.fn), text, "")
    # same mask names on matrix and vectors
    svd = [c for c in A.calls(cx.fn) if A.call_name(c) == "SVD"]
    ls = [c for c in A.calls(cx.fn) if isinstance(c.func, ast.Attribute) and c.func.attr == "lstsq"]
    ok = False
    if len(svd) == 1 and len(ls) == 1 and isinstance(svd[0].args[0], ast.Subscript):
        outer = svd[0].args[0]
        inner = outer.value
        try:
            col_mask = A.src(outer.slice.elts[1])
            row_mask = A.src(inner.slice.elts[0])
            rhs_mask = A.src(ls[0].args[0].slice)
            tgt = [n for n in A.walk(cx.fn) if isinstance(n, ast.Assign) and n.value is ls[0]]
            lhs_mask = A.src(tgt[0].targets[0].slice) if tgt else None
            ok = rhs_mask == row_mask and lhs_mask == col_mask and row_mask != col_mask
        except Exception:
            ok = False
    col.add(rule, "JacobianSolver.step#same-masks-on-matrix-and-vectors", ok, cx.loc(cx.fn),
            "rows of the matrix and the right-hand side use the output mask; columns and the solution slots use the input mask", "")
    cx = fnctx(repo, "MeritFunctionForMatch", "__call__")
    ok = not A.has_fragments(cx.fn, ["{L}[~self.mask_output] = 0"])
    col.add(rule, "MeritFunctionForMatch.__call__#disabled-targets-zeroed", ok, cx.loc(cx.fn),
            "the residuals of disabled targets are zeroed before they enter the penalty", "")
    cx = fnctx(repo, "MeritFunctionForMatch", "get_jacobian")
    skip = [n for n in cx.cfg.nodes.values() if n.kind == "stmt" and isinstance(n.ast, ast.Continue)]
    ok = len(skip) == 1 and has_guard(cx.cfg, skip[0].id, "T", lambda t: isinstance(t, ast.UnaryOp) and isinstance(t.op, ast.Not) and "mask_input" in A.src(t))
    col.add(rule, "MeritFunctionForMatch.get_jacobian#inactive-knobs-not-perturbed", ok, cx.loc(cx.fn),
            "the finite-difference Jacobian does not perturb disabled knobs", "")
    for prop, attr, owner in (("mask_input", "active", "self.vary"), ("mask_output", "active", "self.targets")):
        fn = repo.method("MeritFunctionForMatch", prop)
        ok = not A.has_fragments(fn, ["{L}.active"]) and owner in A.src(fn)
        col.add(rule, f"MeritFunctionForMatch.{prop}#from-active-flags", ok, repo.cls("MeritFunctionForMatch").module.loc(fn),
                f"{prop} reflects the active flags of {owner}", "")


def check(col: Collector):
    _callsig(col)
    _pairing(col)
    _who_writes(col)
    _limits(col)
    _stale_copy(col)
    _masks(col)
