"""C10 -- accepted optimizer iterates respect limits, max_step and disabled knobs."""
from __future__ import annotations

import ast

from .. import astutil as A
from .. import sym as S
from ..core import AnalysisError, Collector
from .common import FnCtx, SCtx, sctx
from .c09 import ERR, OPT_KEEP, octx, KNOBS_ALTS

PROP = "C10"
FLOORS = {"C10.R1": 8, "C10.R2": 6, "C10.R3": 4, "C10.R4": 8, "C10.R5": 2, "C10.R6": 6, "C10.R7": 2, "C10.R9": 1}
META = {
    "explanation": "Every enable/disable call of Optimize passes keywords its callee accepts; each temporary enable_*/disable_* applied "
                   "before the solver steps has its inverse (opposite method, same keyword, argument and guard) after them; every store "
                   "into a knob container is dominated by the `active` test of that very knob (except reload, which restores a logged "
                   "row); the limit tests precede the write and have both sides, the solver zeroes a coordinate that would leave its "
                   "limits and tries / commits the same `x - step`; limits are converted to solver space with the inverse of the weight "
                   "scaling; the max-step clip is applied to the full-length step and never decides about the running copy by reading "
                   "the stale original; the masked solve writes into a zero vector with the same masks on matrix and right-hand side, "
                   "disabled targets are zeroed and nothing un-zeroes them afterwards. Compared as symbolic terms after helper inlining. The solver is restarted from the current knobs whenever they differ from its x; _set_state acts per selection kind under its own test; the max-step clip shrinks, when the step exceeds the maximum.",
    "decides": "who may write knobs and under which guard, pairing of temporary state changes, shape of limit/step clipping, mask plumbing",
    "not_decided": "the bounds as numeric facts for all inputs and weights",
    "assumptions": ["Vary.active is the only notion of a disabled knob"],
}

V = ("elem", S.sattr("vary"))
NP = ("glob", "np")
FUNC = S.sattr("func")


def _callsig(col, rule="C10.R1"):
    repo = col.repo
    opt = repo.cls("Optimize")
    n = 0
    seen_fn = set()
    for name, fn in opt.methods.items():
        if id(fn) in seen_fn:
            continue
        seen_fn.add(id(fn))
        if name.startswith("_") and not name.startswith("__") and name not in OPT_KEEP:
            continue        # private helper: its calls are judged where it is inlined
        src = A.src(fn)
        if "enable" not in src and "disable" not in src and not any(isinstance(c.func, ast.Attribute) and c.func.attr.startswith("_") for c in A.calls(fn)):
            continue
        try:
            msx = octx(repo, "Optimize", name)
        except NotImplementedError:
            continue
        for ev in msx.events:
            if ev.kind != "call":
                continue
            for t in S.instances(ev.term, 16):
                f = t[1] if t[:1] == ("call",) else None
                if not (f and f[:1] == ("attr",) and f[1] == S.SELF and f[2] in ("enable", "disable")):
                    continue
                callee = opt.methods[f[2]]
                accepted = set(A.params(callee)[1:]) | {a.arg for a in callee.args.kwonlyargs}
                bad = [k for k, _v in t[3] if k != "**" and k not in accepted]
                toomany = len(t[2]) > len(A.params(callee)) - 1
                n += 1
                kws = ",".join(k for k, _v in t[3])
                first = S.show(t[3][0][1], False) if t[3] else ""
                col.add(rule, f"Optimize.{name}#{f[2]}({kws})@{first}", not bad and not toomany, msx.loc(ev),
                        f"the call passes only keywords that Optimize.{f[2]} accepts {sorted(accepted)}", f"unknown keywords: {bad}")
    col.count("enable_disable_call_sites", n)
    for meth, state in (("enable", "True"), ("disable", "False")):
        sx = sctx(repo, "Optimize", meth, keep=OPT_KEEP | {"_set_state"})
        ps = {t[2]: t for t in sx.sym.params.values() if t[:1] == ("param",)}
        want = {(S.sattr("targets"), ps.get("target"), None), (S.sattr("vary"), ps.get("vary"), "tag"), (S.sattr("vary"), ps.get("vary_name"), "name")}
        got = set()
        for ev, m in sx.calls_some(("call", ("glob", "_set_state"), S.V("a"), S.V("k"))):
            full = S.call_args(ev.term, ("lst", "state", "entries", "attr")) or S.call_args(ev.term, ("lst", "state", "entries"))
            if full is not None and full[1] == ("const", state):
                attr = full[3] if len(full) == 4 else None
                got.add((full[0], full[2], (attr[1].strip("'\"") if attr[:1] == ("const",) else S.show(attr)) if attr else None))
        got_n = {(x, y, (z if z != "tag" or x != S.sattr("targets") else None)) for x, y, z in got}
        ok = {(x, y, z if not (x == S.sattr("vary") and z is None) else "tag") for x, y, z in got_n} == want
        col.add(rule, f"Optimize.{meth}#sets-state-{state}", ok, sx.loc(sx.fn),
                f"{meth}() sets active={state} on the targets selected by `target`, the knobs selected by tag (`vary`) and by name (`vary_name`)",
                str(sorted((S.show(x), S.show(y) if y else None, z) for x, y, z in got)))
    sx = sctx(repo, None, "_set_state", "optimize.optimize")
    lst, state, entries = sx.P(0), sx.P(1), sx.P(2)
    el = ("elem", lst)
    pairs = set()
    for e in sx.of_kind("store"):
        for t in S.alts(e.target):
            if t[:1] == ("attr",) and t[2] == "active":
                conds = sx.conds(e.nid)
                who = "all" if t[1] == el else "indexed" if (t[1][:1] == ("sub",) and t[1][1] == lst) else "?"
                matched = any(S.is_call_of(c, ("attr", ("glob", "re"), "fullmatch")) for c in conds)
                pairs.add((who, S.show(e.value, False), matched))
    ok = pairs == {("all", S.show(state, False), False), ("all", S.show(("uop", "not", state), False), False),
                   ("indexed", S.show(state, False), False), ("all", S.show(state, False), True)}
    col.add(rule, "_set_state#assigns-active", ok, sx.loc(sx.fn), "_set_state assigns the requested state to the selected entries only",
            str(sorted(pairs)))
    # a single position or pattern is wrapped into a list exactly when it is one (a bare string would otherwise be iterated by character)
    pname = entries[2] if entries[:1] == ("param",) else None
    for nid, nd in sx.cfg.nodes.items():
        st = nd.ast
        if nd.kind == "stmt" and isinstance(st, ast.Assign) and len(st.targets) == 1 and isinstance(st.targets[0], ast.Name) and st.targets[0].id == pname \
                and isinstance(st.value, (ast.List, ast.Tuple)) and len(st.value.elts) == 1 and isinstance(st.value.elts[0], ast.Name) and st.value.elts[0].id == pname:
            cs = sx.conds(nid)
            single = [c for c in cs if (c[:2] == ("bool", "or") and all(S.is_call_of(x, ("glob", "isinstance")) for x in c[2])) or
                      (S.is_call_of(c, ("glob", "isinstance")) and c[2][0] == entries)]
            neg = [c for c in cs if c[:2] == ("uop", "not") and S.is_call_of(c[2], ("glob", "isinstance")) and c[2][2][0] == entries]
            kinds = set()
            for c in single:
                for x in (c[2] if c[:2] == ("bool", "or") else (c,)):
                    t_ = x[2][1]
                    kinds |= {y[1] for y in (t_[1] if t_[:1] == ("tuple",) else (t_,)) if y[:1] == ("glob",)}
            if single or neg:
                col.add(rule, "_set_state#single-entry-wrapped-when-int-or-str", kinds == {"int", "str"} and not neg, sx.loc(nid),
                        "`entries = [entries]` runs exactly for a single int or str", str([S.show(c) for c in cs][:4]))
    # ... each form under its own test: True -> all on, False -> all to the opposite, an int -> that entry, a string -> the entries whose
    # attribute it fully matches; nothing at all for None
    attr_p = sx.pnamed("attr") if "attr" in sx.sym.params else None
    for e in sx.of_kind("store"):
        for t in S.alts(e.target):
            if not (t[:1] == ("attr",) and t[2] == "active"):
                continue
            conds = sx.conds(e.nid)
            tags = set()
            for c in conds:
                if c == ("cmp", "is", entries, ("const", "True")):
                    tags.add("is-True")
                elif c == ("cmp", "is", entries, ("const", "False")):
                    tags.add("is-False")
                elif c == ("cmp", "is", entries, ("const", "None")):
                    tags.add("is-None")
                elif S.is_call_of(c, ("glob", "isinstance")) and len(c[2]) == 2 and c[2][1] in (("glob", "int"), ("glob", "str")) and \
                        any(x == entries for x in S.subterms(c[2][0])):
                    tags.add("is-" + c[2][1][1])
            who = "all" if t[1] == el else "indexed" if (t[1][:1] == ("sub",) and t[1][1] == lst) else "?"
            matched = [c for c in conds if S.is_call_of(c, ("attr", ("glob", "re"), "fullmatch"))]
            val = "state" if e.value == state else "not-state" if e.value == ("uop", "not", state) else "?"
            want = {("all", "state", False): {"is-True"}, ("all", "not-state", False): {"is-False"},
                    ("indexed", "state", False): {"is-int"}, ("all", "state", True): {"is-str"}}.get((who, val, bool(matched)))
            if want is None:
                continue        # already reported by the set comparison above
            # decided on the finite set of kinds `entries` can be: under which of them can this store run?
            DOM = {"None": None, "True": True, "False": False, "int": 5, "str": "a", "list": [5, "a"]}

            def ev(c, v):
                if c == entries:
                    return bool(v)
                if c[:2] == ("uop", "not"):
                    r_ = ev(c[2], v)
                    return None if r_ is None else not r_
                if c[:1] == ("cmp",) and c[1] in ("is", "is not") and c[2] == entries and c[3][:1] == ("const",) and c[3][1] in ("None", "True", "False"):
                    same = v is {"None": None, "True": True, "False": False}[c[3][1]]
                    return same if c[1] == "is" else not same
                if S.is_call_of(c, ("glob", "isinstance")) and len(c[2]) == 2 and c[2][0] == entries:
                    tt = c[2][1]
                    names = [y[1] for y in (tt[1] if tt[:1] == ("tuple",) else (tt,)) if y[:1] == ("glob",)]
                    if names and all(nm_ in ("int", "str", "bool", "list", "tuple") for nm_ in names):
                        return isinstance(v, tuple({"int": int, "str": str, "bool": bool, "list": list, "tuple": tuple}[nm_] for nm_ in names))
                    return None
                if c[:1] == ("bool",):
                    vs = [ev(x, v) for x in c[2]]
                    if c[1] == "and":
                        return False if False in vs else (None if None in vs else True)
                    return True if True in vs else (None if None in vs else False)
                return None
            runs_for = {k for k, v in DOM.items() if not any(ev(c, v) is False for c in conds)}
            if who == "all" and not matched:
                expect = {"True"} if val == "state" else {"False"}
                okd = runs_for == expect
            else:
                # positions and patterns: a single int / str or a sequence of them; never None, True or False
                okd = not (runs_for & {"None", "True", "False"}) and bool(runs_for & {"int", "str", "list"})
                expect = {"int / str / list"}
            col.add(rule, f"_set_state#{who}-{val}{'-matched' if matched else ''}-under-its-own-test", okd, sx.loc(e),
                    "each kind of selection (True / False / position / pattern) acts under the test for that kind, and None selects nothing",
                    f"can run when `entries` is {sorted(runs_for)}, expected {sorted(expect)}")
            for c in matched:
                a = c[2]
                okm = len(a) == 2 and any(x == entries for x in S.subterms(a[0])) and \
                    S.is_call_of(a[1], ("glob", "getattr")) and len(a[1][2]) >= 2 and a[1][2][0] == el and (attr_p is None or a[1][2][1] == attr_p)
                col.add(rule, "_set_state#pattern-matched-against-the-attribute", okm, sx.loc(e),
                        "re.fullmatch(pattern=<the entry>, string=getattr(<item>, attr))", S.show(c)[:100])


def _pairing(col, rule="C10.R2"):
    repo = col.repo
    sx = octx(repo, "Optimize", "step")
    cfg = sx.cfg
    solver_steps = [ev.nid for ev, m in sx.calls_some(("call", ("attr", S.sattr("solver"), "step"), S.ANY, S.ANY))]
    if not solver_steps:
        raise AnalysisError("Optimize.step: no self.solver.step(...) -- cannot decide")
    pre, post = [], []
    for ev, m in sx.calls_some(("call", ("attr", S.SELF, S.V("m", lambda t: t in ("enable", "disable"))), S.V("a"), S.V("k"))):
        kws = m["k"]
        kw = kws[0][0] if kws else None
        arg = kws[0][1] if kws else (m["a"][0] if m["a"] else None)
        rec = (m["m"], kw, arg, tuple(sx.conds(ev.nid)), ev.nid)
        if any(cfg.path_avoiding(ev.nid, s_, []) for s_ in solver_steps):
            pre.append(rec)
        else:
            post.append(rec)
    inv = {"enable": "disable", "disable": "enable"}
    for mth, kw, arg, conds, nid in pre:
        match = [p for p in post if p[0] == inv[mth] and p[1] == kw and p[2] == arg and p[3] == conds]
        okm = len(match) == 1
        if okm:
            skip = sx.branches(("cmp", "is", arg, ("const", "None")))
            okm = all(cfg.must_pass(s_, cfg.EXIT, [match[0][4]] + skip) for s_ in solver_steps)
        col.add(rule, f"Optimize.step#{mth}({kw}={S.show(arg, False)})-undone", okm, sx.loc(nid),
                f"the temporary {mth}({kw}=...) applied before the steps is undone after them by {inv[mth]}({kw}=...) under the same guard, "
                "on every normal path", f"post-step calls: {[(p[0], p[1], S.show(p[2], False)) for p in post]}")
    stray = [p for p in post if not any(q[0] == inv[p[0]] and q[1] == p[1] and q[2] == p[2] for q in pre)]
    col.add(rule, "Optimize.step#no-unpaired-post-call", not stray, sx.loc(stray[0][4]) if stray else sx.loc(sx.fn),
            "no enable/disable after the steps without its counterpart before them", str([(p[0], p[1], S.show(p[2], False)) for p in stray]))
    for mth, kw, arg, conds, nid in pre + post:
        ok = conds == (("cmp", "is not", arg, ("const", "None")),)
        col.add(rule, f"Optimize.step#{mth}({kw}={S.show(arg, False)})-guard@{'pre' if (mth, kw, arg, conds, nid) in pre else 'post'}", ok, sx.loc(nid),
                "a temporary change is applied exactly when its argument is given", str([S.show(c) for c in conds]))
    # the call's starting point (the reference of take_best) is evaluated under the masks the steps will use
    start = [ev.nid for ev, m in sx.calls_some(("call", ("attr", S.SELF, S.V("m", lambda t: t in (
        "_add_starting_point_to_log_and_print", "tag", "add_point_to_log"))), S.ANY, S.ANY))
        if any(cfg.path_avoiding(ev.nid, s_, []) for s_ in solver_steps)]
    if start:
        late = [r for r in pre if any(cfg.path_avoiding(st, r[4], []) for st in start)]
        col.add(rule, "Optimize.step#starting-point-evaluated-under-temporary-masks", not late, sx.loc(late[0][4]) if late else sx.loc(start[0]),
                "the starting point of the call is logged (and its penalty evaluated) after the temporary enable/disable arguments "
                "were applied: a target disabled for this call does not contribute to the penalty the accepted points are compared with",
                f"applied after the starting point was logged: {[(r[0], r[1]) for r in late]}")
    # every iteration restarts the solver from the knobs as they are now (the user, a reload or a tag may have moved them since the
    # solver last ran): a stale solver.x makes the next commit jump by more than max_step and overwrites those values
    SX = ("attr", S.sattr("solver"), "x")
    sets = [e for e in sx.of_kind("store") if e.target == SX and any(cfg.path_avoiding(e.nid, s_, []) for s_ in solver_steps)]
    if not sets:
        col.fail(rule, "Optimize.step#solver-restarts-from-current-knobs", sx.loc(solver_steps[0]),
                 "before solver.step() the solver's x is set from the current knob values", "no store to self.solver.x ahead of solver.step()")
    for e in sets:
        from_knobs = any(e.value == S.mcall(ERR, "_knobs_to_x", k) for k in KNOBS_ALTS)
        conds = sx.conds(e.nid)
        verdict = None
        if not from_knobs:
            verdict, why = False, f"value {S.show(e.value)[:80]} is not _knobs_to_x(current knob values)"
        elif not conds:
            verdict, why = True, "unconditional"
        elif len(conds) == 1:
            parts = conds[0][2] if conds[0][:2] == ("bool", "or") else (conds[0],)
            none_test = ("cmp", "is", SX, ("const", "None"))
            differs = [p for p in parts if p[:2] == ("uop", "not") and S.is_call_of(p[2]) and p[2][1][:1] == ("attr",) and
                       p[2][1][2] in ("allclose", "array_equal", "isclose")]
            same = [p for p in parts if S.is_call_of(p) and p[1][:1] == ("attr",) and p[1][2] in ("allclose", "array_equal", "isclose")]
            if same:
                verdict, why = False, "the solver is restarted when the knobs are *unchanged* and left stale when they moved"
            elif differs and all(p == none_test or p in differs for p in parts):
                verdict, why = True, "whenever the knobs differ from the solver's x (or the solver has none)"
        if verdict is None:
            raise AnalysisError(f"Optimize.step: the condition under which self.solver.x is refreshed is not recognised: {[S.show(c)[:80] for c in conds]} (cannot decide)")
        col.add(rule, "Optimize.step#solver-restarts-from-current-knobs", verdict, sx.loc(e),
                "before solver.step() the solver's x is set from the current knob values whenever they differ from it", why)
    # the undo comes last: a reload (take_best) after it would put back the flags logged under the temporary masks
    reloads = [ev.nid for ev, m in sx.calls_some(("call", ("attr", S.SELF, "reload"), S.ANY, S.ANY))]
    if reloads and post:
        after = [r for r in reloads if any(cfg.path_avoiding(p_[4], r, []) for p_ in post)]
        col.add(rule, "Optimize.step#temporary-state-undone-after-take-best", not after, sx.loc(after[0]) if after else sx.loc(post[0][4]),
                "the temporary enable/disable arguments are undone after the take_best reload, never before it: reload() restores the "
                "active flags stored with the chosen row, which were recorded under the temporary masks",
                f"reload reachable after the undo at {[sx.loc(r) for r in after]}")
    # the selections are optional arguments: only None means "not given" (index 0 is a selection)
    from .common import truthiness_uses
    sel = [sx.pnamed(n_) for n_ in ("enable_target", "enable_vary", "enable_vary_name", "disable_target", "disable_vary", "disable_vary_name")
           if n_ in sx.sym.params]
    tru = truthiness_uses(sx, sel)
    col.add(rule, "Optimize.step#selections-tested-against-None", not tru, sx.loc(sx.fn),
            "whether a temporary enable/disable argument was given is decided by `is None`, never by its truth value (the index 0 "
            "selects the first knob / target)", "; ".join(tru))
    if len(pre) < 6 and tru:
        return
    if len(pre) < 6:
        raise AnalysisError(f"Optimize.step: only {len(pre)} temporary enable/disable applications found before the steps (expected 6)")


def knob_store_events(sx: SCtx):
    """store events `<v>.container[<v>.name] = ...` (same <v> on both sides)"""
    out = []
    for e in sx.of_kind("store"):
        for t in S.alts(e.target):
            if t[:1] == ("sub",) and t[1][:1] == ("attr",) and t[1][2] == "container" and t[2][:1] == ("attr",) and t[2][2] == "name" and t[1][1] == t[2][1]:
                out.append((e, t[1][1]))
    return out


def _who_writes(col, rule="C10.R3"):
    repo = col.repo
    m = repo.module("optimize.optimize")
    n = 0
    private = lambda nm: nm.startswith("_") and not nm.startswith("__") and nm not in OPT_KEEP     # noqa: E731
    # private helpers that (transitively) write a knob: their stores are judged in the callers they are inlined into
    writers = {fn.name for mod, c, fn in repo.all_functions() if mod is m and ".container[" in A.src(fn) and private(fn.name)}
    grew = True
    while grew:
        grew = False
        for mod, c, fn in repo.all_functions():
            if mod is m and private(fn.name) and fn.name not in writers and any(
                    (isinstance(x.func, ast.Attribute) and x.func.attr in writers) or (isinstance(x.func, ast.Name) and x.func.id in writers)
                    for x in A.calls(fn)):
                writers.add(fn.name)
                grew = True
    for mod, c, fn in repo.all_functions():
        if mod is not m or private(fn.name):
            continue
        if ".container[" not in A.src(fn) and not any(
                (isinstance(x.func, ast.Attribute) and x.func.attr in writers) or (isinstance(x.func, ast.Name) and x.func.id in writers)
                for x in A.calls(fn)):
            continue
        try:
            sx = sctx(repo, c.name if c else None, fn.name, "optimize.optimize" if c is None else None, keep=OPT_KEEP)
        except AnalysisError:
            continue
        if sx.cx.orig_fn is not fn:
            continue
        q = f"{c.name}.{fn.name}" if c else fn.name
        for e, who in knob_store_events(sx):
            n += 1
            if q == "Optimize.reload":
                col.ok(rule, f"{q}#knob-store", sx.loc(e), "reload restores a logged row: deliberately unguarded (C09.R5/C15.R2)", "")
                continue
            ok = sx.under(e.nid, ("attr", who, "active"))
            col.add(rule, f"{q}#knob-store-only-if-active", ok, sx.loc(e),
                    f"a knob's container is written only under `{S.show(who)}.active` (a disabled knob is never changed)",
                    f"conditions: {[S.show(cd)[:50] for cd in sx.conds(e.nid)]}")
    col.count("knob_store_sites", n)
    if n < 4:
        raise AnalysisError(f"only {n} knob store sites found (expected at least 4)")


def _limits(col, rule="C10.R4"):
    repo = col.repo
    sx = octx(repo, "MeritFunctionForMatch", "__call__")
    cfg = sx.cfg
    q = "MeritFunctionForMatch.__call__"
    st = knob_store_events(sx)
    if len(st) != 1:
        raise AnalysisError(f"{q}: expected one knob store, found {len(st)} (cannot decide)")
    w, who = st[0]
    val = w.value
    lim = ("attr", who, "limits")
    sides = {}
    for r in sx.of_kind("raise"):
        for c in sx.conds(r.nid):
            if c[:1] == ("cmp",) and c[1] in ("<", "<=", ">", ">=") and c[2] == val and c[3][:1] == ("sub",) and c[3][1] == lim:
                i = c[3][2][1] if c[3][2][:1] == ("const",) else "?"
                sides[i] = (c[1], r, c)
    if "0" not in sides or "1" not in sides:
        raise AnalysisError(f"{q}: limit tests `value < limits[0]` / `value > limits[1]` that raise not recognised (cannot decide)")
    col.add(rule, f"{q}#lower-limit-raises", sides["0"][0] == "<", sx.loc(sides["0"][1]),
            "a value below limits[0] raises (strictly below: the closed limit itself is allowed)", S.show(sides["0"][2]))
    col.add(rule, f"{q}#upper-limit-raises", sides["1"][0] == ">", sx.loc(sides["1"][1]), "a value above limits[1] raises", S.show(sides["1"][2]))
    chk = sx.pnamed("check_limits") if "check_limits" in sx.sym.params else None
    for i in ("0", "1"):
        r = sides[i][1]
        conds = sx.conds(r.nid)
        under_check = any(chk is not None and chk in S.alts(c) for c in conds)
        # the comparison sits on every path (within one knob) from the point where limits are known to apply to the write
        tests = [n.id for n in cfg.nodes.values() if n.kind == "test" and any(
            s_ == sides[i][2] or S.neg(s_) == sides[i][2] for s_ in S.conjuncts(S.norm_cond(True, sx.sym.of(n.ast, n.id))) + S.conjuncts(S.norm_cond(False, sx.sym.of(n.ast, n.id))))]
        limit_known = sx.branches(("cmp", "is not", ("sub", lim, ("const", i)), ("const", "None")))
        hdrs = [g.of for g in cfg.guards(w.nid) if g.kind == "T" and isinstance(g.ast, (ast.For, ast.AsyncFor))]
        before = bool(tests) and bool(limit_known) and all(not cfg.path_avoiding(b, w.nid, tests + hdrs) for b in limit_known
                                                            if any(chk is not None and chk in S.alts(c) for c in sx.conds(b)) or True)
        col.add(rule, f"{q}#limit-{i}-tested-before-write", before and under_check, sx.loc(r),
                "with check_limits the limit is tested before the container is written (a refused value is never stored)",
                f"conditions of the raise: {[S.show(c)[:50] for c in conds]}")
    # ---- _get_x_limits
    sx = octx(repo, "MeritFunctionForMatch", "_get_x_limits")
    rets = sx.of_kind("return")
    if not rets:
        raise AnalysisError("MeritFunctionForMatch._get_x_limits: no return")
    convs = []
    inverse = mult = False
    for r in rets:
        for s_ in S.subterms(r.value):
            if S.is_call_of(s_, meth="_knobs_to_x") and s_[1][1] == S.SELF:
                colidx = [x[2][1][1] for x in S.subterms(s_) if x[:1] == ("sub",) and x[2][:1] == ("tuple",) and len(x[2][1]) == 2 and x[2][1][1][:1] == ("const",)]
                convs.append(colidx[0][1] if colidx else "?")
            if S.is_call_of(s_, meth="_x_to_knobs"):
                mult = True
            if s_[:1] in (("op",), ("aug",)) and S.contains(s_, lambda t: t[:1] == ("attr",) and t[2] == "weight"):
                if s_[1] == "/":
                    inverse = True
                elif s_[1] == "*":
                    mult = True
    if not convs and not inverse and not mult:
        raise AnalysisError("MeritFunctionForMatch._get_x_limits: conversion of the knob limits to solver space not recognised (cannot decide)")
    col.add(rule, "MeritFunctionForMatch._get_x_limits#limits-to-solver-space", (bool(convs) or inverse) and not mult, sx.loc(sx.fn),
            "knob limits are converted to solver space with _knobs_to_x (division by the weight), the inverse of what __call__ applies "
            "(x = knob / weight)", f"_knobs_to_x on columns {convs}; division by weight: {inverse}; multiplication / _x_to_knobs: {mult}")
    order_ok = False
    for r in rets:
        for s_ in S.subterms(r.value):
            if s_[:1] in (("list",), ("tuple",)) and len(s_[1]) == 2:
                a, b = s_[1]
                ca = [x for x in S.subterms(a) if x[:1] == ("sub",) and x[2][:1] == ("tuple",) and x[2][1][-1] == ("const", "0")]
                cb = [x for x in S.subterms(b) if x[:1] == ("sub",) and x[2][:1] == ("tuple",) and x[2][1][-1] == ("const", "1")]
                if ca and cb:
                    order_ok = True
    if not convs:
        order_ok = True
    col.add(rule, "MeritFunctionForMatch._get_x_limits#low-then-high", order_ok, sx.loc(sx.fn), "column 0 holds the lower and column 1 the upper limit", "")
    dflt = any(s_ == ("glob", "LIMITS_DEFAULT") for r in rets for s_ in S.subterms(r.value)) and \
        any(S.contains(r.value, lambda t: t == ("attr", V, "limits")) for r in rets)
    col.add(rule, "MeritFunctionForMatch._get_x_limits#default-limits", dflt, sx.loc(sx.fn), "a knob without limits gets the wide default limits", "")
    # a caller overwrites the returned array in place (the rescale_x view writes its own interval into it): the array must
    # be allocated afresh on every call and not be kept by the merit function
    vsx = sctx(repo, "MeritFuctionView", "get_x_limits", keep=OPT_KEEP | {"_check_for_scalability"})
    got = S.mcall(S.sattr("merit_function"), "_get_x_limits")
    mutated = [e for e in vsx.of_kind("store") if any(t[:1] == ("sub",) and t[1] == got for t in S.alts(e.target))]
    if mutated:
        kept = {e.value for e in sx.of_kind("store") if S.is_attr(e.target, S.SELF) and e.value is not None}
        stale = []
        for r in rets:
            for a in S.instances(r.value, 16):
                if S.is_attr(a, S.SELF) or any(S.is_attr(x, S.SELF) and x[2].startswith("_x_lim") for x in [a]):
                    stale.append(f"returns the stored {S.show(a)}")
                elif a in kept:
                    stale.append(f"returns an array it also keeps ({S.show(a)[:50]})")
                elif not (S.is_call_of(a) and a[1][:1] == ("attr",) and a[1][1] == NP):
                    stale.append(f"returns {S.show(a)[:50]}")
        col.add(rule, "MeritFunctionForMatch._get_x_limits#returns-a-fresh-array", not stale, sx.loc(sx.fn),
                "the limits array handed out is newly built on every call and not retained: MeritFuctionView.get_x_limits writes the "
                "rescale_x interval into the array it receives, which must not be the array the solver checks its steps against",
                "; ".join(dict.fromkeys(stale)))
    # ---- JacobianSolver.step
    sx = octx(repo, "JacobianSolver", "step")
    cfg = sx.cfg
    q = "JacobianSolver.step"
    X = S.sattr("x")
    zeroed = {}

    def trigger_conds(e):
        """conditions of a zeroing store; for `for i in np.flatnonzero(M): step[i] = 0` those under which M[i] was set"""
        cs = list(sx.conds(e.nid))
        out_ = [(cs, e.target)]
        for lp in sx.sym.loops(e.nid):
            m_ = S.match(lp, ("call", ("attr", NP, S.V("f", lambda t: t in ("flatnonzero",))), (S.V("m"),), ())) or \
                S.match(lp, ("sub", S.fcall(("attr", NP, "where"), S.V("m")), ("const", "0")))
            if m_ is None:
                continue
            for e2 in sx.of_kind("store"):
                if e2.value == ("const", "True") and e2.target[:1] == ("sub",) and e2.target[1] in S.alts(m_["m"]) + (m_["m"],):
                    # the same store, re-indexed by the position at which the mask was set
                    out_.append((list(sx.conds(e2.nid)), ("sub", e.target[1], e2.target[2])))
        # `mask = np.array([<test at i> for i in range(n)], dtype=bool); step[mask] = 0`: the test of coordinate i, stored at i
        for a_ in S.alts(e.target[2]) if e.target[:1] == ("sub",) else ():
            arr = a_
            if S.is_call_of(arr) and arr[1][:1] == ("attr",) and arr[1][1] == NP and arr[1][2] in ("array", "asarray", "fromiter") and arr[2]:
                arr = arr[2][0]
            if arr[:1] == ("acc",) and arr[1] in ("list", "gen") and len(arr[2]) == 1 and arr[2][0][0] == "one" and not arr[2][0][1]:
                test = arr[2][0][2]
                pos_ = [x[1][2] for x in S.subterms(test) if x[:1] == ("sub",) and x[2][:1] == ("const",) and x[1][:1] == ("sub",)]
                if pos_:
                    out_.append(([test], ("sub", e.target[1], pos_[0])))
        return out_
    for e in sx.of_kind("store"):
        if e.value == ("const", "0") and e.target[:1] == ("sub",):
          for conds_, tgt_ in trigger_conds(e):
            e_ = e if tgt_ == e.target else type("E", (), {"target": tgt_, "nid": e.nid, "node": e.node, "value": e.value})()
            for c0 in conds_:      # innermost condition first: the test that triggers this zeroing
                parts = list(c0[2]) if (c0[:1] == ("bool",) and c0[1] == "or") else [c0]
                hit = False
                for c in parts:
                    if c[:1] == ("cmp",) and c[1] in ("<", ">", "<=", ">=") and c[2][:1] == ("op",) and c[2][1] == "-" and c[3][:1] == ("sub",) and c[3][2][:1] == ("const",):
                        zeroed.setdefault(c[3][2][1], (c[1], c[2], c[3], e_))
                        hit = True
                if hit:
                    break
    lo, hi = zeroed.get("0"), zeroed.get("1")
    ok = lo is not None and hi is not None and lo[0] == "<" and hi[0] == ">" and lo[1] == hi[1]
    col.add(rule, f"{q}#both-limit-sides", ok, sx.loc(lo[3]) if lo else sx.loc(sx.fn),
            "each coordinate of the trial point is tested against its lower (<) and its upper (>) limit, and a coordinate that would "
            "leave its limits is not moved (its step is set to 0)", str({k: (v[0], S.show(v[1])[:60]) for k, v in zeroed.items()}))
    if ok:
        trial = lo[1]
        ca = S.coord(trial[2])
        i = ca[1] if ca else None
        same = ca is not None and ca[0] == X and trial[3][:1] == ("sub",) and trial[3][2] == i and lo[3].target == trial[3] and hi[3].target == trial[3]
        col.add(rule, f"{q}#limit-test-on-the-trial-coordinate", same, sx.loc(lo[3]),
                "the coordinate tested is x[i] - step[i] and the step zeroed is that same step[i]", S.show(trial))
        step_vec = trial[3][1]
        ev = [e for e, m in sx.calls_some(S.mcall(S.SELF, "eval", ("op", "-", X, S.V("s"))))]
        ev_ok = any(S.match(e.term, S.mcall(S.SELF, "eval", ("op", "-", X, step_vec))) is not None for e in ev)
        commits = [e for e in sx.of_kind("store") if e.target == X and e.value is not None and e.value[:1] == ("aug",) and e.value[1] == "-"]
        com_ok = len(commits) == 1 and commits[0].value[3] == step_vec
        col.add(rule, f"{q}#trial-equals-commit", ev_ok and com_ok, sx.loc(commits[0]) if commits else sx.loc(sx.fn),
                "the point evaluated, the point limit-tested and the point committed are the same `x - step`",
                f"evaluated with that step: {ev_ok}; committed with that step: {com_ok}")
        lim_src = lo[2][1][1] if lo[2][1][:1] == ("sub",) else lo[2][1]
        col.add(rule, f"{q}#limits-from-merit-function", lim_src == S.mcall(FUNC, "_get_x_limits"), sx.loc(sx.fn),
                "the limits are the merit function's solver-space limits", S.show(lim_src)[:80])
    # ---- _clip_to_limits (check_limits False mode)
    sx = octx(repo, "Optimize", "_clip_to_limits")
    cv = S.mcall(V, "get_value")
    got = {}
    for e, who in knob_store_events(sx):
        for c in sx.conds(e.nid):
            if c[:1] == ("cmp",) and c[2] == cv and c[3] == e.value:
                got[S.show(e.value, False)] = c[1]
    want = {S.show(("sub", ("attr", V, "limits"), ("const", "0")), False): "<", S.show(("sub", ("attr", V, "limits"), ("const", "1")), False): ">"}
    col.add(rule, "Optimize._clip_to_limits#clips-to-violated-limit", got == want, sx.loc(sx.fn), "a value below/above its limit is set to that limit", str(got))


def _stale_copy(col, rule="C10.R5"):
    """if Y = X.copy() and a loop mutates Y in place, the loop's tests must not read X"""
    repo = col.repo
    m = repo.module("optimize.optimize")
    n = 0
    for mod, c, fn in repo.all_functions():
        if mod is not m:
            continue
        copies = {}
        for x in A.walk(fn):
            if isinstance(x, ast.Assign) and len(x.targets) == 1 and isinstance(x.targets[0], ast.Name) and isinstance(x.value, ast.Call) \
                    and isinstance(x.value.func, ast.Attribute) and x.value.func.attr == "copy" and isinstance(x.value.func.value, ast.Name):
                copies[x.targets[0].id] = x.value.func.value.id
        for y, xname in copies.items():
            for loop in (l for l in A.walk(fn) if isinstance(l, (ast.For, ast.While))):
                whole = any(isinstance(s_, ast.AugAssign) and A.dotted(s_.target) == y for s_ in A.walk(loop))
                if not whole:
                    continue
                n += 1
                stale = [A.src(t.test) for t in A.walk(loop) if isinstance(t, (ast.If, ast.IfExp, ast.While)) and xname in A.names_loaded(t.test)
                         and any(isinstance(s_, ast.Subscript) and A.dotted(s_.value) == xname for s_ in A.walk(t.test))]
                q = f"{c.name}.{fn.name}" if c else fn.name
                col.add(rule, f"{q}#no-decision-on-stale-original:{xname}->{y}", not stale, mod.loc(loop),
                        f"`{y}` is a copy of `{xname}` rescaled as a whole inside the loop: from the second iteration on `{xname}` is a stale "
                        f"version of it, so no test of the loop may read `{xname}[...]`", str(stale))
    if n == 0:
        fn = repo.method("MeritFunctionForMatch", "_clip_to_max_steps")
        col.ok(rule, "MeritFunctionForMatch._clip_to_max_steps#no-rescaling-loop", m.loc(fn), "no loop rescales a copy step by step", "")
    sx = octx(repo, "MeritFunctionForMatch", "_clip_to_max_steps")
    uses = False
    for nd in sx.cfg.nodes.values():
        if nd.kind == "test":
            t = sx.sym.of(nd.ast, nd.id)
            if S.contains(t, lambda x: x[:1] == ("attr",) and x[2] == "max_step") and S.contains(t, lambda x: S.is_call_of(x, ("attr", NP, "abs")) or S.is_call_of(x, ("glob", "abs"))):
                uses = True
    for r in sx.of_kind("return"):
        if S.contains(r.value, lambda x: x[:1] == ("attr",) and x[2] == "max_step"):
            uses = True
    # a single common rescaling is right only if its factor is the LARGEST step/max_step ratio
    def _argmax_of(t):
        if S.is_call_of(t, ("attr", NP, "argmax")) or S.is_call_of(t, ("attr", NP, "nanargmax")):
            return t[2][0] if t[2] else None
        if S.is_call_of(t, meth="argmax") and t[1][:1] == ("attr",):
            return t[1][1]
        return None
    for r in sx.of_kind("return"):
        for a in S.subterms(r.value):
            if a[:1] == ("aug",) and a[1] in ("/", "*"):
                for x in S.subterms(a[3]):
                    if x[:1] == ("sub",) and _argmax_of(x[2]) is not None:
                        col.add(rule, "MeritFunctionForMatch._clip_to_max_steps#common-scale-is-the-largest-ratio",
                                S.canon(_argmax_of(x[2])) == S.canon(x[1]), sx.loc(r),
                                "when the whole step is rescaled once, the factor is the largest |step|/max_step ratio: the entry picked "
                                "from the ratio array is the argmax of that same array",
                                f"factor {S.show(x)[:160]}")
    col.add(rule, "MeritFunctionForMatch._clip_to_max_steps#uses-max_step", uses, sx.loc(sx.fn), "the clip compares |step| with the knobs' max_step", "")
    # the step-by-step form `if |out[i]| > max_i: out *= max_i / |out[i]|`: direction of the test and of the factor
    fn0 = repo.method("MeritFunctionForMatch", "_clip_to_max_steps")
    maxnames = {t.id for a in A.walk(fn0) if isinstance(a, ast.Assign) and any(isinstance(x, ast.Attribute) and x.attr == "max_step" for x in A.walk(a.value))
                for t in a.targets if isinstance(t, ast.Name)}

    def _is_abs(e):
        return any(isinstance(x, ast.Call) and (A.dotted(x.func) or "").split(".")[-1] in ("abs", "fabs", "absolute") for x in A.walk(e))

    def _is_max(e):
        return any((isinstance(x, ast.Name) and x.id in maxnames) or (isinstance(x, ast.Attribute) and x.attr == "max_step") for x in A.walk(e))
    for iff in (x for x in A.walk(fn0) if isinstance(x, ast.If)):
        augs = [a for st_ in iff.body for a in A.walk(st_) if isinstance(a, ast.AugAssign) and isinstance(a.op, (ast.Mult, ast.Div))]
        t = iff.test
        negated = False
        while isinstance(t, ast.UnaryOp) and isinstance(t.op, ast.Not):
            t, negated = t.operand, not negated
        if not augs or not (isinstance(t, ast.Compare) and len(t.ops) == 1 and isinstance(t.ops[0], (ast.Gt, ast.GtE, ast.Lt, ast.LtE))):
            continue
        l, r = t.left, t.comparators[0]
        if not ((_is_abs(l) and _is_max(r) and not _is_max(l)) or (_is_abs(r) and _is_max(l) and not _is_max(r))):
            continue
        abs_is_larger = (_is_abs(l) and isinstance(t.ops[0], (ast.Gt, ast.GtE))) or (_is_abs(r) and isinstance(t.ops[0], (ast.Lt, ast.LtE)))
        abs_is_larger = abs_is_larger != negated
        col.add(rule, "MeritFunctionForMatch._clip_to_max_steps#rescales-when-step-exceeds-max", abs_is_larger, m.loc(iff),
                "the step is rescaled when |step_i| exceeds max_step_i (not when it is below)", A.src(t))
        for a in augs:
            f = a.value
            if isinstance(f, ast.BinOp) and isinstance(f.op, (ast.Div, ast.Mult)) and ((_is_max(f.left) and _is_abs(f.right)) or (_is_abs(f.left) and _is_max(f.right))):
                shrink = isinstance(f.op, ast.Div) and ((_is_max(f.left) and isinstance(a.op, ast.Mult)) or (_is_abs(f.left) and isinstance(a.op, ast.Div)))
                col.add(rule, "MeritFunctionForMatch._clip_to_max_steps#factor-shrinks-to-max", shrink, m.loc(a),
                        "the rescaling multiplies by max_step_i/|step_i| (or divides by its inverse), bringing the offending entry down to its max_step",
                        A.src(a))
    sx = octx(repo, "JacobianSolver", "step")
    clips = sx.calls_some(("call", ("attr", S.V("f"), "_clip_to_max_steps"), (S.V("s"),), ()))
    zeros = S.fcall(("attr", NP, "zeros"), S.fcall("len", S.sattr("x")))
    ok = len(clips) == 1 and clips[0][1]["s"] == zeros
    used = False
    if clips:
        for e, mm in sx.calls_some(S.mcall(S.SELF, "eval", ("op", "-", S.sattr("x"), S.V("s")))):
            if S.contains(mm["s"], lambda t: t == clips[0][0].term):
                used = True
    col.add(rule, "JacobianSolver.step#clips-newton-step", ok and used, sx.loc(clips[0][0]) if clips else sx.loc(sx.fn),
            "the full-length Newton step (one slot per knob, in knob order) is clipped to max_step before the line search, and the "
            "clipped step is the one tried", f"clipped: {S.show(clips[0][1]['s'])[:80] if clips else None}; used for the trial points: {used}")


def _masks(col, rule="C10.R6"):
    repo = col.repo
    sx = octx(repo, "JacobianSolver", "step")
    zeros = S.fcall(("attr", NP, "zeros"), S.fcall("len", S.sattr("x")))
    MI = ("op", "&", ("attr", FUNC, "mask_input"), S.sattr("mask_from_limits"))
    svd = sx.calls_some(("call", ("glob", "SVD"), (S.V("m"),), S.ANY))
    ls = sx.calls_some(("call", ("attr", S.V("svd"), "lstsq"), S.V("a"), S.V("k")))
    if len(svd) != 1 or len(ls) != 1:
        raise AnalysisError("JacobianSolver.step: expected one SVD(...) and one lstsq(...) (cannot decide)")
    mat = svd[0][1]["m"]
    mm = S.match(mat, ("sub", ("sub", S.V("jac"), ("tuple", (S.V("rows"), ("slice", None, None, None)))), ("tuple", (("slice", None, None, None), S.V("cols")))))
    col.add(rule, "JacobianSolver.step#jacobian-restricted-to-active-rows-and-free-columns", mm is not None, sx.loc(svd[0][0]),
            "the Jacobian is restricted to active targets (rows) and free knobs (columns)", S.show(mat)[:100])
    rhs = ls[0][1]["a"][0] if ls[0][1]["a"] else None
    st = [e for e in sx.of_kind("store") if e.value is not None and S.is_call_of(e.value, meth="lstsq")]
    ok = mm is not None and rhs is not None and rhs[:1] == ("sub",) and rhs[2] == mm["rows"] and len(st) == 1 and \
        st[0].target[:1] == ("sub",) and st[0].target[2] == mm["cols"] and mm["rows"] != mm["cols"]
    col.add(rule, "JacobianSolver.step#same-masks-on-matrix-and-vectors", ok, sx.loc(ls[0][0]),
            "rows of the matrix and the right-hand side use the output mask; columns and the solution slots use the input mask", "")
    col.add(rule, "JacobianSolver.step#solution-into-zero-vector", len(st) == 1 and st[0].target[:1] == ("sub",) and st[0].target[1] == zeros, sx.loc(sx.fn),
            "the step vector starts as zeros, one slot per knob (masked-out knobs do not move)", S.show(st[0].target)[:80] if st else "")
    col.add(rule, "JacobianSolver.step#input-mask", mm is not None and mm["cols"] == MI, sx.loc(sx.fn),
            "the input mask is active knobs and not-at-limit knobs", S.show(mm["cols"]) if mm else "")
    okro = mm is not None and mm["rows"] in (("attr", FUNC, "mask_output"), S.mcall(("attr", FUNC, "mask_output"), "copy"))
    col.add(rule, "JacobianSolver.step#output-mask", okro, sx.loc(sx.fn), "the output mask is the active targets", S.show(mm["rows"]) if mm else "")
    # ---- disabled targets zeroed, and nothing un-zeroes them
    sx = octx(repo, "MeritFunctionForMatch", "__call__")
    cfg = sx.cfg
    MO = S.sattr("mask_output")
    zero = [e for e in sx.of_kind("store") if e.value == ("const", "0") and e.target[:1] == ("sub",) and e.target[2] == ("uop", "~", MO)]
    col.add(rule, "MeritFunctionForMatch.__call__#disabled-targets-zeroed", len(zero) == 1, sx.loc(zero[0]) if zero else sx.loc(sx.fn),
            "the residuals of disabled targets are zeroed before they enter the penalty", "")
    if zero:
        bases = set(S.alts(zero[0].target[1]))
        bad = []
        for e in sx.of_kind("store"):
            if e is zero[0] or not cfg.path_avoiding(zero[0].nid, e.nid, []):
                continue
            t = e.target
            if t[:1] == ("sub",) and any(S.contains(t[1], lambda x, b=b: x == b) for b in bases) and t[1] != zero[0].target[1] or \
                    (t[:1] == ("sub",) and t[1] in bases):
                idx = t[2]
                if e.value is not None and e.value[:1] == ("aug",) and e.value[1] == "*":
                    continue    # a zero stays zero
                if not sx.under(e.nid, ("sub", MO, idx)):
                    bad.append(f"{sx.loc(e)}: {S.show(('sub', ('glob', 'err_values'), idx))} = {S.show(e.value)[:50]}")
        col.add(rule, "MeritFunctionForMatch.__call__#disabled-targets-stay-zero", not bad, sx.loc(zero[0]),
                "after the masking, a residual is overwritten only for an active target (or rescaled, which keeps a zero)", "; ".join(bad[:2]))
    sx = octx(repo, "MeritFunctionForMatch", "get_jacobian")
    mi = ("attr", S.SELF, "mask_input")
    pert = [e for e in sx.of_kind("store") if e.value is not None and e.value[:1] == ("aug",) and e.value[1] == "+"]
    ok = bool(pert) and all(sx.under(e.nid, ("sub", mi, e.target[2])) for e in pert if e.target[:1] == ("sub",))
    col.add(rule, "MeritFunctionForMatch.get_jacobian#inactive-knobs-not-perturbed", ok, sx.loc(sx.fn),
            "the finite-difference Jacobian does not perturb disabled knobs", "")
    for prop, owner in (("mask_input", "vary"), ("mask_output", "targets")):
        psx = octx(repo, "MeritFunctionForMatch", prop)
        el = ("elem", S.sattr(owner))
        ok = any(S.contains(r.value, lambda t: t == ("attr", el, "active")) for r in psx.of_kind("return"))
        col.add(rule, f"MeritFunctionForMatch.{prop}#from-active-flags", ok, psx.loc(psx.fn), f"{prop} reflects the active flags of self.{owner}", "")


def _vary_defaults(col, rule="C10.R4"):
    """a knob that gives only its finite-difference step (or only its limits) still takes the other from the container's defaults:
    each of the two is completed on its own, whatever the other is"""
    repo = col.repo
    sx = sctx(repo, "Vary", "_complete_limits_and_step_from_defaults", public=True)
    pairs = {"limits": "step", "step": "limits"}
    n = 0
    for field, other in pairs.items():
        st = [e for e in sx.of_kind("store") if e.target == S.sattr(field)]
        if not st:
            raise AnalysisError(f"Vary._complete_limits_and_step_from_defaults: no assignment of self.{field} from the defaults (cannot decide)")
        for e in st:
            n += 1
            dep = [c for c in sx.conds(e.nid) if any(x == S.sattr(other) for x in S.subterms(c))]
            col.add(rule, f"Vary._complete_limits_and_step_from_defaults#{field}-completed-whatever-{other}-is", not dep, sx.loc(e),
                    f"self.{field} is taken from the container's defaults whenever it is missing, independently of self.{other}",
                    str([S.show(c)[:60] for c in dep]))
    col.count("vary_default_completions", n)


def _list_forms_forward_settings(col, rule="C10.R4"):
    """VaryList / TargetList build one Vary / Target per name with the settings given for the list: every setting the list form accepts
    reaches the objects it builds (a dropped `max_step` or `limits` leaves the knob unconstrained)"""
    repo = col.repo
    n = 0
    for lst, elem in (("VaryList", "Vary"), ("TargetList", "Target")):
        if repo.cls(lst) is None:
            continue
        c = repo.cls(lst)
        fn = c.methods.get("__init__")
        if fn is None:
            continue
        calls = [x for x in ast.walk(fn) if isinstance(x, ast.Call) and isinstance(x.func, ast.Name) and x.func.id == elem]
        if not calls:
            raise AnalysisError(f"{lst}.__init__: no {elem}(...) call -- cannot decide")
        lead = [a.arg for a in fn.args.args[1:3]]
        settings = [a.arg for a in fn.args.args[3:] + fn.args.kwonlyargs]
        rebound = {x.id for x in ast.walk(fn) if isinstance(x, ast.Name) and isinstance(x.ctx, ast.Store)}
        for call in calls:
            n += 1
            missing = []
            passed = {x.id for a in list(call.args) + [k.value for k in call.keywords] for x in ast.walk(a) if isinstance(x, ast.Name)}
            # ... also through locals the arguments were collected into first (`settings = dict(limits=limits, ...)`)
            grew = True
            while grew:
                grew = False
                for x in ast.walk(fn):
                    tg = x.targets if isinstance(x, ast.Assign) else [x.target] if isinstance(x, (ast.AugAssign, ast.AnnAssign)) and x.value is not None else []
                    hit = any(isinstance(t_, ast.Name) and t_.id in passed for t in tg for t_ in ast.walk(t))
                    if isinstance(x, ast.Call) and isinstance(x.func, ast.Attribute) and isinstance(x.func.value, ast.Name) and x.func.value.id in passed \
                            and x.func.attr in ("update", "setdefault", "append", "extend", "__setitem__"):
                        hit, val = True, x
                    else:
                        val = getattr(x, "value", None)
                    if hit and val is not None:
                        more = {y.id for y in ast.walk(val) if isinstance(y, ast.Name)} - passed
                        if more:
                            passed |= more
                            grew = True
            for sname in settings:
                if sname not in passed and sname not in rebound:
                    missing.append(sname)
            if fn.args.kwarg is not None and fn.args.kwarg.arg not in passed and fn.args.kwarg.arg not in rebound:
                missing.append("**" + fn.args.kwarg.arg)
            col.add(rule, f"{lst}.__init__#every-setting-reaches-{elem}", not missing, c.module.loc(call),
                    f"each setting accepted by {lst} is handed to the {elem} objects it builds", f"not forwarded: {missing}" if missing else f"forwards {settings or ['**' + (fn.args.kwarg.arg if fn.args.kwarg else '')]}")
    if n == 0:
        raise AnalysisError("VaryList / TargetList: constructors not found -- cannot decide")


def check(col: Collector):
    with col.rule():
        _list_forms_forward_settings(col)
    with col.rule():
        _vary_defaults(col)
    with col.rule():
        _callsig(col)
    with col.rule():
        _pairing(col)
    with col.rule():
        _who_writes(col)
    with col.rule():
        _limits(col)
    with col.rule():
        _stale_copy(col)
    with col.rule():
        _masks(col)
    # the log rows are what reload() writes back into every knob, disabled ones included: a row holds the container values as they are
    from . import c15
    from .common import shared, construct_tag
    from . import c09
    with col.rule():
        shared(col, "C10.R8", [c09._flag], select=lambda o: construct_tag(o) in ("true-only-under-universal-test", "tolerance-test-on-unweighted-residual"),
               why="a disabled target must not keep the point from counting as matched: its slot is or-ed out of the universal test "
                   "explicitly (a zeroed residual is not below a tolerance of 0 or nan)")
    with col.rule():
        shared(col, "C10.R7", [c15._row_consistency], select=lambda o: construct_tag(o) in ("knobs-read-after-they-were-set", "writes-each-active-knob"),
               why="a logged knob vector that is the solver's x instead of the containers' values puts a stale value back into a disabled knob")
    # round 7: reload() restores the knob flags from the vary column (a disabled knob that comes back active is moved by the next
    # step), and the x -> knob map works on its own copy (scaling the solver's x in place compounds the weight at every evaluation)
    from . import c16
    with col.rule():
        shared(col, "C10.R9", [c09.check_reload], select=lambda o: "flags" in construct_tag(o) or "same-row" in construct_tag(o),
               why="a disabled knob re-enabled by reload() (explicitly, by take_best or by restore_if_fail) is changed by the steps that follow")
    with col.rule():
        shared(col, "C10.R9", [c16._inverse_pairs], select=lambda o: construct_tag(o) in ("works-on-a-copy",),
               why="an x -> knob map that rescales the solver's own vector in place multiplies the weight in once per evaluation: the knob "
                   "leaves its limits and max_step although each proposed step respected them")
