"""C12 -- a pickled manager restores to an independent, behaviourally identical copy."""
from __future__ import annotations

import ast

from .. import astutil as A
from ..core import AnalysisError, Collector
from ..refsmodel import RefClass, ref_classes
from .common import DEF_ATTRS, INDEX_ATTRS, FnCtx, fnctx, self_attr_stores

PROP = "C12"
FLOORS = {"C12.R1": 20, "C12.R2": 20, "C12.R3": 6}
META = {
    "explanation": "Every concrete reference/expression class resolves __reduce__ to a definition returning (type(self), (fields...)) "
                   "whose i-th element is the declared field that the class's __cinit__ derives from its i-th parameter, unconditionally "
                   "(no value-dependent shortcut), containing all identifying fields and not the hash; Manager is pickled through "
                   "__dict__: its attributes are plain containers whose default_factory is a module-level name, and it defines no "
                   "__getstate__/__setstate__/__reduce__ that could rebuild indices differently (multiplicities of RefCount matter).",
    "decides": "reduce tuple <-> constructor signature agreement for all node classes; pickle-safety of Manager's attributes",
    "not_decided": "behavioural equivalence of the restored copy; independence (follows from pickle's semantics)",
    "assumptions": ["pickle reconstructs cdef classes by calling type(*args), which runs the __cinit__ chain"],
}


def _reduce_vs_cinit(col, rule="C12.R1"):
    repo = col.repo
    for rc in ref_classes(repo):
        if rc.abstract:
            continue
        red = rc.reduce_fields()
        q = f"{rc.name}.__reduce__"
        if red is None or red[2] in ("abstract", "unrecognised"):
            col.fail("C12.R2", f"{q}#resolves", rc.c.module.loc(rc.c.node),
                     "a concrete class resolves __reduce__ to a definition returning (type(self), (fields...)) on its single path",
                     "abstract/unrecognised" if red else "none")
            continue
        k, fn, ctor, fields = red
        col.add("C12.R2", f"{q}#resolves", ctor in ("type(self)", "self.__class__"), k.module.loc(fn),
                "pickling reconstructs the same class", ctor)
        cin = rc.cinits()
        if not cin:
            raise AnalysisError(f"{rc.name}: no __cinit__")
        # all cinits along the MRO take the same arguments (C20.R2); use the most derived
        ps = A.params(cin[0][1])[1:]
        want = [rc.field_of_param(p) for p in ps]
        ok = fields == want
        col.add(rule, f"{q}#tuple-matches-constructor", ok, k.module.loc(fn),
                f"the reduce tuple lists, in constructor order, the fields derived from the constructor parameters {ps}",
                f"reduce ({', '.join(map(str, fields))}) vs constructor fields ({', '.join(map(str, want))})")
        undeclared = [f for f in fields if f not in rc.declared]
        col.add(rule, f"{q}#fields-declared", not undeclared, k.module.loc(fn),
                "every element of the reduce tuple is a declared field of the class (an undeclared name silently becomes an AttrRef "
                "through BaseRef.__getattr__)", str(undeclared))
        col.add(rule, f"{q}#hash-not-pickled", "_hash" not in fields, k.module.loc(fn), "the hash is recomputed, not pickled", "")
    seen = set()
    for rc in ref_classes(repo):
        r = rc.method("__reduce__")
        if r is None or id(r[1]) in seen:
            continue
        seen.add(id(r[1]))
        k, fn = r
        body = A.strip_docstring(fn.body)
        if len(body) == 1 and isinstance(body[0], ast.Raise):
            continue
        cond = [n for n in A.walk(fn) if isinstance(n, (ast.If, ast.IfExp, ast.BoolOp, ast.Try, ast.For, ast.While))]
        col.add(rule, f"{k.name}.__reduce__#unconditional", not cond and len(body) == 1, k.module.loc(fn),
                "__reduce__ returns the constructor arguments unconditionally (no value-dependent shortcut that drops arguments)",
                f"{[type(c).__name__ for c in cond]}")


def _manager(col, rule="C12.R3"):
    repo = col.repo
    mg = repo.cls("Manager")
    init = repo.method("Manager", "__init__")
    for a, n in self_attr_stores(init):
        if not isinstance(n, ast.Assign):
            continue
        v = n.value
        ok = False
        if isinstance(v, (ast.Dict, ast.List, ast.Set, ast.Constant)):
            ok = True
        elif isinstance(v, ast.Call) and A.call_name(v) == "defaultdict" and len(v.args) == 1:
            f = v.args[0]
            ok = isinstance(f, ast.Name) and (f.id in mg.module.imports or f.id in mg.module.classes or f.id in ("dict", "list", "set", "int"))
        elif isinstance(v, ast.Call) and A.call_name(v) in ("dict", "list", "set"):
            ok = True
        col.add(rule, f"Manager.__init__#{a}-picklable", ok, mg.module.loc(n),
                "a Manager attribute is a plain container (default_factory a module-level name, no lambda/closure): pickled through __dict__",
                A.src(v))
    hooks = [m for m in ("__getstate__", "__setstate__", "__reduce__", "__reduce_ex__", "__getnewargs__", "__copy__", "__deepcopy__") if m in mg.methods]
    hard = [h for h in hooks if h not in ("__getstate__", "__setstate__")]
    if hard:
        raise AnalysisError(f"Manager defines {hard}: custom reconstruction, cannot decide statically")
    bad = []
    if "__setstate__" in mg.methods:
        from . import c17
        cx = FnCtx(mg.module, mg, mg.methods["__setstate__"])
        sp = A.params(cx.fn)[1]
        muts = c17.mutation_sites(cx)
        if muts:
            bad.append(f"__setstate__ rebuilds/mutates definitions or indices: {[d for _, d in muts]}")
        if any(isinstance(c.func, ast.Attribute) and c.func.attr in ("register", "refresh", "clone", "cleanup", "unregister") for c in A.calls(cx.fn)):
            bad.append("__setstate__ re-registers tasks")
        restores = any((isinstance(c.func, ast.Attribute) and c.func.attr == "update" and A.dotted(c.func.value) == "self.__dict__"
                        and c.args and A.dotted(c.args[0]) == sp) for c in A.calls(cx.fn)) or \
            any(isinstance(n, ast.Assign) and A.dotted(n.targets[0]) == "self.__dict__" and A.dotted(n.value) == sp for n in A.walk(cx.fn))
        if not restores:
            bad.append("__setstate__ does not restore the pickled __dict__ as it was")
    if "__getstate__" in mg.methods:
        fn = mg.methods["__getstate__"]
        rets = [n.value for n in A.walk(fn) if isinstance(n, ast.Return)]
        if not (len(rets) == 1 and A.src(rets[0]) in ("self.__dict__", "self.__dict__.copy()", "dict(self.__dict__)")):
            bad.append(f"__getstate__ returns {[A.src(r) for r in rets]}")
    col.add(rule, "Manager#pickled-through-__dict__", not bad, mg.module.loc(mg.methods[hooks[0]]) if hooks else mg.module.loc(mg.node),
            "Manager's state is pickled and restored as its __dict__: the indices (reference-counted multisets whose multiplicities "
            "matter) come back exactly as they were, they are not rebuilt", "; ".join(bad))
    slots = "__slots__" in mg.consts
    col.add(rule, "Manager#no-slots", not slots, mg.module.loc(mg.node), "Manager keeps its state in __dict__", "")
    rc = repo.cls("RefCount")
    hooks = [m for m in ("__getstate__", "__setstate__", "__reduce__", "__reduce_ex__") if m in rc.methods]
    col.add(rule, "RefCount#pickled-as-dict", not hooks and rc.base_names == ["dict"], rc.module.loc(rc.node),
            "RefCount is a plain dict subclass without pickling hooks (counts survive)", str(hooks))


def check(col: Collector):
    _reduce_vs_cinit(col)
    _manager(col)
