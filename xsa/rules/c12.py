"""C12 -- a pickled manager restores to an independent, behaviourally identical copy."""
from __future__ import annotations

import ast

from .. import astutil as A
from .. import sym as S
from ..core import AnalysisError, Collector
from ..refterms import RefModel
from .common import DEF_ATTRS, INDEX_ATTRS, FnCtx, SCtx, sctx, self_attr_stores
from .c04 import model
from .indexfx import index_effects

PROP = "C12"
FLOORS = {"C12.R1": 20, "C12.R2": 20, "C12.R3": 6, "C12.R4": 1, "C12.R5": 20, "C12.R6": 1}
META = {
    "explanation": "Every concrete reference/expression class resolves __reduce__ to a definition returning (type(self), (fields...)) "
                   "whose i-th element is the declared field that the class's __cinit__ derives from its i-th parameter, on every "
                   "path and untransformed (no value-dependent shortcut, no normalisation of keys), containing all identifying fields "
                   "and not the hash; Manager is pickled through __dict__: its attributes are plain per-instance containers whose "
                   "default_factory is a module-level name, there is no class-level mutable state, and it defines no "
                   "__getstate__/__setstate__/__reduce__ that could rebuild indices differently (multiplicities of RefCount matter). No object of a class whose __getattr__ recurses on a half-built instance is kept in the manager's attributes.",
    "decides": "reduce tuple <-> constructor signature agreement for all node classes; pickle-safety of Manager's attributes",
    "not_decided": "behavioural equivalence of the restored copy; independence (follows from pickle's semantics)",
    "assumptions": ["pickle reconstructs cdef classes by calling type(*args), which runs the __cinit__ chain"],
}

CTORS = (S.fcall("type", S.SELF), ("attr", S.SELF, "__class__"))


def _reduce_vs_cinit(col, rule="C12.R1"):
    rm = model(col)
    for c in rm.classes:
        if rm.abstract(c.name):
            continue
        q = f"{c.name}.__reduce__"
        sx = rm.sx(c.name, "__reduce__")
        k = rm.defining(c.name, "__reduce__")
        rets = rm.returns(c.name, "__reduce__")
        body = A.strip_docstring(sx.cx.orig_fn.body) if sx is not None else []
        if sx is None or not rets or (len(body) == 1 and isinstance(body[0], ast.Raise)):
            col.fail("C12.R2", f"{q}#resolves", c.module.loc(c.node),
                     "a concrete class resolves __reduce__ to a definition returning (type(self), (fields...))", "abstract / none")
            continue
        # pickling a reference never refuses: references without a manager (items / attributes of an expression node) are ordinary
        raises = [n for n in A.walk(sx.cx.fn) if isinstance(n, ast.Raise)]
        col.add("C12.R2", f"{q}#never-refuses", not raises, sx.loc(raises[0]) if raises else sx.loc(sx.fn),
                "__reduce__ returns the reconstruction for every instance (it raises for none)", A.src(raises[0])[:80] if raises else "",
                positive=bool(raises))
        cin = rm.cinits(c.name)
        if not cin:
            raise AnalysisError(f"{c.name}: no __cinit__")
        pf = {}
        for m in rm.param_fields(c.name).values():
            for i, f in m.items():
                pf.setdefault(i, f)
        # fields derived (not stored as given) from a parameter, e.g. CallRef._kwargs = tuple(kwargs.items())
        nparams = len([t for t in cin[0][1].sym.params.values() if t[:1] == ("param",)])
        for f, lst in rm.field_stores(c.name).items():
            if f == "_hash":
                continue
            for kk, v, conds, sx2, ev in lst:
                ps = {s_[1] for a in S.instances(v) for s_ in S.subterms(a) if s_[:1] == ("param",)}
                if len(ps) == 1:
                    pf.setdefault(next(iter(ps)), f)
        want = [S.sattr(pf[i]) if i in pf else None for i in range(nparams)]
        ok_ctor = ok_tuple = True
        facts = ""
        fields = []
        for ev, v, conds, h in rets:
            for a in S.alts(v):
                if not (a[:1] == ("tuple",) and len(a[1]) == 2 and a[1][1][:1] == ("tuple",)):
                    ok_ctor = ok_tuple = False
                    facts = f"returns {S.show(a)}"
                    continue
                ctor, args = a[1][0], list(a[1][1][1])
                if ctor not in CTORS:
                    ok_ctor = False
                    facts = f"constructor {S.show(ctor)}"
                fields = [x[2] if S.is_attr(x, S.SELF) else S.show(x) for x in args]
                if args != want:
                    ok_tuple = False
                    facts = f"reduce ({', '.join(S.show(x) for x in args)}) vs constructor fields ({', '.join(S.show(x) if x else '?' for x in want)})"
        col.add("C12.R2", f"{q}#resolves", ok_ctor, sx.loc(sx.fn), "pickling reconstructs the same class", facts)
        col.add(rule, f"{q}#tuple-matches-constructor", ok_tuple, sx.loc(sx.fn),
                "the reduce tuple lists, in constructor order and untransformed, the fields derived from the constructor parameters, "
                "on every path", facts)
        undeclared = [f for f in fields if f not in rm.declared(c.name)]
        col.add(rule, f"{q}#fields-declared", not undeclared, sx.loc(sx.fn),
                "every element of the reduce tuple is a declared field of the class (an undeclared name silently becomes an AttrRef "
                "through BaseRef.__getattr__)", str(undeclared))
        col.add(rule, f"{q}#hash-not-pickled", "_hash" not in fields, sx.loc(sx.fn), "the hash is recomputed, not pickled", "")
        allret = sx.cfg.must_pass(sx.cfg.ENTRY, sx.cfg.EXIT, [ev.nid for ev, _, _, _ in rets])
        col.add(rule, f"{q}#every-path-returns", allret, sx.loc(sx.fn), "__reduce__ returns the pair on every path", "")


def _manager(col, rule="C12.R3"):
    repo = col.repo
    mg = repo.cls("Manager")
    sx = sctx(repo, "Manager", "__init__")
    for ev in sx.of_kind("store"):
        for t in S.alts(ev.target):
            if not S.is_attr(t, S.SELF):
                continue
            v = ev.value
            ok = False
            for a in S.instances(v):
                if a[:1] in (("const",), ("dict",), ("list",), ("set",), ("tuple",)) or (a[:1] == ("acc",) and not a[2]):
                    ok = True
                elif S.is_call_of(a, ("glob", "defaultdict")) and len(a[2]) == 1:
                    f = a[2][0]
                    ok = f[:1] == ("glob",) and (f[1] in mg.module.imports or f[1] in mg.module.classes or f[1] in ("dict", "list", "set", "int"))
                elif S.is_call_of(a) and a[1] in (("glob", "dict"), ("glob", "list"), ("glob", "set")):
                    ok = True
                else:
                    ok = False
                    break
            col.add(rule, f"Manager.__init__#{t[2]}-picklable", ok, sx.loc(ev),
                    "a Manager attribute is a plain container (default_factory a module-level name, no lambda/closure): pickled through __dict__",
                    S.show(v))
    hooks = [m for m in ("__getstate__", "__setstate__", "__reduce__", "__reduce_ex__", "__getnewargs__", "__copy__", "__deepcopy__") if m in mg.methods]
    hard = [h for h in hooks if h not in ("__getstate__", "__setstate__")]
    if hard:
        raise AnalysisError(f"Manager defines {hard}: custom reconstruction, cannot decide statically")
    bad = []
    if "__setstate__" in mg.methods:
        s2 = sctx(repo, "Manager", "__setstate__", public=True, keep={"register", "unregister", "refresh", "clone", "cleanup"})
        sp = s2.P(0)
        fx, unk = index_effects(s2)
        if fx or unk:
            bad.append(f"__setstate__ rebuilds/mutates definitions or indices: {[e.short() for e in fx]}")
        if s2.calls_some(("call", ("attr", S.SELF, S.V("m", lambda t: t in ("register", "refresh", "clone", "cleanup", "unregister"))), S.ANY, S.ANY)):
            bad.append("__setstate__ re-registers tasks")
        restores = bool(s2.calls_some(S.mcall(("attr", S.SELF, "__dict__"), "update", sp))) or \
            any(e.target == ("attr", S.SELF, "__dict__") and e.value == sp for e in s2.of_kind("store"))
        if not restores:
            bad.append("__setstate__ does not restore the pickled __dict__ as it was")
        extra = [S.show(t) for e in s2.of_kind("store") for t in S.alts(e.target) if S.is_attr(t, S.SELF) and t[2] != "__dict__"]
        if extra:
            bad.append(f"__setstate__ gives the restored manager state the pickled one did not have: {extra}")
    if "__getstate__" in mg.methods:
        s2 = sctx(repo, "Manager", "__getstate__", public=True)
        d = ("attr", S.SELF, "__dict__")
        for r in s2.of_kind("return"):
            if r.value not in (d, S.mcall(d, "copy"), S.fcall("dict", d)):
                bad.append(f"__getstate__ returns {S.show(r.value)[:80]}")
        # taking the state must not change the manager being pickled
        for e in s2.of_kind("store") + s2.of_kind("del"):
            for t in S.alts(e.target):
                if S.is_attr(t, S.SELF) or (t[:1] == ("sub",) and t[1] == d):
                    bad.append(f"__getstate__ writes {S.show(t)} of the manager being pickled")
        for ev, m in s2.calls_some(("call", ("attr", d, S.V("m", lambda t: t in ("update", "pop", "clear", "setdefault", "popitem", "__setitem__", "__delitem__"))), S.ANY, S.ANY)):
            bad.append(f"__getstate__ mutates the manager's own __dict__ ({S.show(ev.term)[:60]})")
    col.add(rule, "Manager#pickled-through-__dict__", not bad, mg.module.loc(mg.methods[hooks[0]]) if hooks else mg.module.loc(mg.node),
            "Manager's state is pickled and restored as its __dict__: the indices (reference-counted multisets whose multiplicities "
            "matter) come back exactly as they were, they are not rebuilt", "; ".join(bad))
    col.add(rule, "Manager#no-slots", "__slots__" not in mg.consts, mg.module.loc(mg.node), "Manager keeps its state in __dict__", "")
    shared = [n for n, v in mg.consts.items() if isinstance(v, (ast.Dict, ast.List, ast.Set, ast.ListComp, ast.DictComp, ast.SetComp))
              or (isinstance(v, ast.Call) and (A.call_name(v) or "").split(".")[-1] in ("dict", "list", "set", "defaultdict", "OrderedDict", "deque", "WeakValueDictionary"))]
    col.add(rule, "Manager#no-class-level-mutable-state", not shared, mg.module.loc(mg.node),
            "Manager has no mutable class attribute: such state is shared by all managers and is not pickled (a restored copy would "
            "not be independent)", str(shared))
    rc = repo.cls("RefCount")
    hooks = [m for m in ("__getstate__", "__setstate__", "__reduce__", "__reduce_ex__") if m in rc.methods]
    col.add(rule, "RefCount#pickled-as-dict", not hooks and rc.base_names == ["dict"], rc.module.loc(rc.node),
            "RefCount is a plain dict subclass without pickling hooks (counts survive)", str(hooks))


def _default_containers(col, rule="C12.R4"):
    """The containers the manager creates by default (ref()/refattr()/newenv() without a container) are part of the
    pickled state.  A class whose __init__ establishes state that default pickling does not carry -- `self.__dict__ = self`
    (pickle restores a dict subclass's items and its __dict__ separately and never calls __init__) -- must define its own
    reduction that goes through the constructor, or a __setstate__ that re-establishes it."""
    repo = col.repo
    mgr = repo.cls("Manager")
    defaults = set()
    for name, fn in mgr.methods.items():
        params = set(A.params(fn))
        for n in A.walk(fn):
            if isinstance(n, ast.Assign) and isinstance(n.value, ast.Call) and not n.value.args and not n.value.keywords:
                cn = A.dotted(n.value.func)
                if cn and cn.split(".")[-1] in repo.classes and any(isinstance(t, ast.Name) and t.id in params for t in n.targets):
                    defaults.add(cn.split(".")[-1])
            # `owner = K() if container is None else container`, `container or K()`: the same default, spelled as an expression
            if isinstance(n, (ast.IfExp, ast.BoolOp)):
                tested = {x.id for x in A.walk(n.test if isinstance(n, ast.IfExp) else n.values[0]) if isinstance(x, ast.Name)}
                arms = [n.body, n.orelse] if isinstance(n, ast.IfExp) else n.values[1:]
                for arm in arms:
                    if isinstance(arm, ast.Call) and not arm.args and not arm.keywords and tested & params:
                        cn = A.dotted(arm.func)
                        if cn and cn.split(".")[-1] in repo.classes:
                            defaults.add(cn.split(".")[-1])
    if not defaults:
        raise AnalysisError("Manager: no default container class found (ref/refattr/newenv) -- cannot decide")
    for cn in sorted(defaults):
        c = repo.classes[cn]
        init = repo.lookup(c, "__init__")
        rebinds = []
        if init is not None:
            for n in A.walk(init[1]):
                if isinstance(n, ast.Assign):
                    for t in n.targets:
                        if isinstance(t, ast.Attribute) and isinstance(t.value, ast.Name) and t.value.id == "self" and t.attr == "__dict__":
                            rebinds.append(n)
        if not rebinds:
            col.ok(rule, f"{cn}#constructor-state-survives-pickling", c.module.loc(c.node),
                   "the default container has no constructor-established state that default pickling would lose", "")
            continue
        how = ""
        ok = False
        for meth in ("__reduce__", "__reduce_ex__"):
            r = repo.lookup(c, meth)
            if r is not None and r[0].module.name.startswith("xdeps"):
                sx = sctx(repo, r[0].name, meth)
                ok = all(r_.value[:1] == ("tuple",) and r_.value[1] and r_.value[1][0] in CTORS + (("glob", cn),)
                         and (len(r_.value[1]) < 3 or r_.value[1][2] == ("const", "None")) for r_ in sx.of_kind("return")) and bool(sx.of_kind("return"))
                how = f"{meth} rebuilds through the constructor" if ok else f"{meth} does not rebuild through the constructor with no separate state"
                # the contents travel in the items slot, filled after the new object is memoised; contents handed to the
                # constructor are pickled *before* it, so a container reachable from itself recurses without end
                if ok:
                    for r_ in sx.of_kind("return"):
                        args = r_.value[1][1] if len(r_.value[1]) > 1 else ("tuple", ())
                        if any(x == S.SELF for x in S.subterms(args)):
                            ok = False
                            how = f"{meth} passes the container's own contents as constructor arguments ({S.show(args)[:60]}): pickled before " \
                                  "the instance is memoised, so a container that (indirectly) contains itself cannot be pickled"
        if not ok:
            r = repo.lookup(c, "__setstate__")
            if r is not None:
                sx = sctx(repo, r[0].name, "__setstate__")
                st = [e for e in sx.of_kind("store") if e.target == ("attr", S.SELF, "__dict__") and e.value == S.SELF]
                ok = bool(st) and sx.cfg.must_pass(sx.cfg.ENTRY, sx.cfg.EXIT, [e.nid for e in st])
                how = "__setstate__ re-establishes it" if ok else "__setstate__ does not re-establish it on every path"
        col.add(rule, f"{cn}#constructor-state-survives-pickling", ok, c.module.loc(rebinds[0]),
                f"{cn} (the manager's default container) sets `self.__dict__ = self` in __init__; unpickling a dict subclass restores "
                "items and __dict__ separately without calling __init__, so it defines a reduction through its constructor (or a "
                "__setstate__ restoring the aliasing) -- otherwise attribute and item access diverge in the restored manager",
                how or "no __reduce__/__setstate__: default pickling")


def _recursing_getattr(repo, c) -> bool:
    """`__getattr__` that reads an instance attribute of its own (`self._data`): on a half-built instance -- which is what pickle and copy
    hand to `getattr(obj, '__setstate__')` -- the attribute is missing, `__getattr__` is entered again for it, without end; unless the
    class routes its own reconstruction (`__setstate__`, `__reduce__`) or refuses dunder / underscore names first"""
    g = repo.lookup(c, "__getattr__")
    if g is None or not g[0].module.name.startswith("xdeps"):
        return False
    for h in ("__setstate__", "__reduce__", "__reduce_ex__"):
        r = repo.lookup(c, h)
        if r is not None and r[0].module.name.startswith("xdeps"):
            return False
    fn = g[1]
    reads = [n for n in A.walk(fn) if isinstance(n, ast.Attribute) and isinstance(n.value, ast.Name) and n.value.id == "self"
             and isinstance(n.ctx, ast.Load) and not (n.attr.startswith("__") and n.attr.endswith("__"))]
    if not reads:
        return False
    # a refusal (raise AttributeError) before the first own read is taken as guarding it
    first = min(r.lineno for r in reads)
    guarded = any(isinstance(n, ast.Raise) and n.lineno < first for n in A.walk(fn))
    # class-level defaults / slots initialised by __new__ are not modelled: only __slots__-less and slotted classes whose attribute is set in __init__
    return not guarded


def _stored_objects(col, rule="C12.R5"):
    """what Manager methods put into the manager's own attributes is pickled with it"""
    repo = col.repo
    mg = repo.cls("Manager")
    hazard = {n for n, c in repo.classes.items() if c.module.name.startswith("xdeps") and _recursing_getattr(repo, c)}
    col.info["classes_with_recursing_getattr"] = sorted(hazard)
    if "DepEnv" not in hazard:
        raise AnalysisError("positive control: DepEnv (a __getattr__ that delegates to self._data, no reconstruction hooks) is not recognised "
                            "as unpicklable -- cannot decide")
    seen = set()
    n = 0
    for name, fn in mg.methods.items():
        if id(fn) in seen or name in mg.properties:
            continue
        seen.add(id(fn))
        sx = sctx(repo, "Manager", name, public=True, keep=set(mg.methods))
        bad = []
        for ev in sx.events:
            if ev.kind == "store":
                held = [t for t in S.alts(ev.target) if any(x[:1] == ("attr",) and x[1] == S.SELF for x in S.subterms(t))]
                vals = [ev.value] if held and ev.value is not None else []
            elif ev.kind == "call" and ev.term[:1] == ("call",) and ev.term[1][:1] == ("attr",) and \
                    ev.term[1][2] in ("append", "add", "update", "setdefault", "extend", "insert", "__setitem__") and \
                    any(x[:1] == ("attr",) and x[1] == S.SELF for x in S.subterms(ev.term[1][1])):
                vals = list(ev.term[2]) + [v for _k, v in ev.term[3]]
            else:
                vals = []
            for v in vals:
                for x in S.subterms(v):
                    if x[:1] == ("call",) and x[1][:1] == ("glob",) and x[1][1] in hazard:
                        bad.append((sx.loc(ev), x[1][1]))
        n += 1
        col.add(rule, f"Manager.{name}#keeps-no-unpicklable-object", not bad, bad[0][0] if bad else sx.loc(sx.fn),
                "no object of a class whose __getattr__ recurses on a half-built instance is kept in the manager's attributes "
                "(the manager would pickle but not load)", str(bad[:2]))
    col.count("manager_methods_scanned", n)


STORING_HOOKS = ("__setitem__", "__setattr__", "update", "setdefault", "__ior__")
PICKLE_HOOKS = ("__getstate__", "__setstate__", "__reduce__", "__reduce_ex__", "__getnewargs__", "__getnewargs_ex__", "__copy__", "__deepcopy__")


def _containers_store_verbatim(col, rule="C12.R4"):
    """a default container is rebuilt item by item (`__reduce__`'s items slot, dict's own protocol): a storing hook that rewrites what it is
    given (wraps dicts, copies, converts) makes the restored contents differ from the pickled ones -- aliasing is lost"""
    repo = col.repo
    mgr = repo.cls("Manager")
    defaults = set()
    for name, fn in mgr.methods.items():
        params = set(A.params(fn))
        for n in A.walk(fn):
            if isinstance(n, ast.Assign) and isinstance(n.value, ast.Call) and not n.value.args and not n.value.keywords:
                cn = A.dotted(n.value.func)
                if cn and cn.split(".")[-1] in repo.classes and any(isinstance(t, ast.Name) and t.id in params for t in n.targets):
                    defaults.add(cn.split(".")[-1])
    for cn in sorted(defaults):
        c = repo.classes[cn]
        hooks = [h for h in STORING_HOOKS if h in c.methods]
        col.add(rule, f"{cn}#stores-what-it-is-given", not hooks, c.module.loc(c.methods[hooks[0]]) if hooks else c.module.loc(c.node),
                "the default container has no storing hook of its own: items go in as they are, at construction, assignment and unpickling alike",
                str(hooks))


def _tasks_pickle_whole(col, rule="C12.R3"):
    """tasks are pickled through their __dict__: a task class with pickling hooks of its own that leave part of the state out (and
    recompute it on load) restores a manager that reacts differently"""
    repo = col.repo

    def is_task(cn, depth=4):
        c = repo.classes.get(cn)
        return c is not None and (cn == "Task" or (depth > 0 and any(is_task(b, depth - 1) for b in c.base_names)))
    n = 0
    for cn, c in sorted(repo.classes.items()):
        if not c.module.name.startswith("xdeps") or not is_task(cn):
            continue
        n += 1
        hooks = [h for h in PICKLE_HOOKS if h in c.methods]
        bad = []
        for h in hooks:
            fn = c.methods[h]
            if h == "__getstate__":
                rets = [r for r in A.walk(fn) if isinstance(r, ast.Return)]
                whole = rets and all(A.src(r.value) in ("self.__dict__", "self.__dict__.copy()", "dict(self.__dict__)") for r in rets)
                drops = [x for x in A.walk(fn) if (isinstance(x, ast.Call) and isinstance(x.func, ast.Attribute) and x.func.attr in ("pop", "popitem", "clear"))
                         or isinstance(x, ast.Delete)]
                if not whole or drops:
                    bad.append(f"{h} leaves part of the state out")
            elif h == "__setstate__":
                calls = [x for x in A.walk(fn) if isinstance(x, ast.Call) and isinstance(x.func, ast.Attribute) and isinstance(x.func.value, ast.Name)
                         and x.func.value.id == "self"]
                if calls:
                    bad.append(f"{h} recomputes state ({A.src(calls[0])[:40]})")
            else:
                bad.append(f"{h} defined")
        col.add(rule, f"{cn}#pickled-whole", not bad, c.module.loc(c.methods[hooks[0]]) if hooks else c.module.loc(c.node),
                "a task's state travels whole (no pickling hook drops or recomputes part of it)", "; ".join(bad))
    col.count("task_classes", n)


def _no_local_callables_in_state(col, rule="C12.R3"):
    """what a task or the manager keeps in its __dict__ is pickled with it: a function defined inside a method (or a lambda) stored in an
    attribute cannot be pickled, whenever in the object's life it is stored"""
    repo = col.repo

    def is_task(cn, depth=4):
        c = repo.classes.get(cn)
        return c is not None and (cn == "Task" or (depth > 0 and any(is_task(b, depth - 1) for b in c.base_names)))

    def local_callable(c, fn, v, depth=2):
        """v evaluates to a function defined in a method body (not importable by name)"""
        nested = {x.name for x in ast.walk(fn) if isinstance(x, (ast.FunctionDef, ast.AsyncFunctionDef)) and x is not fn}
        if isinstance(v, ast.Lambda):
            return "a lambda"
        if isinstance(v, ast.Name) and v.id in nested:
            return f"the local function `{v.id}`"
        if isinstance(v, ast.IfExp):
            return local_callable(c, fn, v.body, depth) or local_callable(c, fn, v.orelse, depth)
        if depth and isinstance(v, ast.Call) and isinstance(v.func, ast.Attribute) and isinstance(v.func.value, ast.Name) and v.func.value.id == "self":
            r = repo.lookup(c, v.func.attr)
            if r is not None:
                k2, f2 = r
                for ret in [x for x in ast.walk(f2) if isinstance(x, ast.Return) and x.value is not None]:
                    w = local_callable(k2, f2, ret.value, depth - 1)
                    if w:
                        return f"{w} returned by {k2.name}.{f2.name}"
        return None
    n = 0
    for cn, c in sorted(repo.classes.items()):
        if not c.module.name.startswith("xdeps") or not (is_task(cn) or cn == "Manager"):
            continue
        if any(h in c.methods for h in ("__getstate__", "__reduce__", "__reduce_ex__")):
            continue     # what travels is decided by the hook (judged by the rules on hooks)
        for mname, fn in c.methods.items():
            for x in ast.walk(fn):
                if isinstance(x, ast.Assign):
                    for t in x.targets:
                        if isinstance(t, ast.Attribute) and isinstance(t.value, ast.Name) and t.value.id == "self":
                            n += 1
                            w = local_callable(c, fn, x.value)
                            if w:
                                col.add(rule, f"{cn}.{mname}#no-local-callable-in-state:{t.attr}", False, c.module.loc(x),
                                        "instance state holds nothing pickle cannot reach by name", f"self.{t.attr} = {w}", positive=True)
    if n < 10:
        raise AnalysisError("tasks / manager: attribute stores not found -- anchor lost, cannot decide")
    col.ok(rule, "tasks-and-manager#no-local-callable-in-state", "xdeps/tasks.py", "instance state holds nothing pickle cannot reach by name",
           f"{n} attribute stores in the task classes and Manager inspected")


def check(col: Collector):
    with col.rule():
        _no_local_callables_in_state(col)
    with col.rule():
        _containers_store_verbatim(col)
    with col.rule():
        _tasks_pickle_whole(col)
    from . import c04
    from .common import shared
    with col.rule():
        shared(col, "C12.R6", [c04._calls], select=lambda o: "__cinit__#" in o.construct,
               why="a restored call reference is rebuilt by __cinit__ from the pickled fields: it must store them as given")
    with col.rule():
        _stored_objects(col)
    with col.rule():
        _reduce_vs_cinit(col)
    with col.rule():
        _manager(col)
    with col.rule():
        _default_containers(col)
