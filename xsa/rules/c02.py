"""C02 -- one assignment runs exactly the downstream tasks, once each, in dependency order."""
from __future__ import annotations

import ast

from .. import astutil as A
from ..core import AnalysisError, Collector
from ..effects import Summarizer, loops_closed
from .common import DEF_ATTRS, fnctx, has_guard, is_method_call, is_self_call, test_is_none
from .toposort_rules import check_toposort
from . import c01

PROP = "C02"
FLOORS = {"C02.R1": 4, "C02.R2": 10, "C02.R3": 4, "C02.R4": 6}
META = {
    "explanation": "run_tasks executes its argument once each in the given order; toposort/_dfs is a reverse-post-order DFS with "
                   "a grow-only visited set (termination and at-most-once on cycles); no call on the assignment path falls back to "
                   "'all tasks'; register records both directions of every ordering edge (effect summary equals the reference "
                   "derived from the Manager docstring).",
    "decides": "the scheduling skeleton: loop shape of run_tasks, DFS template, None-default discipline, completeness of ordering edges",
    "not_decided": "counts of actual executions on concrete graphs; the strict reading of 'no task outside the set' given the "
                   "enclosing-container edges of known finding C01.R6",
    "assumptions": ["task.run() bodies are those checked under C01.R5 or user code that does not touch manager indices"],
}

REFERENCE = {
    ("tasks", "TASKID", "TASK", "set"): "tasks[taskid] := task",
    ("rdeps", "∈deps", "∈targets", "+"): "rdeps[dep] gains every target, for every dependency",
    ("deptasks", "∈deps", "TASKID", "+"): "deptasks[dep] gains the task, for every dependency",
    ("rtasks", "∈tartasks[∈deps]", "TASKID", "+"): "every task writing one of the new task's dependencies is ordered before it",
    ("tartasks", "∈targets", "TASKID", "+"): "tartasks[target] gains the task, for every target",
    ("rtasks", "TASKID", "∈deptasks[∈targets]", "+"): "the new task is ordered before every task reading one of its targets",
}


def register_summary(col):
    cx = fnctx(col.repo, "Manager", "register")
    P = A.params(cx.fn)
    if len(P) != 2:
        raise AnalysisError("Manager.register: expected (self, task)")
    return cx, Summarizer(cx.fn, set(DEF_ATTRS), P[1], None)


def _run_tasks(col, rule="C02.R1"):
    cx = fnctx(col.repo, "Manager", "run_tasks")
    q = "Manager.run_tasks"
    P = A.params(cx.fn)
    tp = P[1]
    cfg = cx.cfg
    runs = cx.call_nodes(lambda c: is_method_call(c, "run"))
    fors = [n for n in cfg.nodes.values() if n.kind == "for"]
    ok = len(fors) == 1 and len(runs) == 1
    facts = f"{len(fors)} loops, {len(runs)} .run() call sites"
    if ok:
        f = fors[0]
        lv = A.target_names(f.ast.target)
        c = cx.calls_at(runs[0], lambda c: is_method_call(c, "run"))[0]
        ok = A.dotted(f.ast.iter) == tp and [A.dotted(c.func.value)] == lv and not c.args
        facts = f"for {A.src(f.ast.target)} in {A.src(f.ast.iter)}: ... {A.src(c)}"
        # run on every iteration: from loop T-branch every path back to the header passes the run node
        tb = [n.id for n in cfg.nodes.values() if n.kind == "T" and n.of == f.id][0]
        every = cfg.must_pass(tb, f.id, runs)
        col.add(rule, f"{q}#run-each-once-in-order", ok and every, cx.loc(f.id),
                "run_tasks is one loop over its argument, in the given order, calling task.run() exactly once per element",
                facts + f"; run on every iteration: {every}")
    else:
        col.fail(rule, f"{q}#run-each-once-in-order", cx.loc(cx.fn),
                 "run_tasks is one loop over its argument calling task.run() exactly once per element", facts)
    bad = [n for n in A.walk(cx.fn) if isinstance(n, (ast.Break, ast.Continue, ast.Try, ast.While))]
    rets = [n for n in A.walk(cx.fn) if isinstance(n, ast.Return)]
    col.add(rule, f"{q}#no-skip-no-handler", not bad and not rets, cx.loc(bad[0] if bad else (rets[0] if rets else cx.fn)),
            "the loop has no break/continue/early return/handler: no scheduled task is skipped and a failure stops the run",
            f"{[type(b).__name__ for b in bad + rets]}")
    # nothing reorders / filters the argument
    reb = [d for nid in cfg.nodes for d in cx.rd.defs.get(nid, []) if d.name == tp and d.kind not in ("param",)]
    okd = all(d.kind == "assign" and has_guard(cfg, d.nid, "T", lambda t: test_is_none(t, tp)) for d in reb)
    col.add(rule, f"{q}#argument-used-as-given", okd, cx.loc(reb[0].nid) if reb else cx.loc(cx.fn),
            "the task list is used as given (replaced by all tasks only when it is None)", str(reb))
    c01._none_default(col, "C02.R3", cx, tp, q)
    # no writes to manager state while running
    from .common import self_attr_stores
    st = self_attr_stores(cx.fn)
    col.add(rule, f"{q}#no-manager-state-written", not st, cx.loc(st[0][1]) if st else cx.loc(cx.fn),
            "run_tasks does not modify the manager (definitions, indices, flags) while tasks run", f"{[a for a, _ in st]}")


def _no_over_trigger(col, rule="C02.R3"):
    repo = col.repo
    for name in ("find_taskids", "find_tasks"):  # callees they delegate to are followed by c01._check_find_taskids
        if not repo.has_method("Manager", name):
            raise AnalysisError(f"Manager.{name} vanished")
        cx = fnctx(repo, "Manager", name)
        P = A.params(cx.fn)
        if len(P) >= 2:
            before = len(col.obs)
            c01._none_default(col, rule, cx, P[1], f"Manager.{name}")
            if len(col.obs) == before:
                col.ok(rule, f"Manager.{name}#default-only-when-None", cx.loc(cx.fn),
                       "no default substitution of the start parameter", "")
    # call sites on the assignment path never omit the argument
    sv = fnctx(repo, "Manager", "set_value")
    for nid in sv.call_nodes(lambda c: is_self_call(c) and c.func.attr in ("find_tasks", "find_taskids", "run_tasks")):
        for c in sv.calls_at(nid, lambda c: is_self_call(c) and c.func.attr in ("find_tasks", "find_taskids", "run_tasks")):
            has = len(c.args) + len(c.keywords) >= 1 and not (c.args and A.is_none(c.args[0]))
            col.add(rule, f"Manager.set_value#{c.func.attr}-has-argument", has, sv.loc(nid),
                    f"on the assignment path {c.func.attr} is never called without a start argument (None means: all tasks)",
                    A.src(c))


def _edges(col, rule="C02.R4"):
    cx, s = register_summary(col)
    q = "Manager.register"
    got = {}
    for e in s.effects:
        got.setdefault((e.index, e.key, e.val, e.op), []).append(e)
    for key, text in REFERENCE.items():
        es = got.get(key, [])
        ok = len(es) == 1 and not es[0].guard and loops_closed(es[0])
        facts = "; ".join(f"{e.short()} loops={e.loops} guard={e.guard or '-'}" for e in es) or \
            f"not found among: {[e.short() for e in s.effects]}"
        col.add(rule, f"{q}#{key[0]}[{key[1]}]{'+=' if key[3] == '+' else ':='}{key[2]}", ok,
                f"{cx.module.rel}:{es[0].line if es else cx.fn.lineno}", f"register records: {text} (unconditionally, once per origin)", facts)
    extra = [e for e in s.effects if (e.index, e.key, e.val, e.op) not in REFERENCE]
    col.add(rule, f"{q}#no-other-index-effects", not extra and not s.unknown, cx.loc(cx.fn),
            "register has no index effect beyond the six that define the indices",
            f"extra: {[e.short() for e in extra]} unrecognised: {s.unknown}")


def check(col: Collector):
    _run_tasks(col)
    check_toposort(col, "C02.R2")
    _no_over_trigger(col)
    _edges(col)
    # the trigger closure (shared with C01.R2) decides which tasks are offered to the DFS at all
    c01._trigger_closure(col, "C02.R3")
