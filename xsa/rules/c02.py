"""C02 -- one assignment runs exactly the downstream tasks, once each, in dependency order."""
from __future__ import annotations

import ast

from .. import astutil as A
from .. import sym as S
from ..core import AnalysisError, Collector
from .common import SCtx, sctx
from .toposort_rules import check_toposort
from . import c01
from .indexfx import (DEPS, TASK, TASKID, TGTS, index_effects, register_effects, unregister_effects)

PROP = "C02"
FLOORS = {"C02.R1": 4, "C02.R2": 8, "C02.R3": 4, "C02.R4": 6, "C02.R5": 3, "C02.R6": 30, "C02.R7": 5, "C02.R8": 2, "C02.R9": 5}
META = {
    "explanation": "run_tasks executes its argument once each in the given order; toposort/_dfs is a reverse-post-order DFS with "
                   "a grow-only visited set (termination and at-most-once on cycles); no call on the assignment path falls back to "
                   "'all tasks'; register records both directions of every ordering edge (symbolic effect summary equals the "
                   "reference derived from the Manager docstring) and unregister removes the scheduling edges with the same "
                   "multiplicity. All comparisons are on symbolic terms after helper inlining.",
    "decides": "the scheduling skeleton: loop shape of run_tasks, DFS template, None-default discipline, completeness and "
               "exact removal of ordering edges",
    "not_decided": "counts of actual executions on concrete graphs; the strict reading of 'no task outside the set' given the "
                   "enclosing-container edges of known finding C01.R6",
    "assumptions": ["task.run() bodies are those checked under C01.R5 or user code that does not touch manager indices"],
}


def reference_effects():
    tar = S.sattr("tartasks")
    dep = S.sattr("deptasks")
    eD, eT = ("elem", DEPS), ("elem", TGTS)
    return {
        ("tasks", TASKID, TASK, "set", frozenset()): "tasks[taskid] := task",
        ("rdeps", eD, eT, "+", frozenset({DEPS, TGTS})): "rdeps[dep] gains every target, for every dependency",
        ("deptasks", eD, TASKID, "+", frozenset({DEPS})): "deptasks[dep] gains the task, for every dependency",
        ("rtasks", ("elem", ("sub", tar, eD)), TASKID, "+", frozenset({DEPS, ("sub", tar, eD)})):
            "every task writing one of the new task's dependencies is ordered before it",
        ("tartasks", eT, TASKID, "+", frozenset({TGTS})): "tartasks[target] gains the task, for every target",
        ("rtasks", TASKID, ("elem", ("sub", dep, eT)), "+", frozenset({TGTS, ("sub", dep, eT)})):
            "the new task is ordered before every task reading one of its targets",
    }


def default_only_when_none(col, rule, sx: SCtx, q: str, p):
    """a rebinding of parameter term p happens only under `p is None`"""
    for nid in list(sx.cfg.nodes):
        for d in sx.cx.rd.defs.get(nid, []):
            if d.name == p[2] and d.kind == "assign":
                if sx.sym.of(d.value, nid) == p:
                    continue    # `x = x` (the other arm of a lowered conditional expression)
                isnone = ("cmp", "is", p, ("const", "None"))
                ok_ = sx.under(nid, isnone)
                if not ok_:
                    # `p = _if_none(p, default)`: judged by where the assigned value came from -- every value that is not p itself
                    # was chosen under `p is None`
                    try:
                        gv = sx.guarded_values(d.value, nid)
                    except Exception:
                        gv = []
                    ok_ = bool(gv) and all(v == p or isnone in cs for v, cs in gv if v != ("const", "None") or isnone in cs) \
                        and any(v == p for v, cs in gv)
                col.add(rule, f"{q}#default-only-when-None", ok_, sx.loc(nid),
                        f"`{p[2]}` is replaced by its 'everything' default only when it is None (an empty collection means: nothing)",
                        f"conditions: {[S.show(c) for c in sx.conds(nid)]}")


def _run_tasks(col, rule="C02.R1"):
    sx = sctx(col.repo, "Manager", "run_tasks", public=True, keep=c01.ANCHORS)
    q = "Manager.run_tasks"
    cfg = sx.cfg
    tp = sx.P(0)
    runs = sx.calls_some(S.mcall(S.V("t"), "run"))
    if not runs:
        raise AnalysisError(f"{q}: no .run() call -- cannot decide")
    allowed = (tp, S.mcall(S.sattr("tasks"), "values"))
    for ev, m in runs:
        t = m["t"]
        its = [a[1] for a in S.alts(t) if a[:1] == ("elem",)]
        src_ok = len(its) == len(S.alts(t)) and all(all(x in allowed for x in S.alts(i)) for i in its)
        loops = sx.sym.loops(ev.nid)
        one_loop = len(loops) == 1 and bool(its) and loops[0] == its[0]
        hdr = [g for g in cfg.guards(ev.nid) if g.kind == "T" and isinstance(g.ast, (ast.For, ast.AsyncFor))]
        every = complete = False
        if one_loop and hdr:
            tb, h = hdr[0].id, hdr[0].of
            fb = [n.id for n in cfg.nodes.values() if n.kind == "F" and n.of == h]
            every = cfg.must_pass(tb, h, [ev.nid])                      # each element is run
            complete = cfg.must_pass(tb, cfg.EXIT, fb)                  # the loop is left only when exhausted
        col.add(rule, f"{q}#run-each-once-in-order", src_ok and one_loop and every, sx.loc(ev),
                "run_tasks is one loop over its argument, in the given order, calling task.run() once per element",
                f"runs {S.show(t)}; loops {[S.show(l) for l in loops]}; on every iteration: {every}")
        col.add(rule, f"{q}#no-skip", complete, sx.loc(ev),
                "the loop is left only when the list is exhausted (no break / early return): no scheduled task is skipped", "")
    tries = [n for n in A.walk(sx.fn) if isinstance(n, ast.Try)]
    col.add(rule, f"{q}#no-handler", not tries, sx.loc(sx.fn), "a failing task stops the run and reaches the caller (no handler)", "")
    default_only_when_none(col, "C02.R3", sx, q, tp)
    fx, unk = index_effects(sx)
    st = [e for e in sx.of_kind("store") if any(S.is_attr(t, S.SELF) for t in S.alts(e.target))]
    col.add(rule, f"{q}#no-manager-state-written", not fx and not st and not unk, sx.loc(st[0]) if st else sx.loc(sx.fn),
            "run_tasks does not modify the manager (definitions, indices, flags) while tasks run",
            f"{[e.short() for e in fx]} {[S.show(e.target) for e in st]}")


def _no_over_trigger(col, rule="C02.R3"):
    repo = col.repo
    for name in ("find_taskids", "find_tasks"):
        sx = sctx(repo, "Manager", name, public=True, keep=c01.ANCHORS)
        before = len(col.obs)
        default_only_when_none(col, rule, sx, f"Manager.{name}", sx.P(0))
        if len(col.obs) == before:
            col.ok(rule, f"Manager.{name}#default-only-when-None", sx.loc(sx.fn), "no default substitution of the start parameter", "")
    sv = c01.set_value_ctx(col)
    for meth in ("find_tasks", "find_taskids", "run_tasks"):
        for ev, m in sv.calls_some(("call", ("attr", S.SELF, meth), S.V("a"), S.V("k"))):
            args = list(m["a"]) + [v for _, v in m["k"]]
            has = bool(args) and not any(x == ("const", "None") for a in args[:1] for x in S.alts(a))
            col.add(rule, f"Manager.set_value#{meth}-has-argument", has, sv.loc(ev),
                    f"on the assignment path {meth} is never called without a start argument (None means: all tasks)", S.show(ev.term))


def _edges(col, rule="C02.R4"):
    sx, fx, unk = register_effects(col)
    q = "Manager.register"
    got = {}
    for e in fx:
        got.setdefault(e.sig(), []).append(e)
    for sig, text in reference_effects().items():
        es = got.get(sig, [])
        ok = len(es) == 1 and not es[0].conds
        facts = "; ".join(f"{e.short()} conds={[S.show(c, False) for c in e.conds]}" for e in es) or \
            f"not found among: {[e.short() for e in fx]}"
        key = f"{sig[0]}[{S.show(sig[1], False)}]{'+=' if sig[3] == '+' else ':='}{S.show(sig[2], False)}"
        col.add(rule, f"{q}#{key}", ok, sx.loc(es[0].nid) if es else sx.loc(sx.fn),
                f"register records: {text} (unconditionally, once per origin)", facts)
    extra = [e for e in fx if e.sig() not in reference_effects()]
    col.add(rule, f"{q}#no-other-index-effects", not extra and not unk, sx.loc(extra[0].nid) if extra else sx.loc(sx.fn),
            "register has no index effect beyond the six that define the indices",
            f"extra: {[e.short() for e in extra]} unrecognised: {unk}")


def inverse_effects(col, rule, only_indices=None, q="Manager.unregister"):
    """every addition of register has exactly one removal in unregister with the same key, value and multiplicity"""
    rsx, reg, runk = register_effects(col)
    usx, unr, uunk = unregister_effects(col)
    used = set()
    for a in reg:
        if only_indices and a.index not in only_indices:
            continue
        if a.op == "+":
            match = [r for r in unr if r.op == "-" and (r.index, r.key, r.val) == (a.index, a.key, a.val)]
            whole = [d for d in unr if d.op == "delkey" and d.index == a.index and d.key == a.key and a.key == TASKID]
        else:
            match = []
            whole = [d for d in unr if d.op == "delkey" and d.index == a.index and d.key == a.key]
        ok, facts, at = False, "", usx.loc(usx.fn)
        if match:
            r = match[0]
            used.update(id(x) for x in match)
            ok = len(match) == 1 and r.space == a.space and not r.conds
            facts = f"{r.short()} ranging over {sorted(S.show(x, False) for x in r.space)}" \
                    f"{' if ' + str([S.show(c, False) for c in r.conds]) if r.conds else ''} " \
                    f"(register ranges over {sorted(S.show(x, False) for x in a.space)})"
            if len(match) > 1:
                facts += f"; removed at {len(match)} sites"
            at = usx.loc(r.nid)
        elif whole:
            d = whole[0]
            used.add(id(d))
            ok = not d.conds and not d.space
            facts = f"covered by {d.short()}"
            at = usx.loc(d.nid)
        else:
            near = [r for r in unr if r.index == a.index]
            facts = f"no inverse; effects of unregister on {a.index}: {[e.short() for e in near]}"
        col.add(rule, f"{q}#undo:{a.short()}", ok, at,
                f"unregister undoes `{a.short()}` of register with the same key/value origins and multiplicity", facts)
    if not only_indices:
        stray = [e for e in unr if id(e) not in used]
        col.add(rule, f"{q}#no-removal-without-addition", not stray and not uunk, usx.loc(stray[0].nid) if stray else usx.loc(usx.fn),
                "unregister has no index effect that is not the inverse of an effect of register",
                f"stray: {[e.short() for e in stray]} unrecognised: {uunk}")
    return usx, reg, unr


def check(col: Collector):
    with col.rule():
        _run_tasks(col)
    with col.rule():
        check_toposort(col, "C02.R2")
    with col.rule():
        _no_over_trigger(col)
    with col.rule():
        _edges(col)
    # the trigger closure (shared with C01.R2) decides which tasks are offered to the DFS at all
    with col.rule():
        c01._trigger_closure(col, "C02.R3")
    # a stale scheduling edge makes tasks outside the dependent set run
    with col.rule():
        inverse_effects(col, "C02.R5", only_indices=("rtasks", "deptasks", "tartasks"))
    # the set of triggered tasks is read off the tasks' dependency sets: they must be the expression's full read set
    from . import c05
    from .common import shared
    with col.rule():
        shared(col, "C02.R6", [c05._structure, c05._readset, c05._accumulator],
               why="a task is triggered (and ordered after its producers) through its declared dependencies only: they must be the "
                   "expression's full read set, for every node class")
    # redefinition through load()/copy_expr_from leaves no stale trigger entry (tasks outside the dependent set would run) ...
    from . import c03
    from .common import construct_tag
    with col.rule():
        shared(col, "C02.R7", [c03.load_protocol], why="a task registered over a live one keeps the old trigger and ordering entries")
    # ... and an assignment always stores and then runs the dependent tasks (never skipped because the value 'is already there')
    with col.rule():
        shared(col, "C02.R7", [c01._set_value_protocol],
               select=lambda o: construct_tag(o) in ("write-on-every-path", "propagate-after-write", "trigger-set"),
               why="a skipped propagation runs none of the tasks that depend on the assigned location")
    # refresh()/clone()/copy() rebuild the scheduling indices: one left out of the reset keeps its old counts, registering again
    # doubles them, unregister removes one -- a stale ordering edge survives and runs tasks outside the dependent set
    with col.rule():
        shared(col, "C02.R9", [c03._index_lists, c03._rebuild],
               why="an index not reset before the tasks are registered again keeps doubled counts; the surplus edge survives a later "
                   "unregister and triggers tasks that no longer depend on the assigned location")
    # a task that assigns through the manager from inside run() starts a nested update: its dependents run once per write
    from . import c18
    with col.rule():
        shared(col, "C02.R8", [c18._no_state_change_while_running], select=lambda o: construct_tag(o) == "no-manager-access",
               why="an assignment through the manager made by a running task re-runs the dependents of that location inside the update")
