"""C01 -- expression-defined locations equal their definition: the update protocol."""
from __future__ import annotations

import ast

from .. import astutil as A
from ..core import AnalysisError, Collector
from .common import FnCtx, fnctx, has_guard, is_self_call, is_method_call, test_is_none
from .toposort_rules import check_toposort

PROP = "C01"
FLOORS = {"C01.R1": 9, "C01.R2": 5, "C01.R3": 10, "C01.R4": 2, "C01.R5": 8, "C01.R6": 1, "C01.R7": 4}
META = {
    "explanation": "Static discharge of the update protocol behind C01: the control-flow graph of Manager.set_value "
                   "(unregister -> register -> evaluate -> write -> propagate on every path), the trigger closure of "
                   "find_taskids/find_tasks, the reverse-post-order DFS template of sorting.toposort, absence of recursion "
                   "over the manager's graph, the bodies of the three task classes and the assignment entry points of MutableRef.",
    "decides": "necessary structural conditions of the protocol (ordering, must-pass-through, dataflow of the written value "
               "and of the trigger set); not the numeric values",
    "not_decided": "value equality on all numeric inputs; sufficiency of the protocol (see known finding C01.R6)",
    "assumptions": ["user containers and user actions are opaque and do not touch manager state",
                    "callee resolution: self.m() through the class, module functions by name"],
}


def _set_value_protocol(col: Collector, rule="C01.R1", only=None):
    repo = col.repo
    cx = fnctx(repo, "Manager", "set_value")
    cfg = cx.cfg
    P = A.params(cx.fn)
    if len(P) != 3:
        raise AnalysisError("Manager.set_value: expected (self, ref, value)")
    _, ref_p, val_p = P
    q = "Manager.set_value"

    def nodes(pred):
        return cx.call_nodes(pred)

    W = nodes(lambda c: is_method_call(c, "_set_value") and A.dotted(c.func.value) == ref_p)
    Pn = nodes(lambda c: is_self_call(c, "run_tasks"))
    U = nodes(lambda c: is_self_call(c, "unregister"))
    R = nodes(lambda c: is_self_call(c, "register"))
    out = {}
    if not W:
        col.fail(rule, f"{q}#write", cx.loc(cx.fn), "set_value writes the value through ref._set_value", "no such call")
        return
    if not Pn:
        col.fail(rule, f"{q}#propagate", cx.loc(cx.fn), "set_value runs the dependants (self.run_tasks)", "no such call")
        return
    # (a) every normal path writes
    col.add(rule, f"{q}#write-on-every-path", cfg.must_pass(cfg.ENTRY, cfg.EXIT, W), cx.loc(W[0]),
            "every normally returning path of set_value writes the value through ref._set_value (no early exit)",
            f"write nodes {[cx.loc(w) for w in W]}")
    # (b) propagate after write on every path
    ok_b = all(cfg.must_pass(w, cfg.EXIT, Pn) for w in W) and all(any(cfg.dominates(w, p) for w in W) for p in Pn)
    col.add(rule, f"{q}#propagate-after-write", ok_b, cx.loc(Pn[0]),
            "after the write every normally returning path runs the dependants; propagation never precedes the write",
            f"run_tasks nodes {[cx.loc(p) for p in Pn]}")
    # (c) trigger set = find_tasks(ref._get_dependencies())
    for p in Pn:
        c = cx.calls_at(p, lambda c: is_self_call(c, "run_tasks"))[0]
        arg = cx.resolve(c.args[0], p) if c.args else None
        ok = False
        facts = A.src(c)
        if isinstance(arg, ast.Call) and is_self_call(arg, "find_tasks") and len(arg.args) == 1 and not arg.keywords:
            d = cx.resolve(arg.args[0], p)
            ok = isinstance(d, ast.Call) and is_method_call(d, "_get_dependencies") and A.dotted(d.func.value) == ref_p and not d.args
        col.add(rule, f"{q}#trigger-set", ok, cx.loc(p),
                "the tasks run are find_tasks(ref._get_dependencies()): the assigned location and every enclosing container",
                facts)
    # (d) unregister iff ref in self.tasks
    def in_tasks(t):
        p = A.compare_parts(t)
        return bool(p and isinstance(p[1], ast.In) and A.dotted(p[0]) == ref_p and A.dotted(p[2]) == "self.tasks")
    tests = [n.id for n in cfg.nodes.values() if n.kind == "test" and in_tasks(n.ast)]
    okU = bool(U) and bool(tests)
    facts = ""
    if okU:
        for u in U:
            c = cx.calls_at(u, lambda c: is_self_call(c, "unregister"))[0]
            if not (len(c.args) == 1 and A.dotted(c.args[0]) == ref_p):
                okU = False
                facts = f"unregister called with {A.src(c)}"
            gs = [g for g in cfg.guards(u) if not isinstance(g.ast, ast.For)]
            if not (len(gs) == 1 and gs[0].kind == "T" and in_tasks(gs[0].ast)):
                okU = False
                facts = f"guards of unregister: {[g.kind + ':' + A.src(g.ast) for g in gs]}"
        # from the true branch of the test, every path to a write or a register passes unregister
        for t in tests:
            tb = [n.id for n in cfg.nodes.values() if n.kind == "T" and n.of == t]
            for w in W + R:
                if cfg.path_avoiding(tb[0], w, U):
                    okU = False
                    facts = "a path from `ref in self.tasks` (true) reaches the write/register without unregister"
            if not all(cfg.dominates(t, w) for w in W):
                okU = False
                facts = "the membership test does not dominate the write"
    else:
        facts = f"unregister calls: {len(U)}, `ref in self.tasks` tests: {len(tests)}"
    col.add("C03.R2" if only == "C03" else rule, f"{q}#unregister-existing-definition", okU, cx.loc(U[0]) if U else cx.loc(cx.fn),
            "an existing task identified by the assigned ref is unregistered first, exactly when `ref in self.tasks`", facts)
    # (e) index mutations precede the write
    late = [x for x in U + R if any(cfg.path_avoiding(w, x, []) for w in W)]
    col.add(rule, f"{q}#graph-changes-precede-write", not late, cx.loc(late[0]) if late else cx.loc(W[0]),
            "unregister/register (which may refuse) happen before the container is written",
            f"reachable after the write: {[cx.loc(x) for x in late]}")
    # (f) expression branch
    def is_ref_test(t):
        if isinstance(t, ast.Call) and A.call_name(t) == "isinstance" and len(t.args) == 2:
            return A.dotted(t.args[0]) == val_p and A.dotted(t.args[1]) in ("BaseRef", "refs.BaseRef")
        if isinstance(t, ast.Call) and A.call_name(t) in ("is_ref", "refs.is_ref") and len(t.args) == 1:
            return A.dotted(t.args[0]) == val_p
        return False
    rtests = [n.id for n in cfg.nodes.values() if n.kind == "test" and is_ref_test(n.ast)]
    okR = bool(R) and len(rtests) >= 1
    factsR = ""
    EV = []
    for n in cfg.nodes.values():
        if n.kind == "stmt" and isinstance(n.ast, ast.Assign) and isinstance(n.ast.value, ast.Call) \
                and is_method_call(n.ast.value, "_get_value") and A.dotted(n.ast.value.func.value) == val_p:
            EV.append(n.id)
    if okR:
        for r in R:
            c = cx.calls_at(r, lambda c: is_self_call(c, "register"))[0]
            t = cx.resolve(c.args[0], r) if c.args else None
            if not (isinstance(t, ast.Call) and A.call_name(t) == "ExprTask" and len(t.args) == 2
                    and A.dotted(t.args[0]) == ref_p and A.dotted(t.args[1]) == val_p):
                okR = False
                factsR = f"registered task is {A.src(t)}"
            else:
                ds = cx.defs(val_p, r)
                if not all(d.kind == "param" for d in ds):
                    okR = False
                    factsR = "the expression registered is not the value passed in"
            if not has_guard(cfg, r, "T", is_ref_test):
                okR = False
                factsR = "register is not under the `value is a ref` test"
        for t in rtests:
            tb = [n.id for n in cfg.nodes.values() if n.kind == "T" and n.of == t][0]
            for w in W:
                if cfg.path_avoiding(tb, w, R):
                    okR = False
                    factsR = "a path from `value is a ref` (true) reaches the write without registering the ExprTask"
                if cfg.path_avoiding(tb, w, EV):
                    okR = False
                    factsR = "a path from `value is a ref` (true) writes without evaluating the expression"
            if not all(cfg.dominates(t, w) for w in W):
                okR = False
                factsR = "the `value is a ref` test does not dominate the write"
    else:
        factsR = f"register calls: {len(R)}, isinstance(value, BaseRef) tests: {len(rtests)}"
    col.add(rule, f"{q}#expression-branch-registers-and-evaluates", okR, cx.loc(R[0]) if R else cx.loc(cx.fn),
            "when the value is an expression an ExprTask(ref, value) is registered and the value written is value._get_value()",
            factsR)
    # (g) what is written
    for w in W:
        c = cx.calls_at(w, lambda c: is_method_call(c, "_set_value") and A.dotted(c.func.value) == ref_p)[0]
        a = c.args[0] if len(c.args) == 1 else None
        ok = False
        facts = A.src(c)
        if isinstance(a, ast.Name):
            ds = cx.defs(a.id, w)
            ok = bool(ds) and all(
                (d.kind == "param" and d.name == val_p) or (d.kind == "assign" and d.nid in EV) for d in ds)
            facts = f"definitions reaching the written name `{a.id}`: {ds}"
        col.add(rule, f"{q}#written-value", ok, cx.loc(w),
                "the value written is the value passed in, or (expression case) its evaluation at assignment time", facts)
    # no handler in set_value
    tries = [n for n in A.walk(cx.fn) if isinstance(n, ast.Try)]
    col.add(rule, f"{q}#no-exception-handler", not tries, cx.loc(tries[0]) if tries else cx.loc(cx.fn),
            "set_value has no exception handler (a failure of a write or a task reaches the caller)", "")
    # ref param not rebound
    reb = [d for nid in cfg.nodes for d in cx.rd.defs.get(nid, []) if d.name in (ref_p,) and d.kind != "param"]
    col.add(rule, f"{q}#ref-not-rebound", not reb, cx.loc(reb[0].nid) if reb else cx.loc(cx.fn),
            "the assigned reference is not rebound inside set_value", str(reb))


def _trigger_closure(col: Collector, rule="C01.R2"):
    repo = col.repo
    ft = fnctx(repo, "Manager", "find_taskids")
    _check_find_taskids(col, rule, ft, depth=0)
    # find_tasks: order preserving map through self.tasks
    cx = fnctx(repo, "Manager", "find_tasks")
    q = "Manager.find_tasks"
    sp = A.params(cx.fn)[1] if len(A.params(cx.fn)) > 1 else None
    rets = [n for n in cx.cfg.nodes.values() if n.kind == "stmt" and isinstance(n.ast, ast.Return)]
    if not rets or sp is None:
        raise AnalysisError("Manager.find_tasks: unrecognised shape")
    for r in rets:
        v = cx.resolve(r.ast.value, r.id)
        ok = False
        facts = A.src(v)
        if isinstance(v, ast.ListComp) and len(v.generators) == 1 and not v.generators[0].ifs:
            g = v.generators[0]
            it = cx.resolve(g.iter, r.id)
            tv = A.target_names(g.target)
            elt_ok = isinstance(v.elt, ast.Subscript) and A.dotted(v.elt.value) == "self.tasks" and [A.dotted(v.elt.slice)] == tv
            it_ok = isinstance(it, ast.Call) and is_self_call(it, "find_taskids") and len(it.args) + len(it.keywords) == 1 and \
                A.dotted((it.args + [k.value for k in it.keywords])[0]) == sp
            ok = elt_ok and it_ok
        col.add(rule, f"{q}#order-preserving-map", ok, cx.loc(r.id),
                "find_tasks maps find_taskids(start) through self.tasks with an order-preserving construct, dropping nothing", facts)
    _none_default(col, rule, cx, sp, q)


def _none_default(col, rule, cx, param, q):
    """any rebinding of `param` (to 'everything') happens only under `param is None`"""
    for nid in list(cx.cfg.nodes):
        for d in cx.rd.defs.get(nid, []):
            if d.name == param and d.kind == "assign":
                ok = has_guard(cx.cfg, nid, "T", lambda t: test_is_none(t, param))
                col.add(rule, f"{q}#default-only-when-None", ok, cx.loc(nid),
                        f"`{param}` is replaced by its 'everything' default only when it is None "
                        "(an empty start collection means: nothing to run)",
                        f"guards: {[g.kind + ':' + A.src(g.ast)[:40] for g in cx.cfg.guards(nid)]}")
    # truthiness tests of the parameter are suspicious in the same way
    for n in cx.cfg.nodes.values():
        if n.kind == "test":
            t = n.ast
            if isinstance(t, ast.UnaryOp) and isinstance(t.op, ast.Not):
                t = t.operand
            if isinstance(t, ast.Name) and t.id == param:
                col.add(rule, f"{q}#default-only-when-None", False, cx.loc(n.id),
                        f"`{param}` is tested with `is None`, not by truthiness", A.src(n.ast))


def _check_find_taskids(col, rule, cx: FnCtx, depth: int):
    q = f"Manager.{cx.fn.name}"
    cfg = cx.cfg
    P = A.params(cx.fn)
    if len(P) < 2:
        raise AnalysisError(f"{q}: unrecognised signature")
    sp = P[1]
    rets = [n for n in cfg.nodes.values() if n.kind == "stmt" and isinstance(n.ast, ast.Return)]
    if not rets:
        raise AnalysisError(f"{q}: no return")
    _none_default(col, rule, cx, sp, q)
    for r in rets:
        v = cx.resolve(r.ast.value, r.id)
        if isinstance(v, ast.Call) and is_self_call(v) and v.func.attr != cx.fn.name and depth < 2 \
                and col.repo.has_method("Manager", v.func.attr) and v.func.attr.startswith("find_taskids"):
            # delegation: the callee must satisfy the same obligations for its start parameter
            callee = fnctx(col.repo, "Manager", v.func.attr)
            col.add(rule, f"{q}#delegates", True, cx.loc(r.id), f"delegates to {v.func.attr}", A.src(v))
            _check_toposort_call(col, rule, callee, f"Manager.{v.func.attr}", start_from_deptasks=False)
            _none_default(col, rule, callee, A.params(callee.fn)[1], f"Manager.{v.func.attr}")
            arg = v.args[0] if v.args else None
            _check_start_set(col, rule, cx, q, arg, r.id, sp)
            continue
        if not (isinstance(v, ast.Call) and A.call_name(v) == "toposort"):
            col.fail(rule, f"{q}#returns-toposort", cx.loc(r.id),
                     "find_taskids returns toposort(self.rtasks, start tasks)", f"returns {A.src(v)}")
            continue
        ok_g = len(v.args) >= 2 and A.dotted(v.args[0]) == "self.rtasks"
        col.add(rule, f"{q}#orders-by-rtasks", ok_g, cx.loc(r.id),
                "the triggered tasks are ordered by the task-ordering graph self.rtasks, restricted to what is reachable from the start tasks",
                A.src(v))
        if len(v.args) >= 2:
            _check_start_set(col, rule, cx, q, v.args[1], r.id, sp)


def _check_toposort_call(col, rule, cx, q, start_from_deptasks):
    rets = [n for n in cx.cfg.nodes.values() if n.kind == "stmt" and isinstance(n.ast, ast.Return)]
    P = A.params(cx.fn)
    for r in rets:
        v = cx.resolve(r.ast.value, r.id)
        ok = isinstance(v, ast.Call) and A.call_name(v) == "toposort" and len(v.args) >= 2 and \
            A.dotted(v.args[0]) == "self.rtasks" and A.dotted(v.args[1]) == P[1]
        col.add(rule, f"{q}#orders-by-rtasks", ok, cx.loc(r.id),
                "returns toposort(self.rtasks, <start parameter>)", A.src(v))


def _check_start_set(col, rule, cx, q, arg, at, sp):
    """arg (a Name) accumulates self.deptasks[dep] for every dep of the start parameter"""
    ok = False
    facts = A.src(arg)
    if isinstance(arg, ast.Name):
        ds = cx.defs(arg.id, at)
        init = [d for d in ds if d.kind == "assign"]
        acc = [d for d in ds if d.kind == "mutcall"]
        init_ok = len(init) == 1 and ((isinstance(init[0].value, ast.Call) and A.call_name(init[0].value) in ("set", "list", "dict")
                                       and not init[0].value.args) or (isinstance(init[0].value, (ast.List, ast.Dict)) and not A.src(init[0].value).strip("[]{}")))
        acc_ok = False
        for d in acc:
            c = d.value
            if c.func.attr in ("update", "extend") and len(c.args) == 1 and isinstance(c.args[0], ast.Subscript) \
                    and A.dotted(c.args[0].value) == "self.deptasks":
                key = A.dotted(c.args[0].slice)
                loops = [g for g in cx.cfg.guards(d.nid) if g.kind == "T" and isinstance(g.ast, ast.For)]
                conds = [g for g in cx.cfg.guards(d.nid) if not isinstance(g.ast, ast.For)]
                if len(loops) == 1 and A.target_names(loops[0].ast.target) == [key] and A.dotted(loops[0].ast.iter) == sp and not conds:
                    acc_ok = True
        others = [d for d in ds if d.kind not in ("assign", "mutcall")]
        ok = init_ok and acc_ok and not others and len(acc) == 1
        facts = f"definitions of `{arg.id}`: {ds}"
    col.add(rule, f"{q}#start-set-from-deptasks", ok, cx.loc(at),
            "the start set is the union of self.deptasks[dep] over every dep of the argument (unfiltered)", facts)


def _recursion(col: Collector, rule="C01.R4"):
    """no recursion over the manager's graph on the scheduling path"""
    repo = col.repo
    m = repo.module("sorting")
    # call graph among module-level functions of sorting.py
    import networkx as nx
    g = nx.DiGraph()
    for name, fn in m.functions.items():
        g.add_node(name)
        for c in A.calls(fn):
            if isinstance(c.func, ast.Name) and c.func.id in m.functions:
                g.add_edge(name, c.func.id)
    if "toposort" not in g:
        raise AnalysisError("sorting.toposort vanished")
    reach = {"toposort"} | nx.descendants(g, "toposort")
    for name in sorted(reach):
        rec = g.has_edge(name, name) or any(name in nx.descendants(g, s) for s in g.successors(name))
        col.add(rule, f"sorting.{name}#not-recursive", not rec, m.loc(m.functions[name]),
                "the scheduler does not recurse along the task graph (chains of thousands of dependants must not hit the "
                "interpreter recursion limit)", "self/mutually recursive" if rec else "")
    mg = repo.cls("Manager")
    for name in ("set_value", "run_tasks", "find_tasks", "find_taskids"):
        fn = repo.method("Manager", name)
        rec = any(is_self_call(c, name) for c in A.calls(fn))
        col.add(rule, f"Manager.{name}#not-recursive", not rec, mg.module.loc(fn),
                "scheduling entry points are not recursive", "")


def _task_bodies(col: Collector, rule="C01.R5"):
    repo = col.repo
    # ExprTask.__init__
    cx = fnctx(repo, "ExprTask", "__init__")
    P = A.params(cx.fn)
    if len(P) != 3:
        raise AnalysisError("ExprTask.__init__: expected (self, target, expr)")
    _, tar_p, expr_p = P
    stores = {}
    for n in cx.cfg.nodes.values():
        if n.kind == "stmt" and isinstance(n.ast, ast.Assign) and len(n.ast.targets) == 1:
            a = A.self_attr(n.ast.targets[0])
            if a:
                stores.setdefault(a, []).append(n)
    def single(attr):
        return stores[attr][0].ast.value if len(stores.get(attr, [])) == 1 else None
    col.add(rule, "ExprTask.__init__#expr", A.dotted(single("expr")) == expr_p, cx.loc(cx.fn),
            "the task keeps the expression it was given", A.src(single("expr")))
    col.add(rule, "ExprTask.__init__#taskid", A.dotted(single("taskid")) == tar_p, cx.loc(cx.fn),
            "the task is identified by its target", A.src(single("taskid")))
    d = single("dependencies")
    okd = isinstance(d, ast.Call) and is_method_call(d, "_get_dependencies") and A.dotted(d.func.value) == expr_p and not d.args
    col.add(rule, "ExprTask.__init__#dependencies", okd, cx.loc(cx.fn),
            "the task's dependencies are exactly expr._get_dependencies()", A.src(d))
    # ExprTask.run
    cx = fnctx(repo, "ExprTask", "run")
    cfg = cx.cfg
    W = cx.call_nodes(lambda c: is_method_call(c, "_set_value", "self.taskid"))
    EVc = cx.call_nodes(lambda c: is_method_call(c, "_get_value", "self.expr"))
    ok = len(W) == 1 and bool(EVc) and cfg.must_pass(cfg.ENTRY, cfg.EXIT, W)
    facts = ""
    if ok:
        c = cx.calls_at(W[0], lambda c: is_method_call(c, "_set_value", "self.taskid"))[0]
        v = cx.resolve(c.args[0], W[0]) if len(c.args) == 1 else None
        ok = isinstance(v, ast.Call) and is_method_call(v, "_get_value", "self.expr") and not v.args
        facts = f"writes {A.src(c.args[0]) if c.args else '?'} = {A.src(v)}"
        ok = ok and all(cfg.dominates(e, W[0]) or e == W[0] for e in EVc)
    col.add(rule, "ExprTask.run#evaluate-then-write", ok, cx.loc(W[0]) if W else cx.loc(cx.fn),
            "every run evaluates self.expr afresh and writes exactly that value to self.taskid", facts)
    sw = [a for a, _ in __import__("xsa.rules.common", fromlist=["x"]).self_attr_stores(cx.fn)]
    tries = [n for n in A.walk(cx.fn) if isinstance(n, ast.Try)]
    col.add(rule, "ExprTask.run#stateless", not sw and not tries, cx.loc(cx.fn),
            "ExprTask.run keeps no state between runs (no cached value, no handler)", f"self attributes stored: {sw}")
    # FunctionTask.run
    cx = fnctx(repo, "FunctionTask", "run")
    An = cx.call_nodes(lambda c: is_self_call(c, "action"))
    col.add(rule, "FunctionTask.run#calls-action", bool(An) and cx.cfg.must_pass(cx.cfg.ENTRY, cx.cfg.EXIT, An), cx.loc(cx.fn),
            "every run of a function task calls its action", "")
    # LinearKnob.run
    cx = fnctx(repo, "LinearKnob", "run")
    cfg = cx.cfg
    reads = cx.call_nodes(lambda c: is_method_call(c, "_get_value", "self.source"))
    writes = cx.call_nodes(lambda c: is_method_call(c, "_set_value"))
    ok = bool(reads) and len(writes) == 1
    facts = ""
    if ok:
        w = writes[0]
        loops = [g for g in cfg.guards(w) if g.kind == "T" and isinstance(g.ast, ast.For)]
        c = cx.calls_at(w, lambda c: is_method_call(c, "_set_value"))[0]
        tv = A.dotted(c.func.value)
        lok = len(loops) == 1 and isinstance(loops[0].ast.iter, ast.Call) and A.call_name(loops[0].ast.iter) == "zip" and \
            [A.dotted(a) for a in loops[0].ast.iter.args] == ["self.weights", "self.targets"] and \
            len(A.target_names(loops[0].ast.target)) == 2 and A.target_names(loops[0].ast.target)[1] == tv
        wv = A.target_names(loops[0].ast.target)[0] if lok else None
        # written value: t._get_value() + w * delta
        v = c.args[0] if c.args else None
        vok = False
        if lok and isinstance(v, ast.BinOp) and isinstance(v.op, ast.Add):
            sides = [v.left, v.right]
            cur = [s for s in sides if isinstance(s, ast.Call) and is_method_call(s, "_get_value", tv)]
            inc = [s for s in sides if isinstance(s, ast.BinOp) and isinstance(s.op, ast.Mult)
                   and {A.dotted(s.left), A.dotted(s.right)} >= {wv}]
            if len(cur) == 1 and len(inc) == 1:
                dn = [x for x in (A.dotted(inc[0].left), A.dotted(inc[0].right)) if x != wv]
                if dn and dn[0]:
                    dv = cx.resolve(ast.Name(id=dn[0], ctx=ast.Load()), w)
                    # delta = value - self.prev_value
                    if isinstance(dv, ast.BinOp) and isinstance(dv.op, ast.Sub) and A.dotted(dv.right) == "self.prev_value":
                        cv = cx.resolve(dv.left, w)
                        vok = isinstance(cv, ast.Call) and is_method_call(cv, "_get_value", "self.source")
        ok = lok and vok
        facts = f"loop: {A.src(loops[0].ast.iter) if loops else None}; written: {A.src(v)}"
    col.add(rule, "LinearKnob.run#increment", ok, cx.loc(writes[0]) if writes else cx.loc(cx.fn),
            "each target is incremented by weight * (source value - previous source value)", facts)
    commits = [n for n in cfg.nodes.values() if n.kind == "stmt" and isinstance(n.ast, ast.Assign)
               and A.self_attr(n.ast.targets[0]) == "prev_value"]
    okc = len(commits) == 1 and cfg.must_pass(cfg.ENTRY, cfg.EXIT, [commits[0].id])
    if okc:
        cv = cx.resolve(commits[0].ast.value, commits[0].id)
        okc = isinstance(cv, ast.Call) and is_method_call(cv, "_get_value", "self.source")
    col.add(rule, "LinearKnob.run#commit-prev-value", okc, cx.loc(commits[0].id) if commits else cx.loc(cx.fn),
            "the source value the increments were computed from is committed as prev_value on every run", "")
    # LinearKnob.__init__
    cx = fnctx(repo, "LinearKnob", "__init__")
    st = {a: n for a, n in __import__("xsa.rules.common", fromlist=["x"]).self_attr_stores(cx.fn)}
    src_p = A.params(cx.fn)[2] if len(A.params(cx.fn)) > 2 else None
    dep = st.get("dependencies")
    okk = dep is not None and isinstance(dep.value, ast.Set) and [A.dotted(e) for e in dep.value.elts] == [src_p]
    col.add(rule, "LinearKnob.__init__#dependencies", okk, cx.loc(cx.fn),
            "a linear knob depends on its source", A.src(dep.value) if dep is not None else "")


def _effect_precision(col: Collector, rule="C01.R6"):
    repo = col.repo
    cx = fnctx(repo, "ExprTask", "__init__")
    tar_p = A.params(cx.fn)[1]
    tv = None
    for a, n in __import__("xsa.rules.common", fromlist=["x"]).self_attr_stores(cx.fn):
        if a == "targets" and isinstance(n, ast.Assign):
            tv = n.value
    if tv is None:
        raise AnalysisError("ExprTask.__init__: no assignment of self.targets")
    exact = isinstance(tv, ast.Set) and [A.dotted(e) for e in tv.elts] == [tar_p]
    owner_chain = isinstance(tv, ast.Call) and is_method_call(tv, "_get_dependencies") and A.dotted(tv.func.value) == tar_p
    if not exact and not owner_chain:
        col.fail("C01.R5", "ExprTask.__init__#targets", cx.loc(cx.fn),
                 "the declared targets of an expression task contain the written location", A.src(tv))
        return
    col.add(rule, "ExprTask.__init__#targets-equal-writes", exact, cx.loc(cx.fn),
            "the declared write set of an ExprTask equals what run() writes (self.taskid only); declaring the owner chain "
            "orders sibling members of one container both ways (cycle in rtasks)",
            f"self.targets = {A.src(tv)} (owner chain included via MutableRef._get_dependencies)")


def _entry_points(col: Collector, rule="C01.R7"):
    repo = col.repo
    for cls, meth, refcls in (("MutableRef", "__setitem__", "ItemRef"), ("MutableRef", "__setattr__", "AttrRef"),
                              ("ObjectAttrRef", "__setattr__", "ItemRef")):
        cx = fnctx(repo, cls, meth)
        P = A.params(cx.fn)
        key_p, val_p = P[1], P[2]
        sv = cx.call_nodes(lambda c: is_method_call(c, "set_value", "self._manager"))
        ok = len(sv) == 1
        facts = ""
        if ok:
            c = cx.calls_at(sv[0], lambda c: is_method_call(c, "set_value", "self._manager"))[0]
            r = cx.resolve(c.args[0], sv[0]) if len(c.args) == 2 else None
            ok = isinstance(r, ast.Call) and A.call_name(r) == refcls and len(r.args) == 3 and \
                [A.dotted(a) for a in r.args] == ["self", key_p, "self._manager"] and A.dotted(c.args[1]) == val_p \
                and all(d.kind == "param" for d in cx.defs(val_p, sv[0]))
            facts = A.src(c) + " with ref = " + A.src(r)
        col.add(rule, f"{cls}.{meth}#assign-through-manager", ok, cx.loc(sv[0]) if sv else cx.loc(cx.fn),
                f"{cls}.{meth} assigns through manager.set_value({refcls}(self, key, manager), value)", facts)
    cx = fnctx(repo, "BaseRef", "_set_to_expr")
    sv = cx.call_nodes(lambda c: is_method_call(c, "set_value", "self._manager"))
    ok = len(sv) == 1 and [A.dotted(a) for a in cx.calls_at(sv[0])[0].args] == ["self", A.params(cx.fn)[1]]
    col.add(rule, "BaseRef._set_to_expr#assign-through-manager", ok, cx.loc(cx.fn),
            "_set_to_expr assigns through manager.set_value(self, expr)", "")


def check(col: Collector):
    _set_value_protocol(col)
    _trigger_closure(col)
    check_toposort(col, "C01.R3")
    _recursion(col)
    _task_bodies(col)
    _effect_precision(col)
    _entry_points(col)
