"""C01 -- expression-defined locations equal their definition: the update protocol.

All rules work on *normalised* functions (xsa.normalize: helpers inlined, conditional expressions lowered)
and on *symbolic terms* (xsa.sym): a rule asks which values flow into which calls on which paths, not how the
function is spelled.  A rule fails only on positive evidence (a path that skips a step, a value that comes from
somewhere else); when the anchor structure itself cannot be found the run ends ANALYSIS-ERROR (cannot decide).
"""
from __future__ import annotations

import ast

from .. import astutil as A
from .. import sym as S
from ..core import AnalysisError, Collector
from .common import SCtx, sctx, fnctx, is_self_call
from .toposort_rules import check_toposort

PROP = "C01"
FLOORS = {"C01.R1": 7, "C01.R2": 5, "C01.R3": 8, "C01.R4": 2, "C01.R5": 7, "C01.R6": 1, "C01.R7": 4, "C01.R8": 14, "C01.R9": 30, "C01.R10": 7, "C01.R11": 4, "C01.R12": 1, "C01.R13": 1}
META = {
    "explanation": "Static discharge of the update protocol behind C01: on the control-flow graph of Manager.set_value "
                   "(after inlining of helpers) every path unregisters an existing definition, registers the new ExprTask, "
                   "evaluates, writes, and then runs find_tasks(ref._get_dependencies()); the trigger closure of "
                   "find_taskids/find_tasks; the reverse-post-order DFS template of sorting.toposort; absence of recursion "
                   "over the manager's graph; the bodies of the three task classes; the assignment entry points of MutableRef. "
                   "Values are compared as symbolic terms (locals, temporaries and helpers dissolved).",
    "decides": "necessary structural conditions of the protocol (ordering, must-pass-through, dataflow of the written value "
               "and of the trigger set); not the numeric values",
    "not_decided": "value equality on all numeric inputs; sufficiency of the protocol (see known finding C01.R6)",
    "assumptions": ["user containers and user actions are opaque and do not touch manager state",
                    "callee resolution: self.m() through the class hierarchy, module functions by name; helper methods are "
                    "inlined up to depth 3 when their returns are in tail position",
                    "symbolic terms ignore field mutation between a read and its use (flow-insensitive in self attributes)"],
}

ANCHORS = {"register", "unregister", "run_tasks", "find_tasks", "find_taskids", "set_value", "find_taskids_from_tasks",
           "toposort", "cleanup", "clone", "copy", "refresh", "verify", "load", "dump", "copy_expr_from", "find_deps",
           "iter_expr_tasks_owner", "mk_fun", "gen_fun", "ref", "refattr", "newenv", "freeze_tree", "unfreeze_tree"}


def set_value_ctx(col: Collector) -> SCtx:
    s = sctx(col.repo, "Manager", "set_value", public=True, keep=ANCHORS)
    n = len([p for p in s.sym.params.values() if p[:1] == ("param",)])
    if n != 2:
        raise AnalysisError("Manager.set_value: expected (self, ref, value)")
    return s


def _write_events(s: SCtx, ref, value):
    """calls that store into the assigned location: ref._set_value(v) or ExprTask(ref, value).run()"""
    W = s.calls_some(S.mcall(ref, "_set_value", S.V("v")))
    W += s.calls_some(S.mcall(S.fcall("ExprTask", ref, value), "run"))
    return W


def _set_value_protocol(col: Collector, rule="C01.R1", only=None, order_rule=None):
    s = set_value_ctx(col)
    cfg = s.cfg
    ref, value = s.P(0), s.P(1)
    q = "Manager.set_value"
    here = s.loc(s.fn)

    W = _write_events(s, ref, value)
    Pn = s.calls_some(S.mcall(S.SELF, "run_tasks", S.V("x")))
    U = s.calls_some(S.mcall(S.SELF, "unregister", S.V("x")))
    R = s.calls_some(S.mcall(S.SELF, "register", S.V("x")))
    EV = s.calls_some(S.mcall(value, "_get_value")) + s.calls_some(S.mcall(S.fcall("ExprTask", ref, value), "run"))
    if not W:
        raise AnalysisError(f"{q}: no call that writes the assigned location (ref._set_value) found -- cannot decide")
    if not Pn:
        col.fail(rule, f"{q}#propagate", here, "set_value runs the dependants (self.run_tasks)", "no call of self.run_tasks")
        return
    Wn, Pnn, Un, Rn, EVn = (s.nids(x) for x in (W, Pn, U, R, EV))

    # (a) every normal path writes
    col.add(rule, f"{q}#write-on-every-path", cfg.must_pass(cfg.ENTRY, cfg.EXIT, Wn), s.loc(Wn[0]),
            "every normally returning path of set_value writes the value into the assigned location (no early exit)",
            f"write sites {[s.loc(w) for w in Wn]}")
    # (b) propagation after the write, on every path; never before it
    ok_b = all(cfg.must_pass(w, cfg.EXIT, Pnn) for w in Wn) and all(cfg.must_pass(cfg.ENTRY, p, Wn) for p in Pnn)
    col.add(rule, f"{q}#propagate-after-write", ok_b, s.loc(Pnn[0]),
            "after the write every normally returning path runs the dependants; propagation never precedes the write",
            f"run_tasks sites {[s.loc(p) for p in Pnn]}")
    # (c) trigger set
    want = S.mcall(S.SELF, "find_tasks", S.mcall(ref, "_get_dependencies"))
    for ev, m in Pn:
        a = ev.term
        arg = None
        for alt in S.alts(a):
            mm = S.match(alt, S.mcall(S.SELF, "run_tasks", S.V("x")))
            arg = mm["x"] if mm else arg
        ok = S.match(ev.term, S.mcall(S.SELF, "run_tasks", want)) is not None
        # the schedule is computed in this very call, after the graph was updated
        ft = [e.nid for e, _ in s.calls_some(S.mcall(S.SELF, "find_tasks", S.ANY))]
        fresh = bool(ft) and cfg.must_pass(cfg.ENTRY, ev.nid, ft) and all(not cfg.path_avoiding(f, x, []) for f in ft for x in Un + Rn)
        col.add(rule, f"{q}#trigger-set", ok and fresh, s.loc(ev),
                "the tasks run are find_tasks(ref._get_dependencies()) -- the assigned location and every enclosing container -- "
                "computed afresh on every assignment, after the graph has been updated (no memoised schedule)",
                f"run_tasks argument: {S.show(arg)}")
    # (d) unregister iff ref in self.tasks
    in_tasks = ("cmp", "in", ref, S.sattr("tasks"))
    br_out = s.branches(("cmp", "not in", ref, S.sattr("tasks")))
    okU, facts = True, ""
    for ev, m in U:
        if S.match(ev.term, S.mcall(S.SELF, "unregister", ref)) is None:
            okU, facts = False, f"unregister called with {S.show(ev.term)}"
        elif not s.under(ev.nid, in_tasks):
            okU, facts = False, f"unregister runs under {[S.show(c) for c in s.conds(ev.nid)]}"
    good_u = [ev.nid for ev, m in U if S.match(ev.term, S.mcall(S.SELF, "unregister", ref)) is not None]
    for x in Wn + Rn:
        if cfg.path_avoiding(cfg.ENTRY, x, good_u + br_out):
            okU, facts = False, "a path reaches the write/register with the old definition neither unregistered nor known absent"
    col.add("C03.R2" if only == "C03" else rule, f"{q}#unregister-existing-definition", okU, s.loc(Un[0]) if Un else here,
            "an existing task identified by the assigned ref is unregistered first, exactly when `ref in self.tasks`", facts)
    # (d'') every normal path that may find an old definition removes it: no exit with the old definition still in place
    stays = cfg.path_avoiding(cfg.ENTRY, cfg.EXIT, good_u + br_out)
    col.add("C03.R2" if only == "C03" else rule, f"{q}#every-path-replaces-the-definition", not stays, s.loc(Un[0]) if Un else here,
            "no normally returning path of set_value leaves an existing definition of the assigned ref registered (an early exit "
            "before the unregister keeps the old expression alive)", "a path ENTRY->EXIT passes neither unregister(ref) nor a branch where `ref not in self.tasks` is known" if stays else "")
    # (d') a second registration under the same id is reachable only through an unregister
    twice = [(a, b) for a in Rn for b in Rn if cfg.path_avoiding(a, b, good_u) and (a != b or cfg.in_loop(a))]
    col.add("C03.R2" if only == "C03" else rule, f"{q}#no-registration-over-a-live-one", not twice,
            s.loc(twice[0][1]) if twice else (s.loc(Rn[0]) if Rn else here),
            "no path (exceptional ones included) registers a task for the assigned ref while an earlier registration of this "
            "call is still in place (the indices would carry both)",
            f"register at {s.loc(twice[0][0])} reaches register at {s.loc(twice[0][1])} with no unregister between" if twice else "")
    # (e) graph changes precede the write
    late = [x for x in Un + Rn if any(cfg.path_avoiding(w, x, []) for w in Wn)]
    early = [w for w in Wn if any(cfg.path_avoiding(w, x, []) for x in Un + Rn)]
    if order_rule is not None:
      col.add(order_rule, f"{q}#graph-changes-precede-write", not late, s.loc(early[0]) if early else s.loc(Wn[0]),
            "unregister/register (which may refuse) happen before the container is written",
            f"reachable after the write: {[s.loc(x) for x in late]}")
    # (f) expression branch
    isref = S.fcall("isinstance", value, S.V("_", lambda t: t in (("glob", "BaseRef"), ("attr", ("glob", "refs"), "BaseRef"))))
    isref2 = S.fcall("is_ref", value)
    rb = s.branches(isref) + s.branches(isref2)
    nb = s.branches(("uop", "not", isref)) + s.branches(("uop", "not", isref2))
    if not rb and not nb:
        raise AnalysisError(f"{q}: no test `value is a reference` found -- cannot decide")
    okR, factsR = bool(R), ""
    if not R:
        factsR = "no call of self.register"
    for ev, m in R:
        if S.match(ev.term, S.mcall(S.SELF, "register", S.fcall("ExprTask", ref, value))) is None:
            okR, factsR = False, f"registered task is {S.show(ev.term)}"
        elif not (s.under(ev.nid, isref) or s.under(ev.nid, isref2)):
            okR, factsR = False, "register is not under the `value is a reference` test"
    RF = cfg.refined      # a remembered test result (`is_expr = isinstance(...)`, walrus) is decided per path
    for b in rb:
        for w in Wn:
            if (b == cfg.ENTRY or RF.path_avoiding(cfg.ENTRY, b, Rn)) and RF.path_avoiding(b, w, Rn):
                okR, factsR = False, "a path on which `value is a reference` holds reaches the write without registering the ExprTask"
            if (b == cfg.ENTRY or RF.path_avoiding(cfg.ENTRY, b, EVn)) and RF.path_avoiding(b, w, EVn):
                okR, factsR = False, "a path on which `value is a reference` holds writes without evaluating the expression"
    col.add(rule, f"{q}#expression-branch-registers-and-evaluates", okR, s.loc(Rn[0]) if Rn else here,
            "when the value is an expression an ExprTask(ref, value) is registered and the value written is value._get_value()",
            factsR)
    # (g) what is written
    allowed = (value, S.mcall(value, "_get_value"))
    for ev, m in W:
        if "v" not in m:
            continue    # ExprTask(ref, value).run(): writes the evaluated expression by C01.R5
        vals = S.alts(m["v"])
        ok = all(v in allowed for v in vals)
        # a plain value must not be written on the expression path and vice versa
        for b in rb:
            if not cfg.path_avoiding(b, ev.nid, []):
                continue
        col.add(rule, f"{q}#written-value", ok, s.loc(ev),
                "the value written is the value passed in, or (expression case) its evaluation at assignment time",
                f"written: {S.show(m['v'])}")
    tries = [n for n in A.walk(s.fn) if isinstance(n, ast.Try)]
    col.add(rule, f"{q}#no-exception-handler", not tries, s.cx.module.loc(tries[0]) if tries else here,
            "set_value has no exception handler (a failure of a write or a task reaches the caller)", "")


def _start_param_ok(col, rule, s: SCtx, q: str, start_term, what: str, at):
    """the start collection is the parameter, or `self.rdeps` as the default only when the parameter is None"""
    p = s.P(0)
    ok = all(a == p or a == S.sattr("rdeps") or a == S.sattr("rtasks") for a in S.alts(start_term))
    col.add(rule, f"{q}#{what}", ok, at, "the start collection is the caller's argument (or the 'everything' default)",
            f"start collection: {S.show(start_term)}")
    # rebinding of the parameter, and any other use of the 'everything' default, only under `is None`
    pname = p[2]
    seen_nodes = set()
    for nid in list(s.cfg.nodes):
        hits = [d for d in s.cx.rd.defs.get(nid, []) if d.name == pname and d.kind == "assign"]
        nd = s.cfg.nodes[nid]
        if not hits and nd.ast is not None and nd.kind in ("stmt", "for", "test"):
            parts = [x for x in s.cfg.own_exprs(nid) if x is not None]
            if any(isinstance(x, ast.Attribute) and x.attr == "rdeps" and isinstance(x.value, ast.Name) and x.value.id == "self"
                   and isinstance(x.ctx, ast.Load) for part in parts for x in ast.walk(part)):
                hits = [None]
        for d in hits:
            if nid in seen_nodes:
                continue
            seen_nodes.add(nid)
            if True:
                okn = s.under(nid, ("cmp", "is", p, ("const", "None")))
                col.add(rule, f"{q}#default-only-when-None", okn, s.loc(nid),
                        f"`{pname}` is replaced by its 'everything' default only when it is None "
                        "(an empty start collection means: nothing to run)",
                        f"conditions: {[S.show(c) for c in s.conds(nid)]}")


def _trigger_closure(col: Collector, rule="C01.R2"):
    repo = col.repo
    # ---- find_taskids
    s = sctx(repo, "Manager", "find_taskids", public=True, keep=ANCHORS)
    q = "Manager.find_taskids"
    rets = s.of_kind("return")
    if not rets:
        raise AnalysisError(f"{q}: no return")
    for r in rets:
        v = r.value
        m = S.match(v, S.fcall("toposort", S.V("g"), S.V("start")))
        if m is None:
            m2 = S.match(v, S.mcall(S.SELF, "find_taskids_from_tasks", S.V("start")))
            if m2 is None:
                col.fail(rule, f"{q}#returns-toposort", s.loc(r),
                         "find_taskids returns toposort(self.rtasks, start tasks)", f"returns {S.show(v)}")
                continue
            s2 = sctx(repo, "Manager", "find_taskids_from_tasks", public=True, keep=ANCHORS)
            for r2 in s2.of_kind("return"):
                okd = S.match(r2.value, S.fcall("toposort", S.sattr("rtasks"), S.V("_", lambda t: all(
                    a in (s2.P(0), S.sattr("rtasks")) for a in S.alts(t))))) is not None
                col.add(rule, "Manager.find_taskids_from_tasks#orders-by-rtasks", okd, s2.loc(r2),
                        "returns toposort(self.rtasks, <start tasks>)", S.show(r2.value))
            m = {"g": S.sattr("rtasks"), "start": m2["start"]}
        # nothing is taken out of the start collection once it was gathered (every start task must be offered to the sort: on a cycle
        # "it is reached from another one anyway" is false for both)
        sarg = None
        for ev_ in s.of_kind("call"):
            if isinstance(ev_.node.func, ast.Name) and ev_.node.func.id == "toposort" and len(ev_.node.args) >= 2:
                sarg = ev_.node.args[1]
        if isinstance(sarg, ast.Name):
            removers = ("discard", "remove", "difference_update", "intersection_update", "symmetric_difference_update", "pop", "clear")
            taken = [ev for ev in s.of_kind("call") if isinstance(ev.node.func, ast.Attribute) and ev.node.func.attr in removers
                     and isinstance(ev.node.func.value, ast.Name) and ev.node.func.value.id == sarg.id]
            if taken:
                col.add(rule, f"{q}#start-set-not-pruned", False, s.loc(taken[0]),
                        "no start task is removed from the start collection before the sort", S.show(taken[0].term)[:80])
        col.add(rule, f"{q}#orders-by-rtasks", m["g"] == S.sattr("rtasks"), s.loc(r),
                "the triggered tasks are ordered by the task-ordering graph self.rtasks, restricted to what is reachable from "
                "the start tasks", f"graph argument: {S.show(m['g'])}")
        _check_start_set(col, rule, s, q, m["start"], s.loc(r))
    # ---- find_tasks: order preserving map through self.tasks
    s = sctx(repo, "Manager", "find_tasks", public=True, keep=ANCHORS)
    q = "Manager.find_tasks"
    rets = s.of_kind("return")
    if not rets:
        raise AnalysisError(f"{q}: no return")
    for r in rets:
        ok, facts = True, S.show(r.value)
        recognised = 0
        for v in S.alts(r.value):
            m = S.match(v, ("acc", "list", (("one", S.V("g"), ("sub", S.sattr("tasks"), ("elem", S.V("ids")))),)))
            if m is None:
                m = S.match(v, S.fcall("list", ("acc", "gen", (("one", S.V("g"), ("sub", S.sattr("tasks"), ("elem", S.V("ids")))),))))
            if m is None:
                ok = False
                if v[:1] in (("acc",), ("call",), ("param",), ("attr",), ("sub",), ("list",), ("set",)):
                    recognised += 1
                    facts = f"a path returns {S.show(v)}"
                continue
            recognised += 1
            mis = [S.match(a_, S.mcall(S.SELF, "find_taskids", S.V("start"))) for a_ in S.alts(m["ids"])]
            mi = mis[0] if all(x is not None for x in mis) else None
            if mi is not None and m["g"] == ():
                st_ = S.mk_alt([x["start"] for x in mis])
                _start_param_ok(col, rule, s, q, st_, "start-passed-through", s.loc(r))
            elif m["g"] != ():
                ok, facts = False, f"filtered by {[S.show(c) for _, c in m['g']]}"
            else:
                ok, facts = False, f"maps {S.show(m['ids'])}"
        if not recognised:
            raise AnalysisError(f"{q}: unrecognised return value {S.show(r.value)} -- cannot decide")
        col.add(rule, f"{q}#order-preserving-map", ok, s.loc(r),
                "find_tasks maps find_taskids(start) through self.tasks with an order-preserving construct, dropping nothing", facts)


def _check_start_set(col, rule, s: SCtx, q, start, at):
    """start = union of self.deptasks[dep] over every dep of the start parameter, unfiltered"""
    ok, facts = False, S.show(start)
    if start[:1] == ("acc",) and start[1] in ("set", "list", "dict"):
        ok = bool(start[2])
        for c in start[2]:
            kind, g = c[0], c[1]
            if kind == "many":
                m = S.match(c[2], ("sub", S.sattr("deptasks"), ("elem", S.V("deps"))))
            elif kind == "one":
                m = S.match(c[2], ("elem", ("sub", S.sattr("deptasks"), ("elem", S.V("deps")))))
            else:
                m = None
            if m is None:
                ok, facts = False, f"contribution {S.show(('acc', start[1], (c,)))}"
                continue
            if g:
                ok, facts = False, f"start tasks filtered by {[('' if p else 'not ') + S.show(t) for p, t in g]}"
                continue
            _start_param_ok(col, rule, s, q, m["deps"], "start-deps-are-the-argument", at)
    elif start[:1] == ("alt",) and all(a[:1] == ("acc",) for a in start[1]):
        for a in start[1]:          # built on two branches (e.g. once for the default, once for the argument): each on its own
            _check_start_set(col, rule, s, q, a, at)
        return
    elif start[:1] in (("param",), ("attr",), ("alt",)):
        ok, facts = False, f"start set is {S.show(start)}, not derived from self.deptasks"
    else:
        raise AnalysisError(f"{q}: unrecognised construction of the start set: {S.show(start)} -- cannot decide")
    col.add(rule, f"{q}#start-set-from-deptasks", ok, at,
            "the start set is the union of self.deptasks[dep] over every dep of the argument (unfiltered)", facts)


def _recursion(col: Collector, rule="C01.R4"):
    """no recursion over the manager's graph on the scheduling path"""
    repo = col.repo
    m = repo.module("sorting")
    import networkx as nx
    g = nx.DiGraph()
    for name, fn in m.functions.items():
        g.add_node(name)
        for c in A.calls(fn):
            if isinstance(c.func, ast.Name) and c.func.id in m.functions:
                g.add_edge(name, c.func.id)
    if "toposort" not in g:
        raise AnalysisError("sorting.toposort vanished")
    reach = {"toposort"} | nx.descendants(g, "toposort")
    for name in sorted(reach):
        rec = g.has_edge(name, name) or any(name in nx.descendants(g, s) for s in g.successors(name))
        col.add(rule, f"sorting.{name}#not-recursive", not rec, m.loc(m.functions[name]),
                "the scheduler does not recurse along the task graph (chains of thousands of dependants must not hit the "
                "interpreter recursion limit)", "self/mutually recursive" if rec else "")
    mg = repo.cls("Manager")
    for name in ("set_value", "run_tasks", "find_tasks", "find_taskids"):
        fn = repo.method("Manager", name)
        rec = any(is_self_call(c, name) for c in A.calls(fn))
        col.add(rule, f"Manager.{name}#not-recursive", not rec, mg.module.loc(fn),
                "scheduling entry points are not recursive", "")


def _self_stores(s: SCtx):
    """{attr: [store events]} for `self.attr = ...`"""
    out = {}
    for ev in s.of_kind("store"):
        for t in S.alts(ev.target):
            if S.is_attr(t, S.SELF):
                out.setdefault(t[2], []).append(ev)
    return out


def _task_bodies(col: Collector, rule="C01.R5"):
    repo = col.repo
    # ---- ExprTask.__init__
    s = sctx(repo, "ExprTask", "__init__")
    if len([p for p in s.sym.params.values() if p[:1] == ("param",)]) != 2:
        raise AnalysisError("ExprTask.__init__: expected (self, target, expr)")
    tar, expr = s.P(0), s.P(1)
    st = _self_stores(s)

    def single(attr):
        evs = st.get(attr, [])
        return evs[0].value if len(evs) == 1 else None
    here = s.loc(s.fn)
    col.add(rule, "ExprTask.__init__#expr", single("expr") == expr, here, "the task keeps the expression it was given", S.show(single("expr")))
    col.add(rule, "ExprTask.__init__#taskid", single("taskid") == tar, here, "the task is identified by its target", S.show(single("taskid")))
    col.add(rule, "ExprTask.__init__#dependencies", single("dependencies") == S.mcall(expr, "_get_dependencies"), here,
            "the task's dependencies are exactly expr._get_dependencies()", S.show(single("dependencies")))
    # ---- ExprTask.run
    s = sctx(repo, "ExprTask", "run")
    cfg = s.cfg
    W = s.calls_some(S.mcall(S.sattr("taskid"), "_set_value", S.V("v")))
    if not W:
        raise AnalysisError("ExprTask.run: no self.taskid._set_value(...) -- cannot decide")
    Wn = s.nids(W)
    col.add(rule, "ExprTask.run#writes-on-every-run", cfg.must_pass(cfg.ENTRY, cfg.EXIT, Wn), s.loc(Wn[0]),
            "every run writes the target (no skipped write, no memo of the previous value)", f"write sites {[s.loc(w) for w in Wn]}",
            discharged_by=("_set_value",))
    for ev, m in W:
        ok = m["v"] == S.mcall(S.sattr("expr"), "_get_value")
        col.add(rule, "ExprTask.run#evaluate-then-write", ok, s.loc(ev),
                "every run evaluates self.expr afresh and writes exactly that value to self.taskid", f"writes {S.show(m['v'])}")
    tries = [n for n in A.walk(s.fn) if isinstance(n, ast.Try)]
    col.add(rule, "ExprTask.run#no-handler", not tries, s.loc(s.fn), "ExprTask.run has no exception handler", "")
    # ---- FunctionTask.run
    s = sctx(repo, "FunctionTask", "run")
    An = s.nids(s.calls_some(S.mcall(S.SELF, "action")))
    col.add(rule, "FunctionTask.run#calls-action", bool(An) and s.cfg.must_pass(s.cfg.ENTRY, s.cfg.EXIT, An), s.loc(s.fn),
            "every run of a function task calls its action", "")
    # ---- LinearKnob.run
    s = sctx(repo, "LinearKnob", "run")
    cfg = s.cfg
    tgt = ("elem", S.sattr("targets"))
    wgt = ("elem", S.sattr("weights"))
    W = s.calls_some(S.mcall(S.V("t"), "_set_value", S.V("v")))
    if not W:
        raise AnalysisError("LinearKnob.run: no _set_value call -- cannot decide")
    src_now = S.mcall(S.sattr("source"), "_get_value")
    want = ("op", "+", S.mcall(tgt, "_get_value"), ("op", "*", wgt, ("op", "-", src_now, S.sattr("prev_value"))))
    for ev, m in W:
        ok = m["t"] == tgt and S.match(m["v"], want) is not None
        col.add(rule, "LinearKnob.run#increment", ok, s.loc(ev),
                "each target is incremented by weight * (source value - previous source value), weights and targets paired",
                f"{S.show(m['t'])} <- {S.show(m['v'])}")
    commits = _self_stores(s).get("prev_value", [])
    okc = bool(commits) and cfg.must_pass(cfg.ENTRY, cfg.EXIT, s.nids(commits)) and all(c.value == src_now for c in commits)
    col.add(rule, "LinearKnob.run#commit-prev-value", okc, s.loc(commits[0]) if commits else s.loc(s.fn),
            "the source value the increments were computed from is committed as prev_value on every run",
            f"commits: {[S.show(c.value) for c in commits]}")
    # ---- LinearKnob.__init__
    s = sctx(repo, "LinearKnob", "__init__")
    st = _self_stores(s)
    dep = st.get("dependencies", [])
    srcs = [e.value for e in st.get("source", [])]
    okk = len(dep) == 1 and len(srcs) == 1 and dep[0].value in (("set", (srcs[0],)),)
    col.add(rule, "LinearKnob.__init__#dependencies", okk, s.loc(s.fn), "a linear knob depends on its source",
            S.show(dep[0].value) if dep else "")


def _effect_precision(col: Collector, rule="C01.R6"):
    s = sctx(col.repo, "ExprTask", "__init__")
    tar = s.P(0)
    evs = _self_stores(s).get("targets", [])
    if len(evs) != 1:
        raise AnalysisError("ExprTask.__init__: no single assignment of self.targets")
    tv = evs[0].value
    exact = tv == ("set", (tar,))
    owner_chain = tv == S.mcall(tar, "_get_dependencies")
    if not exact and not owner_chain:
        col.fail("C01.R5", "ExprTask.__init__#targets", s.loc(evs[0]),
                 "the declared targets of an expression task contain the written location", S.show(tv))
        return
    col.add(rule, "ExprTask.__init__#targets-equal-writes", exact, s.loc(evs[0]),
            "the declared write set of an ExprTask equals what run() writes (self.taskid only); declaring the owner chain "
            "orders sibling members of one container both ways (cycle in rtasks)",
            f"self.targets = {S.show(tv)} (owner chain included via MutableRef._get_dependencies)")


def _entry_points(col: Collector, rule="C01.R7"):
    repo = col.repo
    mgr = S.sattr("_manager")
    for cls, meth, refcls in (("MutableRef", "__setitem__", "ItemRef"), ("MutableRef", "__setattr__", "AttrRef"),
                              ("ObjectAttrRef", "__setattr__", "ItemRef")):
        s = sctx(repo, cls, meth)
        key, val = s.P(0), s.P(1)
        sv = s.calls_some(S.mcall(mgr, "set_value", S.V("r"), S.V("v")))
        if not sv:
            raise AnalysisError(f"{cls}.{meth}: no self._manager.set_value(...) -- cannot decide")
        for ev, m in sv:
            ca = S.call_args(m["r"], ("_owner", "_key", "_manager")) if S.is_call_of(m["r"], ("glob", refcls)) else None
            ok = ca is not None and tuple(ca) == (S.SELF, key, mgr) and m["v"] == val       # positional or by keyword
            col.add(rule, f"{cls}.{meth}#assign-through-manager", ok, s.loc(ev),
                    f"{cls}.{meth} assigns through manager.set_value({refcls}(self, key, manager), value)", S.show(ev.term))
    s = sctx(repo, "BaseRef", "_set_to_expr")
    sv = s.calls_some(S.mcall(mgr, "set_value", S.V("r"), S.V("v")))
    ok = bool(sv) and all(m["r"] == S.SELF and m["v"] == s.P(0) for _, m in sv)
    col.add(rule, "BaseRef._set_to_expr#assign-through-manager", ok, s.loc(s.fn),
            "_set_to_expr assigns through manager.set_value(self, expr)", "")


def check(col: Collector):
    with col.rule():
        _set_value_protocol(col)
    with col.rule():
        _trigger_closure(col)
    with col.rule():
        check_toposort(col, "C01.R3")
    with col.rule():
        _recursion(col)
    with col.rule():
        _task_bodies(col)
    with col.rule():
        _effect_precision(col)
    with col.rule():
        _entry_points(col)
    # in-place updates (`ref += x`) are assignments of (current expression OP x) or (current value OP x)
    from . import c04
    with col.rule():
        c04.inplace_rules(col, "C01.R8")
    # a dependant is recomputed only if the location it reads is among its reported dependencies, and it is found only
    # through indices in which a removed definition left nothing behind
    from . import c02, c05
    from .common import shared
    with col.rule():
        shared(col, "C01.R9", [c05._readset, c05._accumulator, c05._structure],
               why="an expression is re-evaluated only when one of its reported dependencies is assigned")
    with col.rule():
        c02.inverse_effects(col, "C01.R10")
    # the location written by an assignment is the location read back: the key is resolved the same way on both sides
    from . import c04
    with col.rule():
        shared(col, "C01.R11", [c04._leaves], select=lambda o: "_set_value#" in o.construct or "_get_value#" in o.construct,
               why="a value stored under the unevaluated key object is not the value later read under the evaluated key")
    # round 7: the ordering / trigger edges written by register (both directions) and the refusal of a frozen manager *before*
    # anything is removed
    from . import c02, c17
    with col.rule():
        shared(col, "C01.R12", [c02._edges],
               why="a dependency left out of deptasks / rtasks is a location whose change no longer re-runs (or no longer orders) the task")
    with col.rule():
        shared(col, "C01.R13", [c17._guard_dominance], select=lambda o: any(k in o.construct for k in ("Manager.unregister", "Manager.register", "Manager.set_value", "Manager.load", "Manager.copy_expr_from")),
               why="an assignment refused on a frozen manager after the old definition was already removed leaves the location without its "
                   "definition: it silently stops following its inputs")
