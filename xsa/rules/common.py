"""Helpers shared by the per-property rule modules."""
from __future__ import annotations

import ast
from typing import Callable, Dict, Iterable, List, Optional, Set

from .. import astutil as A
from ..cfg import CFG
from ..core import AnalysisError, ClassInfo, Collector, Repo
from ..dataflow import ReachingDefs, Def
from ..normalize import Normalizer, make_resolver, MARKER

INDEX_ATTRS = ("rdeps", "rtasks", "deptasks", "tartasks")
DEF_ATTRS = ("tasks",) + INDEX_ATTRS


def qn(cls: Optional[str], fn) -> str:
    return f"{cls}.{fn.name}" if cls else fn.name


class FnCtx:
    """CFG + reaching definitions of one function, built lazily."""

    def __init__(self, module, cls: Optional[ClassInfo], fn):
        self.module = module
        self.cls = cls
        if any(isinstance(n, ast.Match) for n in ast.walk(fn)):
            # match statements are analysed as the if/elif chains they abbreviate (no helper is inlined here)
            fn = Normalizer(lambda call, cls_: None, cls=cls, keep=()).run(fn)
        self.fn = fn
        try:
            self.cfg = CFG(fn)
        except NotImplementedError as e:
            raise AnalysisError(f"unsupported statement in {self.qual}: {e}")
        self._rd = None
        self.orig_fn = fn
        self.inlined: List[str] = []
        self.opaque: List[str] = []

    @property
    def qual(self):
        return f"{self.cls.name}.{self.fn.name}" if self.cls else self.fn.name

    @property
    def rd(self) -> ReachingDefs:
        if self._rd is None:
            self._rd = ReachingDefs(self.cfg)
        return self._rd

    def loc(self, node) -> str:
        if isinstance(node, int):
            node = self.cfg.nodes[node].ast
        return self.module.loc(node) if node is not None else self.module.loc(self.fn)

    def resolve(self, expr, at: int, depth: int = 4):
        """Follow a local Name to its unique strong reaching definition (transitively)."""
        seen = 0
        while isinstance(expr, ast.Name) and seen < depth:
            ds = self.rd.reaching(at, expr.id)
            strong = [d for d in ds if d.kind == "assign"]
            if len(ds) == 1 and len(strong) == 1:
                at = strong[0].nid
                expr = strong[0].value
                seen += 1
            else:
                break
        return expr

    def defs(self, name: str, at: int) -> List[Def]:
        return self.rd.reaching(at, name)

    def call_nodes(self, pred: Callable[[ast.Call], bool]) -> List[int]:
        return self.cfg.find(lambda x: isinstance(x, ast.Call) and pred(x))

    def calls_at(self, nid: int, pred=None) -> List[ast.Call]:
        out = []
        for part in self.cfg.own_exprs(nid):
            for c in A.calls(part):
                if pred is None or pred(c):
                    out.append(c)
        return out


def fnctx(repo: Repo, cls: Optional[str], name: str, module: Optional[str] = None, *, inline: bool = False,
          keep: Iterable[str] = (), also: Iterable[str] = (), lower_comps: bool = False, depth: int = 3) -> FnCtx:
    """CFG context of a function *after normalisation* (xsa.normalize): private helpers inlined, conditional
    expressions lowered -- so that a rule sees what the function does, however it is split into helpers.
    `keep`: helper names never inlined (the rule names them as anchors); `also`: public names to inline too."""
    if cls:
        c = repo.cls(cls)
        fn = repo.method(cls, name)
        mod = c.module
    else:
        c = None
        mod = repo.module(module)
        fn = repo.function(module, name)
    if not inline:
        return FnCtx(mod, c, fn)
    nz = Normalizer(make_resolver(repo, mod, also=set(also)), cls=c, keep=set(keep), depth=depth, lower_comps=lower_comps)
    nz.records = S._namedtuples_of(mod)
    nz.module_consts = mod.consts
    try:
        fn2 = nz.run(fn)
    except RecursionError:
        raise AnalysisError(f"normalisation of {name} did not terminate")
    cx = FnCtx(mod, c, fn2)
    cx.orig_fn = fn
    cx.inlined = list(nz.inlined)
    cx.opaque = list(nz.opaque)
    return cx


def is_self_call(c: ast.Call, meth: Optional[str] = None, selfname="self") -> bool:
    return (isinstance(c.func, ast.Attribute) and isinstance(c.func.value, ast.Name)
            and c.func.value.id == selfname and (meth is None or c.func.attr == meth))


def is_method_call(c: ast.Call, meth: str, recv: Optional[str] = None) -> bool:
    if not (isinstance(c.func, ast.Attribute) and c.func.attr == meth):
        return False
    return recv is None or A.dotted(c.func.value) == recv


def test_is_none(test, name: str) -> bool:
    """`name is None`"""
    p = A.compare_parts(test)
    return bool(p and isinstance(p[1], ast.Is) and A.dotted(p[0]) == name and A.is_none(p[2]))


def test_is_not_none(test, name: str) -> bool:
    p = A.compare_parts(test)
    return bool(p and isinstance(p[1], ast.IsNot) and A.dotted(p[0]) == name and A.is_none(p[2]))


def guard_desc(cfg: CFG, nid: int) -> List[str]:
    return [f"{g.kind}({A.src(g.ast) if not isinstance(g.ast, ast.For) else 'for ' + A.src(g.ast.target) + ' in ' + A.src(g.ast.iter)})"
            for g in cfg.guards(nid)]


def has_guard(cfg: CFG, nid: int, branch: str, pred: Callable[[ast.AST], bool]) -> bool:
    for g in cfg.guards(nid):
        if g.kind == branch and g.ast is not None and not isinstance(g.ast, (ast.For,)) and pred(g.ast):
            return True
    return False


def self_attr_stores(fn, selfname="self"):
    """(attr, stmt) for every `self.attr = ...` / aug / del in fn (nested defs excluded)."""
    out = []
    for n in A.walk(fn):
        targets = []
        if isinstance(n, ast.Assign):
            targets = n.targets
        elif isinstance(n, (ast.AugAssign, ast.AnnAssign)):
            targets = [n.target]
        elif isinstance(n, ast.Delete):
            targets = n.targets
        elif isinstance(n, (ast.For,)):
            targets = [n.target]
        elif isinstance(n, ast.Call) and A.call_name(n) in ("setattr", "object.__setattr__") and len(n.args) >= 2:
            if isinstance(n.args[0], ast.Name) and n.args[0].id == selfname:
                a = n.args[1]
                out.append((a.value if isinstance(a, ast.Constant) else "*", n))
            continue
        for t in targets:
            for e in (t.elts if isinstance(t, (ast.Tuple, ast.List)) else [t]):
                a = A.self_attr(e, selfname)
                if a:
                    out.append((a, n))
    return out


def loop_free_of(fn_body_nodes, kinds=(ast.Break, ast.Continue, ast.Return, ast.Try)) -> List[ast.AST]:
    out = []
    for st in fn_body_nodes:
        for n in A.walk(st):
            if isinstance(n, kinds):
                out.append(n)
    return out


# ---------------------------------------------------------------------- symbolic context (xsa.sym)

from .. import sym as S  # noqa: E402


class SCtx:
    """A normalised function with its CFG, symbolic evaluator and event list."""

    def __init__(self, cx: FnCtx):
        self.cx = cx
        self.cfg = cx.cfg
        self.fn = cx.fn
        self.sym = S.Sym(cx)
        self.events = S.events(cx, self.sym)
        self._conds: Dict[int, tuple] = {}

    @property
    def qual(self):
        return self.cx.qual

    def loc(self, x) -> str:
        if isinstance(x, S.Event):
            x = x.nid
        return self.cx.loc(x)

    def P(self, i: int):
        """term of the i-th parameter (self excluded)"""
        for t in self.sym.params.values():
            if t[:1] == ("param",) and t[1] == i:
                return t
        raise AnalysisError(f"{self.qual}: no parameter #{i}")

    def pnamed(self, name: str):
        if name not in self.sym.params:
            raise AnalysisError(f"{self.qual}: no parameter `{name}`")
        return self.sym.params[name]

    def calls(self, pat=None, pred=None) -> List[tuple]:
        """(event, bindings) for call events whose term matches `pat` in *every* alternative (or satisfies pred)"""
        out = []
        for ev in self.events:
            if ev.kind != "call":
                continue
            if pat is not None:
                m = S.match(ev.term, pat)
                if m is None:
                    continue
            else:
                m = {}
            if pred is not None and not pred(ev):
                continue
            out.append((ev, m))
        return out

    def calls_some(self, pat) -> List[tuple]:
        """call events for which *some* alternative matches"""
        out = []
        for ev in self.events:
            if ev.kind == "call":
                m = S.match_some(ev.term, pat)
                if m is not None:
                    out.append((ev, m))
        return out

    def of_kind(self, kind: str) -> List[S.Event]:
        return [e for e in self.events if e.kind == kind]

    @staticmethod
    def _resolve_units(cs: list) -> list:
        """unit resolution: a known disjunction `a or b` together with the known negation of `a` gives `b`"""
        out = list(cs)
        changed = True
        while changed:
            changed = False
            known = set(out)
            for c in list(out):
                if c[:1] == ("bool",) and c[1] == "or":
                    rest = [d for d in c[2] if S.norm_cond(False, d) not in known and S.neg(d) not in known]
                    if len(rest) == 1 and len(c[2]) > 1:
                        for x in S.conjuncts(rest[0]):
                            if x not in known:
                                out.append(x)
                                changed = True
                        out.remove(c)
                        changed = True
        return out

    def conds(self, nid: int) -> tuple:
        """normalised conditions (conjuncts) that hold whenever node nid executes (if/while tests only)"""
        if nid not in self._conds:
            out = []
            for pol, t in self.sym.guards(nid):
                out.extend(S.conjuncts(S.norm_cond(pol, t)))
            self._conds[nid] = tuple(dict.fromkeys(self._resolve_units(out)))
        return self._conds[nid]

    def guarded_values(self, expr, nid: int, depth: int = 5, excl=frozenset()) -> List[tuple]:
        """[(term, conditions)] for the values `expr` may have at node nid, following plain name copies back to the
        assignments they come from, each with the conditions under which that assignment runs (path correlation that a
        bare alternative term `{a | b}` has lost).  Values refuted by a test on the way (`x is not None`,
        `x is not _SENTINEL`) are left out."""
        here = tuple(self.conds(nid))
        if isinstance(expr, ast.Name) and depth > 0:
            defs = self.cx.rd.reaching(nid, expr.id)
            if len(defs) > 1:
                # definitions that reach the use along a flag-feasible path only (`found = False; v = None` does not reach `if found: use(v)`)
                R = self.cfg.refined
                feas = [d for d in defs if d.kind == "param" or R.path_avoiding(d.nid, nid, [o.nid for o in defs if o is not d and o.kind != "param"])]
                if feas:
                    defs = feas
            if defs and all(d.kind in ("assign", "param") and d.strong for d in defs):
                out = []
                excl = frozenset(excl) | frozenset(self.sym._known_not(expr.id, nid))
                for d in defs:
                    if d.kind == "param":
                        out.append((self.sym.params.get(expr.id, ("param", -1, expr.id)), here))
                    else:
                        for t, cs in self.guarded_values(d.value, d.nid, depth - 1, excl):
                            out.append((t, tuple(dict.fromkeys(cs + here))))
                return out
        if isinstance(expr, ast.IfExp):
            out = []
            for arm, pol in ((expr.body, True), (expr.orelse, False)):
                c = tuple(S.conjuncts(S.norm_cond(pol, self.sym.of(expr.test, nid))))
                for t, cs in self.guarded_values(arm, nid, depth - 1, excl):
                    out.append((t, tuple(dict.fromkeys(cs + c))))
            return out
        t = self.sym.of(expr, nid)
        if t in excl:
            return []
        return [(t, here)]

    def under(self, nid: int, pat) -> bool:
        return any(S.match(c, pat) is not None for c in self.conds(nid))

    def branches(self, pat) -> List[int]:
        """branch pseudo-nodes (T/F) on which a condition matching `pat` is known to hold"""
        out = []
        for n in self.cfg.nodes.values():
            if n.kind in ("T", "F") and n.ast is not None and not isinstance(n.ast, (ast.For, ast.AsyncFor)):
                t = self.sym.of(n.ast, n.of)
                c = S.norm_cond(n.kind == "T", t)
                own = S.conjuncts(c)
                if any(S.match(x, pat) is not None for x in own):
                    out.append(n.id)
                    continue
                # what the branch adds to what is already known on the way to its test
                if any(x[:1] == ("bool",) and x[1] == "or" for x in own):
                    allc = self._resolve_units(list(self.conds(n.of)) + list(own))
                    if any(S.match(x, pat) is not None for x in allc):
                        out.append(n.id)
        return out

    def nids(self, evs) -> List[int]:
        return sorted({(e[0] if isinstance(e, tuple) else e).nid for e in evs})

    def show(self, t) -> str:
        return S.show(t)


def sctx(repo: Repo, cls: Optional[str], name: str, module: Optional[str] = None, *, keep: Iterable[str] = (),
         public: bool = False, also: Iterable[str] = (), lower_comps: bool = False, depth: int = 3) -> SCtx:
    """Symbolic context of a function after normalisation (helpers inlined except those in `keep`)."""
    if cls:
        c = repo.cls(cls)
        fn = repo.method(cls, name)
        mod = c.module
    else:
        c = None
        mod = repo.module(module)
        fn = repo.function(module, name)
    keep = set(keep) | {name}
    nz = Normalizer(make_resolver(repo, mod, private_only=not public, also=set(also)), cls=c, keep=keep, depth=depth,
                    lower_comps=lower_comps)
    nz.records = S._namedtuples_of(mod)
    nz.module_consts = mod.consts
    try:
        fn2 = nz.run(fn)
    except RecursionError:
        raise AnalysisError(f"normalisation of {name} did not terminate")
    cx = FnCtx(mod, c, fn2)
    cx.orig_fn = fn
    cx.inlined = list(nz.inlined)
    cx.opaque = list(nz.opaque)
    return SCtx(cx)


def truthiness_uses(sx: "SCtx", optional: Iterable[tuple]) -> List[str]:
    """places where the *truth value* of one of the optional terms decides something (`if x:`, `x or default`, a
    comprehension filter `if v` over a mapping of them) -- wrong wherever 0, 0.0, '' or an empty selection is a
    legitimate value and only None means "not given" """
    opt = set(optional)

    def denotes_optional(t) -> bool:
        if t in opt:
            return True
        if t[:1] in (("val",), ("elem",)):
            src = t[1]
            vals = []
            if S.is_call_of(src, ("glob", "dict")):
                vals = [v for _k, v in src[3]]
            elif src[:1] == ("dict",):
                vals = [v for _k, v in src[1]]
            elif src[:1] in (("tuple",), ("list",)):
                vals = list(src[1])
            elif src[:1] == ("acc",):
                vals = [c[3] if c[0] == "kv" else c[2] for c in src[2] if c[0] in ("kv", "one")]
            return bool(vals) and any(denotes_optional(v) for v in vals)
        if t[:1] == ("alt",):
            return any(denotes_optional(a) for a in t[1])
        return False

    def bare(t):
        while t[:1] == ("uop",) and t[1] == "not":
            t = t[2]
        return t
    found = []
    for n in sx.cfg.nodes.values():
        if n.kind == "test":
            t = sx.sym.of(n.ast, n.id)
            parts = list(t[2]) if t[:1] == ("bool",) else [t]
            for p_ in parts:
                if denotes_optional(bare(p_)):
                    found.append(f"{sx.loc(n.id)}: `{S.show(p_, False)[:60]}` tested by truth value")
    for ev in sx.events:
        for tm in ([ev.term] if ev.kind == "call" else [x for x in (ev.value,) if x is not None]):
            for s_ in S.subterms(tm):
                if s_[:1] == ("acc",):
                    for c in s_[2]:
                        for pol, g in (c[1] if c[0] != "reorder" else ()):
                            if denotes_optional(bare(g)):
                                found.append(f"{sx.loc(ev)}: filter `{S.show(g, False)[:60]}` by truth value")
                elif s_[:1] == ("bool",) and s_[1] == "or" and len(s_[2]) >= 2 and denotes_optional(s_[2][0]):
                    found.append(f"{sx.loc(ev)}: `{S.show(s_, False)[:70]}` substitutes the default for every falsy value")
    return list(dict.fromkeys(found))


def shared(col: Collector, rule: str, fns, select=None, why: str = ""):
    """Run rule functions of another property into a scratch collector and adopt their obligations under `rule`.

    A property adopts a sibling's obligation only where that obligation is a genuine necessary condition of it
    (the reason is given as `why` and ends up in the obligation text).  `select(ob)` restricts what is adopted;
    informational notes are not adopted.  Returns the adopted obligations."""
    sub = Collector(col.repo, col.prop, col.tier)
    for fn in (fns if isinstance(fns, (list, tuple)) else [fns]):
        fn(sub)
    out = []
    for o in sub.obs:
        if o.note or (select is not None and not select(o)):
            continue
        o.facts = (o.facts + " " if o.facts else "") + f"[shared from {o.rule}" + (f": {why}" if why else "") + "]"
        o.rule = rule
        col.obs.append(o)
        out.append(o)
    return out


def construct_tag(o) -> str:
    return o.construct.split("#", 1)[1] if "#" in o.construct else o.construct



def init_attribute_table(repo: Repo, cls: str) -> dict:
    """attribute name -> value expression for everything the constructor of `cls` sets on the new instance, read off the *normal
    form* of __init__ (helpers dissolved): plain `self.x = v`, `object.__setattr__(self, "x", v)` / `setattr`, and a table of
    initial attributes `{"x": v, ..}` applied in a loop (however the table reaches the loop: a local, keywords collected by a helper)."""
    try:
        fn = sctx(repo, cls, "__init__").cx.fn
    except (AnalysisError, NotImplementedError, KeyError):
        fn = repo.method(cls, "__init__")
    out = {}
    for n in ast.walk(fn):
        if isinstance(n, (ast.Assign, ast.AnnAssign)):
            for t in (n.targets if isinstance(n, ast.Assign) else [n.target]):
                a = A.self_attr(t)
                if a and n.value is not None:
                    out.setdefault(a, n.value)
        if isinstance(n, ast.Call) and A.call_name(n) in ("object.__setattr__", "setattr") and len(n.args) == 3 and A.dotted(n.args[0]) == "self" \
                and isinstance(n.args[1], ast.Constant) and isinstance(n.args[1].value, str):
            out.setdefault(n.args[1].value, n.args[2])
        if isinstance(n, ast.Dict) and len(n.keys) >= 2 and all(isinstance(k, ast.Constant) and isinstance(k.value, str) and k.value.isidentifier()
                                                                  for k in n.keys):
            for k, v in zip(n.keys, n.values):
                out.setdefault(k.value, v)
    return out
