"""Helpers shared by the per-property rule modules."""
from __future__ import annotations

import ast
from typing import Callable, Dict, Iterable, List, Optional, Set

from .. import astutil as A
from ..cfg import CFG
from ..core import AnalysisError, ClassInfo, Collector, Repo
from ..dataflow import ReachingDefs, Def

INDEX_ATTRS = ("rdeps", "rtasks", "deptasks", "tartasks")
DEF_ATTRS = ("tasks",) + INDEX_ATTRS


def qn(cls: Optional[str], fn) -> str:
    return f"{cls}.{fn.name}" if cls else fn.name


class FnCtx:
    """CFG + reaching definitions of one function, built lazily."""

    def __init__(self, module, cls: Optional[ClassInfo], fn):
        self.module = module
        self.cls = cls
        self.fn = fn
        try:
            self.cfg = CFG(fn)
        except NotImplementedError as e:
            raise AnalysisError(f"unsupported statement in {self.qual}: {e}")
        self._rd = None

    @property
    def qual(self):
        return f"{self.cls.name}.{self.fn.name}" if self.cls else self.fn.name

    @property
    def rd(self) -> ReachingDefs:
        if self._rd is None:
            self._rd = ReachingDefs(self.cfg)
        return self._rd

    def loc(self, node) -> str:
        if isinstance(node, int):
            node = self.cfg.nodes[node].ast
        return self.module.loc(node) if node is not None else self.module.loc(self.fn)

    def resolve(self, expr, at: int, depth: int = 4):
        """Follow a local Name to its unique strong reaching definition (transitively)."""
        seen = 0
        while isinstance(expr, ast.Name) and seen < depth:
            ds = self.rd.reaching(at, expr.id)
            strong = [d for d in ds if d.kind == "assign"]
            if len(ds) == 1 and len(strong) == 1:
                at = strong[0].nid
                expr = strong[0].value
                seen += 1
            else:
                break
        return expr

    def defs(self, name: str, at: int) -> List[Def]:
        return self.rd.reaching(at, name)

    def call_nodes(self, pred: Callable[[ast.Call], bool]) -> List[int]:
        return self.cfg.find(lambda x: isinstance(x, ast.Call) and pred(x))

    def calls_at(self, nid: int, pred=None) -> List[ast.Call]:
        out = []
        for part in self.cfg.own_exprs(nid):
            for c in A.calls(part):
                if pred is None or pred(c):
                    out.append(c)
        return out


def fnctx(repo: Repo, cls: Optional[str], name: str, module: Optional[str] = None) -> FnCtx:
    if cls:
        c = repo.cls(cls)
        fn = repo.method(cls, name)
        return FnCtx(c.module, c, fn)
    m = repo.module(module)
    return FnCtx(m, None, repo.function(module, name))


def is_self_call(c: ast.Call, meth: Optional[str] = None, selfname="self") -> bool:
    return (isinstance(c.func, ast.Attribute) and isinstance(c.func.value, ast.Name)
            and c.func.value.id == selfname and (meth is None or c.func.attr == meth))


def is_method_call(c: ast.Call, meth: str, recv: Optional[str] = None) -> bool:
    if not (isinstance(c.func, ast.Attribute) and c.func.attr == meth):
        return False
    return recv is None or A.dotted(c.func.value) == recv


def test_is_none(test, name: str) -> bool:
    """`name is None`"""
    p = A.compare_parts(test)
    return bool(p and isinstance(p[1], ast.Is) and A.dotted(p[0]) == name and A.is_none(p[2]))


def test_is_not_none(test, name: str) -> bool:
    p = A.compare_parts(test)
    return bool(p and isinstance(p[1], ast.IsNot) and A.dotted(p[0]) == name and A.is_none(p[2]))


def guard_desc(cfg: CFG, nid: int) -> List[str]:
    return [f"{g.kind}({A.src(g.ast) if not isinstance(g.ast, ast.For) else 'for ' + A.src(g.ast.target) + ' in ' + A.src(g.ast.iter)})"
            for g in cfg.guards(nid)]


def has_guard(cfg: CFG, nid: int, branch: str, pred: Callable[[ast.AST], bool]) -> bool:
    for g in cfg.guards(nid):
        if g.kind == branch and g.ast is not None and not isinstance(g.ast, (ast.For,)) and pred(g.ast):
            return True
    return False


def self_attr_stores(fn, selfname="self"):
    """(attr, stmt) for every `self.attr = ...` / aug / del in fn (nested defs excluded)."""
    out = []
    for n in A.walk(fn):
        targets = []
        if isinstance(n, ast.Assign):
            targets = n.targets
        elif isinstance(n, (ast.AugAssign, ast.AnnAssign)):
            targets = [n.target]
        elif isinstance(n, ast.Delete):
            targets = n.targets
        elif isinstance(n, (ast.For,)):
            targets = [n.target]
        elif isinstance(n, ast.Call) and A.call_name(n) in ("setattr", "object.__setattr__") and len(n.args) >= 2:
            if isinstance(n.args[0], ast.Name) and n.args[0].id == selfname:
                a = n.args[1]
                out.append((a.value if isinstance(a, ast.Constant) else "*", n))
            continue
        for t in targets:
            for e in (t.elts if isinstance(t, (ast.Tuple, ast.List)) else [t]):
                a = A.self_attr(e, selfname)
                if a:
                    out.append((a, n))
    return out


def loop_free_of(fn_body_nodes, kinds=(ast.Break, ast.Continue, ast.Return, ast.Try)) -> List[ast.AST]:
    out = []
    for st in fn_body_nodes:
        for n in A.walk(st):
            if isinstance(n, kinds):
                out.append(n)
    return out
