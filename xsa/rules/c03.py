"""C03 -- removing or replacing a definition leaves no trace."""
from __future__ import annotations

import ast

from .. import astutil as A
from ..core import AnalysisError, Collector
from ..effects import Summarizer, loops_closed
from .common import DEF_ATTRS, INDEX_ATTRS, fnctx, has_guard, is_self_call, is_method_call, self_attr_stores
from . import c01, c02

PROP = "C03"
FLOORS = {"C03.R1": 7, "C03.R2": 2, "C03.R3": 4, "C03.R4": 2, "C03.R5": 3}
META = {
    "explanation": "register and unregister are summarised into symbolic index effects (index, key origin, value origin, +/-) and "
                   "compared as inverses including multiplicity (same loop origins); every re-definition path unregisters first; "
                   "the lists of indices handled by __init__/refresh/cleanup/copy/verify agree; clone/refresh rebuild only through "
                   "register; the RefCount multiset has increment/decrement/delete-at-one semantics.",
    "decides": "unregister undoes exactly what register did (structurally), on every index, with matching multiplicity",
    "not_decided": "behavioural equality with a fresh manager on all histories",
    "assumptions": ["task.targets / task.dependencies are not mutated between register and unregister"],
}


def unregister_summary(col):
    cx = fnctx(col.repo, "Manager", "unregister")
    P = A.params(cx.fn)
    if len(P) != 2:
        raise AnalysisError("Manager.unregister: expected (self, taskid)")
    return cx, Summarizer(cx.fn, set(DEF_ATTRS), None, P[1])


def _inverse(col, rule="C03.R1"):
    rcx, reg = c02.register_summary(col)
    ucx, unr = unregister_summary(col)
    q = "Manager.unregister"
    adds = [e for e in reg.effects if e.op in ("+", "set")]
    removes = [e for e in unr.effects if e.op == "-"]
    delkeys = [e for e in unr.effects if e.op == "delkey"]
    used = set()
    for a in adds:
        match = [r for r in removes if r.triple() == a.triple() or (a.op == "set" and False)]
        covered_by_del = [d for d in delkeys if d.index == a.index and d.key == a.key and a.key == "TASKID"]
        ok = False
        facts = ""
        if match:
            r = match[0]
            used.add(id(r))
            same_mult = set(r.loops) == set(a.loops)
            guard_ok = r.guard in ("", "member")
            ok = same_mult and guard_ok and len(match) == 1
            facts = f"{r.short()} loops={r.loops} guard={r.guard or '-'} (register: loops={a.loops})"
            if len(match) > 1:
                facts += f"; removed {len(match)} times"
        elif covered_by_del:
            d = covered_by_del[0]
            used.add(id(d))
            ok = d.guard in ("", "haskey") and not d.loops
            facts = f"covered by {d.short()} guard={d.guard or '-'}"
        else:
            facts = f"no inverse among: {[e.short() for e in unr.effects]}"
        col.add(rule, f"{q}#undo:{a.short()}", ok, f"{ucx.module.rel}:{(match or covered_by_del or [a])[0].line}" if (match or covered_by_del) else ucx.loc(ucx.fn),
                f"unregister undoes `{a.short()}` of register with the same key/value origins and multiplicity", facts)
    stray = [e for e in unr.effects if id(e) not in used and e.op in ("-", "delkey", "clear", "?", "set", "rebind", "+")]
    col.add(rule, f"{q}#no-removal-without-addition", not stray and not unr.unknown, ucx.loc(ucx.fn),
            "unregister has no index effect that is not the inverse of an effect of register",
            f"stray: {[e.short() for e in stray]} unrecognised: {unr.unknown}")
    # the removal of the producer-side edges relies on tartasks still holding the producers: reads of tartasks[dep]
    # must not be preceded by the removal of the task from tartasks of the same key family -- not an issue unless dep is
    # a target of the same task; recorded as information only.
    col.info["register_effects"] = [e.short() for e in reg.effects]
    col.info["unregister_effects"] = [e.short() for e in unr.effects]
    # the task removed is looked up from self.tasks[taskid]
    tp = A.params(ucx.fn)[1]
    src_ok = any(isinstance(n, ast.Assign) and isinstance(n.value, ast.Subscript) and A.dotted(n.value.value) == "self.tasks"
                 and A.dotted(n.value.slice) == tp for n in A.walk(ucx.fn))
    col.add(rule, f"{q}#task-from-tasks", src_ok, ucx.loc(ucx.fn),
            "the targets/dependencies undone are those of the registered task self.tasks[taskid]", "")


def _redefinition(col, rule="C03.R2"):
    # set_value: reuse the C01.R1 obligation, attributed to C03.R2
    sub = Collector(col.repo, "C03", col.tier)
    c01._set_value_protocol(sub, rule="C01.R1", only="C03")
    for o in sub.obs:
        if o.rule == "C03.R2":
            col.obs.append(o)
    # load
    cx = fnctx(col.repo, "Manager", "load")
    cfg = cx.cfg
    q = "Manager.load"
    R = cx.call_nodes(lambda c: is_self_call(c, "register"))
    U = cx.call_nodes(lambda c: is_self_call(c, "unregister"))
    if not R:
        col.fail(rule, f"{q}#register", cx.loc(cx.fn), "load registers the loaded tasks", "no register call")
        return
    for r in R:
        c = cx.calls_at(r, lambda c: is_self_call(c, "register"))[0]
        t = cx.resolve(c.args[0], r) if c.args else None
        lhs = A.dotted(t.args[0]) if isinstance(t, ast.Call) and A.call_name(t) == "ExprTask" and t.args else None
        if lhs is None:
            col.fail(rule, f"{q}#registers-ExprTask", cx.loc(r), "load registers ExprTask(lhs, rhs)", A.src(c))
            continue

        def in_tasks(tst):
            p = A.compare_parts(tst)
            return bool(p and isinstance(p[1], ast.In) and A.dotted(p[0]) == lhs and A.dotted(p[2]) == "self.tasks")
        tests = [n.id for n in cfg.nodes.values() if n.kind == "test" and in_tasks(n.ast)]
        ok = bool(tests)
        facts = ""
        for t_ in tests:
            tb = [n.id for n in cfg.nodes.values() if n.kind == "T" and n.of == t_][0]
            good_u = [u for u in U if A.dotted(cx.calls_at(u, lambda c: is_self_call(c, "unregister"))[0].args[0]) == lhs]
            headers = [g.of for g in cfg.guards(r) if g.kind == "T" and isinstance(g.ast, ast.For)]
            if cfg.path_avoiding(tb, r, good_u + headers):  # within one iteration of the loop over the dump
                ok = False
                facts = "an existing definition can reach register(task) without unregister(lhs)"
            if not cfg.dominates(t_, r):
                ok = False
                facts = "register(task) is reachable without the `lhs in self.tasks` test"
        if not tests:
            facts = "no `lhs in self.tasks` test"
        col.add(rule, f"{q}#unregister-existing-definition", ok, cx.loc(r),
                "load registers a task for an already defined target only after unregistering it (or skips it)", facts)
        # overwrite=False keeps existing: the skip is under `not overwrite`/else of overwrite and inside `lhs in self.tasks`
        conts = [n.id for n in cfg.nodes.values() if n.kind == "stmt" and isinstance(n.ast, ast.Continue)]
        okc = True
        factc = ""
        for cn in conts:
            g_in = has_guard(cfg, cn, "T", in_tasks)
            g_ow = has_guard(cfg, cn, "F", lambda t: A.dotted(t) == "overwrite") or \
                has_guard(cfg, cn, "T", lambda t: isinstance(t, ast.UnaryOp) and isinstance(t.op, ast.Not) and A.dotted(t.operand) == "overwrite")
            if not (g_in and g_ow):
                okc = False
                factc = f"`continue` guarded by {[g.kind + ':' + A.src(g.ast)[:30] for g in cfg.guards(cn) if not isinstance(g.ast, ast.For)]}"
        for u in U:
            if not (has_guard(cfg, u, "T", in_tasks) and has_guard(cfg, u, "T", lambda t: A.dotted(t) == "overwrite")):
                okc = False
                factc = "unregister not under `lhs in self.tasks and overwrite`"
        col.add("C11.R5" if col.prop == "C11" else rule, f"{q}#overwrite-flag", okc, cx.loc(r),
                "an entry is skipped only if its target is currently defined and overwrite is False; it is replaced only if "
                "defined and overwrite is True", factc)


def _index_lists(col, rule="C03.R3"):
    repo = col.repo
    mg = repo.cls("Manager")
    init = {a for a, n in self_attr_stores(repo.method("Manager", "__init__")) if a in INDEX_ATTRS}
    col.add(rule, "Manager.__init__#indices", init == set(INDEX_ATTRS), mg.module.loc(repo.method("Manager", "__init__")),
            "all four reverse indices are created by __init__", f"{sorted(init)}")
    fn = repo.method("Manager", "refresh")
    rs = {a for a, n in self_attr_stores(fn) if a in INDEX_ATTRS}
    col.add(rule, "Manager.refresh#indices", rs == set(INDEX_ATTRS), mg.module.loc(fn),
            "refresh resets every index it then rebuilds (all four)", f"{sorted(rs)}")
    for a, n in self_attr_stores(fn):
        if a in INDEX_ATTRS and isinstance(n, ast.Assign):
            v = n.value
            ok = isinstance(v, ast.Call) and A.call_name(v) == "defaultdict" and len(v.args) == 1 and A.dotted(v.args[0]) == "RefCount"
            if not ok:
                col.fail(rule, f"Manager.refresh#{a}-fresh", mg.module.loc(n), "refresh resets an index to an empty defaultdict(RefCount)", A.src(v))
    fn = repo.method("Manager", "cleanup")
    swept = set()
    for f in (n for n in A.walk(fn) if isinstance(n, ast.For)):
        it = f.iter
        elts = it.elts if isinstance(it, (ast.Tuple, ast.List)) else []
        swept |= {A.self_attr(e) for e in elts if A.self_attr(e)}
    col.add(rule, "Manager.cleanup#indices", swept == set(INDEX_ATTRS), mg.module.loc(fn),
            "cleanup sweeps all four indices (verify compares supports after cleanup)", f"{sorted(swept)}")
    dels = [n for n in A.walk(fn) if isinstance(n, ast.Delete)]
    cx = fnctx(repo, "Manager", "cleanup")
    okd = bool(dels)
    for d in dels:
        nid = cx.cfg.node_of(d)
        def empty_test(t):
            p = A.compare_parts(t)
            return bool(p and isinstance(p[1], ast.Eq) and isinstance(p[0], ast.Call) and A.call_name(p[0]) == "len" and A.is_const(p[2], 0)) \
                or (isinstance(t, ast.UnaryOp) and isinstance(t.op, ast.Not))
        if not has_guard(cx.cfg, nid, "T", empty_test):
            okd = False
    col.add(rule, "Manager.cleanup#only-empty-entries", okd, mg.module.loc(fn),
            "cleanup deletes only entries that are empty", "")
    fn = repo.method("Manager", "verify")
    dfl = A.param_defaults(fn).get("dcts")
    names = {A.const(e) for e in dfl.elts} if isinstance(dfl, (ast.Tuple, ast.List)) else set()
    col.add(rule, "Manager.verify#default-indices", names == set(INDEX_ATTRS), mg.module.loc(fn),
            "verify checks all four indices by default", f"{sorted(map(str, names))}")


def _rebuild(col, rule="C03.R4"):
    repo = col.repo
    for name in ("clone", "refresh"):
        cx = fnctx(repo, "Manager", name)
        recv = "other" if name == "clone" else "self"
        regs = cx.call_nodes(lambda c: is_method_call(c, "register"))
        ok = len(regs) == 1
        facts = ""
        if ok:
            loops = [g for g in cx.cfg.guards(regs[0]) if g.kind == "T" and isinstance(g.ast, ast.For)]
            conds = [g for g in cx.cfg.guards(regs[0]) if not isinstance(g.ast, ast.For)
                     and "_tree_frozen" not in A.src(g.ast)]
            c = cx.calls_at(regs[0], lambda c: is_method_call(c, "register"))[0]
            ok = len(loops) == 1 and A.src(loops[0].ast.iter) in ("self.tasks.values()", "list(self.tasks.values())") \
                and [A.dotted(a) for a in c.args] == A.target_names(loops[0].ast.target) and not conds
            facts = f"for {A.src(loops[0].ast.target)} in {A.src(loops[0].ast.iter)}: {A.src(c)}" if loops else "not in a loop"
        col.add(rule, f"Manager.{name}#rebuild-through-register", ok, cx.loc(regs[0]) if regs else cx.loc(cx.fn),
                f"{name} rebuilds the indices by registering every task of self.tasks (unconditionally)", facts)
        # no hand-written index writes besides the reset
        s = Summarizer(cx.fn, set(DEF_ATTRS), None, None)
        hand = [e for e in s.effects if e.op != "rebind"]
        col.add(rule, f"Manager.{name}#no-hand-written-index-writes", not hand, cx.loc(cx.fn),
                f"{name} performs no index writes of its own", f"{[e.short() for e in hand]}")


def _refcount(col, rule="C03.R5"):
    repo = col.repo
    rc = repo.cls("RefCount")
    m = rc.module
    # append: self[item] = self.get(item, 0) + 1
    fn = repo.method("RefCount", "append")
    it = A.params(fn)[1]
    ok = False
    for n in A.walk(fn):
        if isinstance(n, ast.Assign) and isinstance(n.targets[0], ast.Subscript) and A.dotted(n.targets[0].value) == "self" \
                and A.dotted(n.targets[0].slice) == it and isinstance(n.value, ast.BinOp) and isinstance(n.value.op, ast.Add):
            sides = [n.value.left, n.value.right]
            one = [s for s in sides if A.is_const(s, 1)]
            get = [s for s in sides if isinstance(s, ast.Call) and is_method_call(s, "get", "self") and len(s.args) == 2
                   and A.dotted(s.args[0]) == it and A.is_const(s.args[1], 0)]
            ok = len(one) == 1 and len(get) == 1
    col.add(rule, "RefCount.append#increment", ok, m.loc(fn), "append increments the count of the item (absent = 0)", A.src(fn.body[-1]))
    # extend: append each
    fn = repo.method("RefCount", "extend")
    op = A.params(fn)[1]
    ok = False
    for f in (n for n in A.walk(fn) if isinstance(n, ast.For)):
        if A.dotted(f.iter) == op:
            cs = [c for c in A.calls(f) if is_self_call(c, "append") and [A.dotted(a) for a in c.args] == A.target_names(f.target)]
            ok = len(cs) == 1 and not [n for n in A.walk(f) if isinstance(n, (ast.If, ast.Break, ast.Continue))]
    col.add(rule, "RefCount.extend#append-each", ok, m.loc(fn), "extend appends every element (multiplicity preserved)", "")
    # remove
    cx = fnctx(repo, "RefCount", "remove")
    it = A.params(cx.fn)[1]
    cfg = cx.cfg
    dels = [n.id for n in cfg.nodes.values() if n.kind == "stmt" and isinstance(n.ast, ast.Delete)
            and A.src(n.ast.targets[0]) == f"self[{it}]"]
    decs = [n.id for n in cfg.nodes.values() if n.kind == "stmt" and isinstance(n.ast, (ast.Assign, ast.AugAssign))
            and A.src(n.ast.targets[0] if isinstance(n.ast, ast.Assign) else n.ast.target) == f"self[{it}]"]
    ok = len(dels) == 1 and len(decs) == 1
    facts = ""
    if ok:
        def cmp_kind(t):
            """'gt1' if test means count > 1, 'le1' if means count <= 1"""
            p = A.compare_parts(t)
            if not p:
                return None
            l, o, r = p
            cnt = cx.resolve(l, dels[0])
            if not (A.src(cnt) == f"self[{it}]" or A.src(l) == f"self[{it}]"):
                return None
            v = A.const(r)
            if (isinstance(o, ast.Gt) and v == 1) or (isinstance(o, ast.GtE) and v == 2):
                return "gt1"
            if (isinstance(o, ast.LtE) and v == 1) or (isinstance(o, ast.Lt) and v == 2) or (isinstance(o, ast.Eq) and v == 1):
                return "le1"
            return "other"
        gd = [(g.kind, cmp_kind(g.ast)) for g in cfg.guards(dels[0])]
        gc = [(g.kind, cmp_kind(g.ast)) for g in cfg.guards(decs[0])]
        ok = (("F", "gt1") in gd or ("T", "le1") in gd) and (("T", "gt1") in gc or ("F", "le1") in gc) and len(gd) == 1 and len(gc) == 1
        n = cfg.nodes[decs[0]].ast
        if isinstance(n, ast.Assign):
            v = n.value
            ok = ok and isinstance(v, ast.BinOp) and isinstance(v.op, ast.Sub) and A.is_const(v.right, 1)
        else:
            ok = ok and isinstance(n.op, ast.Sub) and A.is_const(n.value, 1)
        facts = f"delete guarded by {gd}; decrement guarded by {gc}"
    col.add(rule, "RefCount.remove#decrement-or-delete-at-one", ok, cx.loc(cx.fn),
            "remove decrements a count above one and deletes the entry when the count is one", facts)


def check(col: Collector):
    _inverse(col)
    _redefinition(col)
    _index_lists(col)
    _rebuild(col)
    _refcount(col)
