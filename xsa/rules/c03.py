"""C03 -- removing or replacing a definition leaves no trace."""
from __future__ import annotations

import ast

from .. import astutil as A
from .. import sym as S
from ..core import AnalysisError, Collector
from .common import INDEX_ATTRS, SCtx, sctx
from . import c01, c02
from .indexfx import index_effects

PROP = "C03"
FLOORS = {"C03.R1": 7, "C03.R2": 4, "C03.R3": 4, "C03.R4": 4, "C03.R5": 3, "C03.R6": 1, "C03.R7": 4}
META = {
    "explanation": "register and unregister are summarised into symbolic index effects (index, key term, value term, +/-, "
                   "iteration space) and compared as inverses including multiplicity; every re-definition path (set_value, load) "
                   "unregisters first; the reaction to an assignment is computed from the current indices on every call (no "
                   "memoised schedule); the lists of indices handled by __init__/refresh/cleanup/verify agree; clone/refresh "
                   "rebuild only through register; the RefCount multiset has increment / decrement / delete-at-one semantics.",
    "decides": "unregister undoes exactly what register did (structurally), on every index, with matching multiplicity",
    "not_decided": "behavioural equality with a fresh manager on all histories",
    "assumptions": ["task.targets / task.dependencies are not mutated between register and unregister"],
}


def _inverse(col, rule="C03.R1"):
    usx, reg, unr = c02.inverse_effects(col, rule)
    col.info["register_effects"] = [e.short() for e in reg]
    col.info["unregister_effects"] = [e.short() for e in unr]


def load_protocol(col, rule="C03.R2", flag_rule=None):
    sx = sctx(col.repo, "Manager", "load", public=True, keep=c01.ANCHORS)
    cfg = sx.cfg
    q = "Manager.load"
    R = sx.calls_some(S.mcall(S.SELF, "register", S.V("t")))
    U = sx.calls_some(S.mcall(S.SELF, "unregister", S.V("x")))
    if not R:
        raise AnalysisError(f"{q}: no call of self.register -- cannot decide")
    ow = sx.pnamed("overwrite") if "overwrite" in sx.sym.params else None
    all_reg = [e.nid for e, _ in R]
    for ev, m in R:
        mt = S.match(m["t"], S.fcall("ExprTask", S.V("lhs"), S.V("rhs")))
        if mt is None:
            col.fail(rule, f"{q}#registers-ExprTask", sx.loc(ev), "load registers ExprTask(lhs, rhs)", S.show(ev.term))
            continue
        lhs = mt["lhs"]
        in_tasks = ("cmp", "in", lhs, S.sattr("tasks"))
        hdrs = [g.of for g in cfg.guards(ev.nid) if g.kind == "T" and isinstance(g.ast, (ast.For, ast.AsyncFor))]
        tb = [g.id for g in cfg.guards(ev.nid) if g.kind == "T" and isinstance(g.ast, (ast.For, ast.AsyncFor))]
        good_u = [u.nid for u, mu in U if mu["x"] == lhs]
        br_in = sx.branches(in_tasks)
        br_out = sx.branches(("cmp", "not in", lhs, S.sattr("tasks")))
        if not tb:
            raise AnalysisError(f"{q}: register is not inside the loop over the dump -- cannot decide")
        # on every path (within one iteration) to register(task): the old definition was unregistered, or there is none
        leak = cfg.path_avoiding(tb[0], ev.nid, good_u + br_out + hdrs)
        col.add(rule, f"{q}#unregister-existing-definition", not leak, sx.loc(ev),
                "load registers a task for an already defined target only after unregistering it (or skips it): every path to "
                "register(task) passes unregister(lhs) or a branch on which `lhs not in self.tasks` is known",
                "a path reaches register(task) with neither" if leak else "")
        # "is the target defined" is asked in the iteration that registers it: an answer computed in an earlier pass over the dump is
        # stale as soon as that pass's own entries define the same target twice
        evals = [nid_ for nid_, nd_ in cfg.nodes.items() if nd_.ast is not None and nd_.kind in ("stmt", "test") and any(
            isinstance(x, ast.Compare) and len(x.ops) == 1 and isinstance(x.ops[0], (ast.In, ast.NotIn)) and
            sx.sym.of(x.comparators[0], nid_) == S.sattr("tasks") for part in cfg.own_exprs(nid_) if part is not None for x in ast.walk(part))]
        if evals and hdrs:
            same_pass = [n_ for n_ in evals if hdrs[0] in [g.of for g in cfg.guards(n_) if g.kind == "T" and isinstance(g.ast, (ast.For, ast.AsyncFor))]]
            col.add(rule, f"{q}#definedness-asked-when-registering", bool(same_pass), sx.loc(evals[0]),
                    "whether the target already has a definition is tested in the same iteration that registers the new one",
                    "" if same_pass else "the membership test sits in another loop than register(task)")
        # the overwrite flag
        okc, factc = True, ""
        if ow is None:
            okc, factc = False, "no `overwrite` parameter"
        else:
            for u, mu in U:
                if not (sx.under(u.nid, in_tasks) and sx.under(u.nid, ow)):
                    okc, factc = False, f"unregister runs under {[S.show(c) for c in sx.conds(u.nid)]}"
            nxt = hdrs + [cfg.EXIT]
            not_ow = sx.branches(("uop", "not", ow))
            for x in nxt:
                if cfg.path_avoiding(tb[0], x, all_reg + br_in + [h for h in hdrs if h != x]) and x in cfg.reachable(tb[0], all_reg + br_in):
                    okc, factc = False, "an entry can be skipped although its target is not known to be defined"
                if cfg.path_avoiding(tb[0], x, all_reg + not_ow + [h for h in hdrs if h != x]) and x in cfg.reachable(tb[0], all_reg + not_ow):
                    okc, factc = False, "an entry can be skipped although overwrite is not known to be False"
        col.add(flag_rule or rule, f"{q}#overwrite-flag", okc, sx.loc(ev),
                "an entry is skipped only if its target is currently defined and overwrite is False; it is replaced only if "
                "defined and overwrite is True", factc)
    fx, unk = index_effects(sx)
    col.add(rule, f"{q}#no-hand-written-index-writes", not fx and not unk, sx.loc(fx[0].nid) if fx else sx.loc(sx.fn),
            "load changes definitions only through unregister/register", f"{[e.short() for e in fx]}")


def _redefinition(col, rule="C03.R2"):
    sub = Collector(col.repo, "C03", col.tier)
    c01._set_value_protocol(sub, rule="C01.R1", only="C03")
    for o in sub.obs:
        if o.rule == "C03.R2" or o.construct.endswith("#trigger-set"):
            o.rule = rule
            col.obs.append(o)
    load_protocol(col, rule)


def _self_stores(sx: SCtx):
    out = {}
    for ev in sx.of_kind("store"):
        for t in S.alts(ev.target):
            if S.is_attr(t, S.SELF):
                out.setdefault(t[2], []).append(ev)
    return out


def _index_lists(col, rule="C03.R3"):
    repo = col.repo
    fresh = S.fcall("defaultdict", ("glob", "RefCount"))
    sx = sctx(repo, "Manager", "__init__", public=True, keep=c01.ANCHORS)
    st = _self_stores(sx)
    init = {a for a in st if a in INDEX_ATTRS}
    col.add(rule, "Manager.__init__#indices", init == set(INDEX_ATTRS) and all(e.value == fresh for a in init for e in st[a]),
            sx.loc(sx.fn), "all four reverse indices are created empty (defaultdict(RefCount)) by __init__", f"{sorted(init)}")
    sx = sctx(repo, "Manager", "refresh", public=True, keep=c01.ANCHORS)
    st = _self_stores(sx)
    rs = {a for a in st if a in INDEX_ATTRS}
    col.add(rule, "Manager.refresh#indices", rs == set(INDEX_ATTRS) and all(e.value == fresh for a in rs for e in st[a]),
            sx.loc(sx.fn), "refresh resets every index it then rebuilds (all four) to an empty defaultdict(RefCount)", f"{sorted(rs)}")
    sx = sctx(repo, "Manager", "cleanup", public=True, keep=c01.ANCHORS)
    fx, unk = index_effects(sx)
    swept = {e.index for e in fx if e.op == "delkey"}
    col.add(rule, "Manager.cleanup#indices", swept == set(INDEX_ATTRS), sx.loc(sx.fn),
            "cleanup sweeps all four indices (verify compares supports after cleanup)", f"{sorted(swept)}")
    okd = bool(fx) and not unk
    facts = ""
    for e in fx:
        if e.op != "delkey":
            okd, facts = False, f"cleanup performs {e.short()}"
            continue
        # the entry deleted is empty: key = key∈D, some condition empty(val∈D) with the same D
        mk = S.match(e.key, ("key", S.V("d")))
        # `len(ss) == 0` or, for a container, `not ss`
        if not (mk and any(c in (("empty", ("val", mk["d"])), ("uop", "not", ("val", mk["d"]))) for c in e.conds)):
            okd, facts = False, f"{e.short()} under {[S.show(c, False) for c in e.conds]}"
    col.add(rule, "Manager.cleanup#only-empty-entries", okd, sx.loc(sx.fn), "cleanup deletes only entries that are empty", facts)
    fn = repo.method("Manager", "verify")
    dfl = A.param_defaults(fn).get("dcts")
    names = {A.const(e) for e in dfl.elts} if isinstance(dfl, (ast.Tuple, ast.List)) else set()
    col.add(rule, "Manager.verify#default-indices", names == set(INDEX_ATTRS), repo.cls("Manager").module.loc(fn),
            "verify checks all four indices by default", f"{sorted(map(str, names))}")


def _rebuild(col, rule="C03.R4"):
    repo = col.repo
    for name in ("clone", "refresh"):
        sx = sctx(repo, "Manager", name, public=True, keep=c01.ANCHORS)
        regs = sx.calls_some(("call", ("attr", S.V("recv"), "register"), (S.V("t"),), ()))
        if not regs:
            raise AnalysisError(f"Manager.{name}: no register call -- cannot decide")
        all_tasks = S.mcall(S.sattr("tasks"), "values")
        for ev, m in regs:
            recv_ok = m["recv"] == S.SELF if name == "refresh" else S.is_call_of(m["recv"], ("glob", "Manager"))
            t_ok = m["t"] == ("elem", all_tasks)
            conds = [c for c in sx.conds(ev.nid) if c not in (("uop", "not", S.sattr("_tree_frozen")),)]
            col.add(rule, f"Manager.{name}#rebuild-through-register", recv_ok and t_ok and not conds, sx.loc(ev),
                    f"{name} rebuilds the indices by registering every task of self.tasks (unconditionally)",
                    f"{S.show(ev.term)} under {[S.show(c) for c in conds]}")
        if name == "clone":
            # the regenerated manager knows the same containers: labels resolve in load()/copy_expr_from and in generated functions
            cont = S.sattr("containers")
            carried = [ev for ev, m in sx.calls_some(("call", ("attr", ("attr", S.V("o"), "containers"), "update"), (cont,), ()))
                       if S.is_call_of(m["o"], ("glob", "Manager"))]
            carried += [e for e in sx.of_kind("store") if e.target[:1] == ("attr",) and e.target[2] == "containers" and S.is_call_of(e.target[1], ("glob", "Manager"))
                        and any(x == cont for x in S.subterms(e.value))]
            col.add(rule, "Manager.clone#carries-the-containers", bool(carried) and all(not sx.conds(e.nid) for e in carried), sx.loc(carried[0]) if carried else sx.loc(sx.fn),
                    "the regenerated manager receives the label -> container table of the source", "")
        fx, unk = index_effects(sx)
        hand = [e for e in fx if e.op != "rebind"]
        col.add(rule, f"Manager.{name}#no-hand-written-index-writes", not hand and not unk, sx.loc(hand[0].nid) if hand else sx.loc(sx.fn),
                f"{name} performs no index writes of its own", f"{[e.short() for e in hand]}")


def _refcount(col, rule="C03.R5"):
    repo = col.repo
    # append: self[item] = self.get(item, 0) + 1
    sx = sctx(repo, "RefCount", "append")
    it = sx.P(0)
    st = [e for e in sx.of_kind("store") if e.target == ("sub", S.SELF, it)]
    want = ("op", "+", S.mcall(S.SELF, "get", it, ("const", "0")), ("const", "1"))
    ok = len(st) == 1 and S.match(st[0].value, want) is not None and sx.cfg.must_pass(sx.cfg.ENTRY, sx.cfg.EXIT, [st[0].nid])
    if not ok and len(st) == 2:
        # look-before-you-leap spelling: present -> count + 1, absent -> 1
        present, absent = ("cmp", "in", it, S.SELF), ("cmp", "not in", it, S.SELF)
        cnt_ = ("sub", S.SELF, it)
        inc = [e for e in st if present in sx.conds(e.nid) and (S.match(e.value, ("op", "+", cnt_, ("const", "1"))) is not None
                                                                 or S.match(e.value, ("aug", "+", cnt_, ("const", "1"))) is not None)]
        new = [e for e in st if absent in sx.conds(e.nid) and e.value == ("const", "1")]
        ok = len(inc) == 1 and len(new) == 1 and sx.cfg.must_pass(sx.cfg.ENTRY, sx.cfg.EXIT, [inc[0].nid, new[0].nid])
    col.add(rule, "RefCount.append#increment", ok, sx.loc(sx.fn), "append increments the count of the item (absent = 0)",
            S.show(st[0].value) if st else "no store")
    # extend: append each
    sx = sctx(repo, "RefCount", "extend", keep={"append"})
    other = sx.P(0)
    aps = sx.calls_some(S.mcall(S.SELF, "append", S.V("x")))
    ok = len(aps) == 1 and aps[0][1]["x"] == ("elem", other) and not sx.conds(aps[0][0].nid) and sx.sym.loops(aps[0][0].nid) == (other,)
    col.add(rule, "RefCount.extend#append-each", ok, sx.loc(sx.fn), "extend appends every element (multiplicity preserved)",
            S.show(aps[0][0].term) if aps else "")
    # remove
    sx = sctx(repo, "RefCount", "remove")
    it = sx.P(0)
    cnt = ("sub", S.SELF, it)
    dels = [e for e in sx.of_kind("del") if e.target == cnt]
    decs = [e for e in sx.of_kind("store") if e.target == cnt]
    ok, facts = len(dels) == 1 and len(decs) == 1, f"{len(dels)} deletions, {len(decs)} stores"
    if ok:
        gt1 = [("cmp", ">", cnt, ("const", "1")), ("cmp", ">=", cnt, ("const", "2"))]
        le1 = [("cmp", "<=", cnt, ("const", "1")), ("cmp", "<", cnt, ("const", "2")), ("cmp", "==", cnt, ("const", "1"))]
        cd, cc = sx.conds(dels[0].nid), sx.conds(decs[0].nid)
        dv = decs[0].value
        dec_ok = S.match(dv, ("op", "-", cnt, ("const", "1"))) is not None or S.match(dv, ("aug", "-", cnt, ("const", "1"))) is not None
        ok = len(cd) == 1 and cd[0] in le1 and len(cc) == 1 and cc[0] in gt1 and dec_ok
        facts = f"delete under {[S.show(c) for c in cd]}; store {S.show(dv)} under {[S.show(c) for c in cc]}"
    col.add(rule, "RefCount.remove#decrement-or-delete-at-one", ok, sx.loc(sx.fn),
            "remove decrements a count above one and deletes the entry when the count is one", facts)


def _self_check(col, rule="C03.R6"):
    """verify() compares each index entry with the regenerated one as a set / mapping, never as a sequence: the insertion
    order of a RefCount depends on the history (a decremented entry keeps its place), the regenerated one on task order"""
    sx = sctx(col.repo, "Manager", "verify", public=True, keep=c01.ANCHORS)
    raises = sx.of_kind("raise")
    if not raises:
        raise AnalysisError("Manager.verify: no raise -- cannot decide")

    def sequenced(t):
        if S.is_call_of(t) and t[1] in (("glob", "list"), ("glob", "tuple")) and len(t[2]) == 1:
            a = t[2][0]
            return not (S.is_call_of(a) and a[1] == ("glob", "sorted"))
        return False

    n = 0
    seen_cmp = set()
    # every equality test of the function (the raise may be reached through a flag or a "first mismatch" value set under the test)
    tests = [(nd.id, sx.sym.of(nd.ast, nd.id)) for nd in sx.cfg.nodes.values() if nd.kind == "test" and nd.ast is not None]
    for r in raises[:1]:
        for nid_, c in tests:
            for t in S.subterms(c):
                if t[:1] == ("cmp",) and t[1] in ("!=", "==") and len(t) == 4 and t not in seen_cmp \
                        and not any(x[:1] == ("const",) for x in (t[2], t[3])):
                    seen_cmp.add(t)
                    n += 1
                    bad = [x for x in (t[2], t[3]) if sequenced(x)]
                    col.add(rule, f"Manager.verify#order-insensitive-comparison:{n}", not bad, sx.loc(nid_),
                            "the consistency check compares an index entry with its regenerated twin as sets / mappings "
                            "(order of insertion is history, not content)",
                            f"compares {S.show(t, False)[:160]}")
    if not n:
        raise AnalysisError("Manager.verify: the raise is not guarded by a comparison -- cannot decide")


def check(col: Collector):
    with col.rule():
        _inverse(col)
    with col.rule():
        _redefinition(col)
    with col.rule():
        _index_lists(col)
    with col.rule():
        _rebuild(col)
    with col.rule():
        _refcount(col)
    with col.rule():
        _self_check(col)
    # "reacts to every later assignment exactly like a fresh manager": which tasks an assignment triggers is read off
    # deptasks alone, never off the presence of keys that depends on the history (defaultdict entries left by register,
    # swept by cleanup)
    from .common import shared
    with col.rule():
        shared(col, "C03.R7", [c01._trigger_closure], why="the trigger closure must not consult history-dependent state")
