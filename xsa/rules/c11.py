"""C11 -- printed expressions rebuild themselves: dump/load/copy_expr_from are faithful."""
from __future__ import annotations

import ast

from .. import astutil as A
from .. import pydata as PD
from ..core import AnalysisError, Collector
from ..refsmodel import ref_classes, _local_alias, resolve_local
from .. import sym as S
from .common import FnCtx, fnctx, sctx, has_guard, is_method_call, is_self_call
from . import c01, c03, c06

PROP = "C11"
FLOORS = {"C11.R1": 8, "C11.R2": 6, "C11.R3": 6, "C11.R4": 4, "C11.R5": 8, "C11.R6": 4}
META = {
    "explanation": "Every identifying field of a node is printed (repr completeness, shared with C06); every callable name a __repr__ can "
                   "print resolves in the namespace load() evaluates in (builtins + container labels); operator nodes print fully "
                   "parenthesised with operands in order and literal operands are precedence-safe; literal arguments/keys are rendered "
                   "with repr; no textual rewriting of printed forms on the copy/load path; dump emits (str(target), str(expr)) for every "
                   "ExprTask, load evaluates both sides in one namespace, builds ExprTask(lhs, rhs) and honours overwrite.",
    "decides": "completeness and re-parsability of the printed form per node class; symmetry of dump/load/copy_expr_from",
    "not_decided": "round-trip equality for all expressions and keys (value-level)",
    "assumptions": ["repr() of numeric constants and str/int keys is a Python literal that evaluates back to an equal object"],
}

LOAD_BUILTINS = set(dir(__import__("builtins")))


def _repr_complete(col, rule="C11.R1"):
    sub = Collector(col.repo, col.prop, col.tier)
    c06._same_data(sub, rule="C06.R1")
    for o in sub.obs:
        if o.construct.endswith("#hash-fields==repr-fields"):
            o.rule = rule
            o.text = "every identifying (hashed) field of the node is rendered by __repr__, so the text determines the node"
            col.obs.append(o)


def _resolvable_names(col, rule="C11.R2"):
    repo = col.repo
    base = repo.cls("BaseRef")
    m = base.module
    # how BuiltinRef prints its callable
    cx = fnctx(repo, "BuiltinRef", "__repr__")
    uses_name = any(isinstance(n, ast.Attribute) and n.attr == "__name__" for n in A.walk(cx.fn))
    if not uses_name:
        raise AnalysisError("BuiltinRef.__repr__ no longer prints op.__name__ (unrecognised shape)")
    symtab = m.consts.get("OPERATOR_SYMBOLS")
    sym_keys = {A.dotted(k) for k in symtab.keys} if isinstance(symtab, ast.Dict) else set()
    for dunder, (target, _, _) in PD.BUILTINS.items():
        if dunder not in base.methods:
            continue
        fn = base.methods[dunder]
        dsx = sctx(repo, "BaseRef", dunder)
        ops = []
        for r in dsx.of_kind("return"):
            for a in S.instances(r.value, 8):
                if S.is_call_of(a, ("glob", "BuiltinRef")) and len(a[2]) >= 2:
                    ops.append(S.show(a[2][1], False))
        for op in dict.fromkeys(ops):
            if True:
                if op in sym_keys:
                    continue
                mod, _, name = op.rpartition(".")
                resolvable = mod == "builtins" and name in LOAD_BUILTINS
                col.add(rule, f"BuiltinRef.__repr__#name:{name}", resolvable, m.loc(fn),
                        f"the name printed for {op} (`{name}(...)`) resolves in the namespace load()/eval uses (builtins + container labels)",
                        f"{op} prints as bare `{name}`" + ("" if resolvable else f", which lives in module `{mod}`, not in builtins"))
    # CallRef prints function refs through repr (a ref path) or __name__
    sx = sctx(repo, "CallRef", "__repr__")
    ok = False
    for r in sx.of_kind("return"):
        for t in S.subterms(S.norm_str(r.value)):
            if t == S.fcall("repr", S.sattr("_func")) or t == ("fmt", "!r", S.sattr("_func")):
                ok = True
    col.add(rule, "CallRef.__repr__#function-as-ref-path", ok, sx.loc(sx.fn),
            "a called function held in a container prints as its reference path", "")
    # ... exactly when it is a reference (a plain function has no path: it prints by its __name__)
    isref = S.fcall("isinstance", S.sattr("_func"), ("glob", "BaseRef"))
    for ev in sx.of_kind("call"):
        if ev.term == S.fcall("repr", S.sattr("_func")):
            cs = sx.conds(ev.nid)
            anytest = [c for c in cs for t_ in [c[2] if c[:2] == ("uop", "not") else c]
                       if S.is_call_of(t_, ("glob", "isinstance")) and t_[2][:1] == (S.sattr("_func"),)]
            if anytest:
                # ... a reference of *any* kind (the result of a call, an item of one, ..), not only a location
                col.add(rule, "CallRef.__repr__#ref-path-when-function-is-a-ref", isref in cs, sx.loc(ev),
                        "repr(self._func) is used when the function is a reference, its __name__ otherwise", str([S.show(c) for c in cs]))
    # BuiltinRef looks the operator itself up in the symbol table (falling back to its __name__)
    bx = sctx(repo, "BuiltinRef", "__repr__")
    for ev, mm in bx.calls_some(("call", ("attr", ("glob", "OPERATOR_SYMBOLS"), "get"), S.V("a"), S.ANY)):
        a = mm["a"]
        okb = len(a) == 2 and a[0] == S.sattr("_op") and a[1] == ("attr", S.sattr("_op"), "__name__")
        col.add(rule, "BuiltinRef.__repr__#symbol-looked-up-by-operator", okb, bx.loc(ev),
                "the symbol table is keyed by the operator object; the fallback is the operator's __name__", S.show(ev.term)[:80])


def _owner_by_identity_and_defaults(col, rule="C11.R5"):
    """which definitions copy_expr_from takes is decided by the *identity* of the container reference at the root of the target
    (`==` on references compares printed forms and may reach the containers' own element-wise `==`); and both loaders replace
    existing definitions unless told otherwise (the statement: 'with overwrite=False existing definitions are kept')"""
    repo = col.repo
    m = repo.module("tasks")
    fn = m.functions.get("_check_root_owner")
    if fn is None:
        # renamed / dissolved: judged where it went (the iter_expr_tasks_owner obligation names the test it expects)
        raise AnalysisError("tasks._check_root_owner not found -- cannot decide")
    sx = sctx(repo, None, "_check_root_owner", "tasks", keep={"_check_root_owner"})
    seen = set()
    for nid in sx.cfg.nodes:
        for c in sx.conds(nid):
            for t_ in S.subterms(c):
                if t_[:1] == ("cmp",) and any(x[:1] == ("attr",) and x[2] == "_owner" for x in (t_[2], t_[3])) \
                        and ("const", "None") not in (t_[2], t_[3]):
                    seen.add(t_)
    if not seen:
        raise AnalysisError("tasks._check_root_owner: no comparison of an owner found -- cannot decide")
    bad = [t_ for t_ in seen if t_[1] not in ("is", "is not")]
    col.add(rule, "_check_root_owner#owner-compared-by-identity", not bad, m.loc(fn),
            "the root container of a target is recognised by identity of the reference object", S.show(bad[0]) if bad else "", positive=bool(bad))
    for meth in ("copy_expr_from", "load"):
        f = repo.method("Manager", meth)
        d = A.param_defaults(f).get("overwrite")
        col.add(rule, f"Manager.{meth}#overwrites-by-default", d is not None and A.is_const(d, True), m.loc(f),
                "existing definitions of the same targets are replaced unless overwrite=False is given", A.src(d) if d is not None else "no such parameter")


def _precedence(col, rule="C11.R3"):
    repo = col.repo
    sub = Collector(repo, col.prop, col.tier)
    c06._injective(sub, rule="C06.R2")
    for o in sub.obs:
        if "parenthesised-in-order" in o.construct or "key-with-repr" in o.construct or "dot-step" in o.construct or "repr-of-literal" in o.construct \
                or "#label" in o.construct:
            o.rule = rule
            col.obs.append(o)
    # bare literal operand left of an operator binding tighter than unary minus
    cx = fnctx(repo, "BinOpExpr", "__repr__")
    rets = [n.value for n in A.walk(cx.fn) if isinstance(n, ast.Return)]
    protects = any(isinstance(n, (ast.If, ast.IfExp)) for n in A.walk(cx.fn))
    for c in repo.subclasses("BinOpExpr"):
        tok = A.const(repo.class_const(c, "_op_str"))
        if isinstance(tok, str) and PD.PRECEDENCE.get(tok, 0) > PD.PRECEDENCE["unary"]:
            own = "__repr__" in c.methods
            col.add(rule, f"{c.name}.__repr__#bare-left-literal", own or protects, c.module.loc(c.node),
                    f"a negative literal as left operand of `{tok}` (which binds tighter than unary minus) is parenthesised when printed",
                    "inherits BinOpExpr.__repr__, which prints `({lhs} ** {rhs})` with the literal bare: (-3) ** a prints `(-3 ** a)` "
                    "and reloads as -(3 ** a)")


def _joined_contribs(sx):
    """contributions of the list(s) that the returned text joins"""
    out = []
    for r in sx.of_kind("return"):
        for t in S.subterms(S.norm_str(r.value)):
            if S.is_call_of(t, meth="join") and t[2]:
                for a in S.alts(t[2][0]):
                    if a[:1] == ("acc",):
                        out.extend(a[2])
                    elif a[:1] == ("list",):
                        out.extend(("one", (), x) for x in a[1])
    return out


def _rendered_with_repr(t, of) -> bool:
    return t == S.fcall("repr", of) or t == ("fstr", (("fmt", "!r", of),)) or t == ("fmt", "!r", of)


def _literal_rendering(col, rule="C11.R6"):
    repo = col.repo
    cx = fnctx(repo, "CallRef", "__repr__")
    sx = sctx(repo, "CallRef", "__repr__")
    # positional arguments through repr()
    el = ("elem", S.sattr("_args"))
    ok = any(c[0] == "one" and not c[1] and _rendered_with_repr(c[2], el) for c in _joined_contribs(sx))
    col.add(rule, "CallRef.__repr__#positional-with-repr", ok, cx.loc(cx.fn),
            "positional call arguments are rendered with repr (string literals keep their quotes; refs print their path)", "")
    kw_repr = False
    for n in A.walk(cx.fn):
        if isinstance(n, (ast.ListComp, ast.GeneratorExp)) and len(n.generators) == 1 and A.self_attr(n.generators[0].iter) == "_kwargs":
            e = n.elt
            if isinstance(e, ast.JoinedStr):
                fv = [p for p in e.values if isinstance(p, ast.FormattedValue)]
                kw_repr = len(fv) == 2 and fv[1].conversion == ord("r")
    col.add(rule, "CallRef.__repr__#keywords-with-repr", kw_repr, cx.loc(cx.fn),
            "keyword argument values are rendered with repr", "rendered with str: a string keyword value loses its quotes "
            "(outside the property's quantifier, which has numeric keyword arguments only)", note=True)
    cx = fnctx(repo, "BuiltinRef", "__repr__")
    bsx = sctx(repo, "BuiltinRef", "__repr__")
    el = ("elem", S.sattr("_params"))
    ps = [c for c in _joined_contribs(bsx) if c[0] == "one" and _rendered_with_repr(c[2], el)]
    # a filter may only drop None (the 'not given' marker of round)
    ok = len(ps) == 1 and all(S.norm_cond(pol, g) == ("cmp", "is not", el, ("const", "None")) for pol, g in ps[0][1])
    col.add(rule, "BuiltinRef.__repr__#params-with-repr", ok, cx.loc(cx.fn),
            "the extra parameters of a builtin are all printed (repr), only a None 'not given' marker is omitted", "")
    cx = fnctx(repo, "BuiltinRef", "__repr__")
    col.add(rule, "BuiltinRef.__repr__#arg-printed", any(A.self_attr(n) == "_arg" for n in A.walk(cx.fn)), cx.loc(cx.fn), "the argument is printed", "")
    cx = sctx(repo, "ExprTask", "__repr__")
    rets = cx.of_kind("return")
    tps = [S.template(r.value) for r in rets]
    if not rets or any(tp is None for tp in tps):
        raise AnalysisError("ExprTask.__repr__: the returned text is not a recognisable string template (cannot decide)")
    ok = all(tp[0].replace(" ", "") == "{}={}" and [h[1] for h in tp[1]] == [S.sattr("taskid"), S.sattr("expr")]
             and all(h[0] in ("", "!s", None) for h in tp[1]) for tp in tps)
    col.add(rule, "ExprTask.__repr__#target=expr", ok, cx.loc(cx.fn), "an expression task prints as `target = expr`", str(tps[0]) if tps else "")


TEXT_OPS = {"replace", "translate", "sub", "subn", "split", "rsplit", "strip", "lstrip", "rstrip", "removeprefix", "removesuffix",
            "partition", "rpartition", "lower", "upper"}


def _no_text_rewriting(col, rule="C11.R4"):
    repo = col.repo
    for name in ("copy_expr_from", "load", "dump", "iter_expr_tasks_owner"):
        sx = sctx(repo, "Manager", name, public=True, keep=c01.ANCHORS)
        bad = []
        for ev in sx.events:
            if ev.kind != "call":
                continue
            for t in S.alts(ev.term):
                f = t[1]
                if f[:1] == ("attr",) and f[2] in TEXT_OPS:
                    bad.append(S.show(t)[:70])
                elif f[:1] == ("attr",) and f[1] == ("glob", "re"):
                    bad.append(S.show(t)[:70])
        col.add(rule, f"Manager.{name}#no-textual-rewriting", not bad, sx.loc(sx.fn),
                "printed expressions are passed on verbatim (no str.replace / regex on the text: keys may contain a container label)",
                f"{bad}")


def _dump_load(col, rule="C11.R5"):
    repo = col.repo
    # ---- dump
    sx = sctx(repo, "Manager", "dump", public=True, keep=c01.ANCHORS)
    rets = sx.of_kind("return")
    if len(rets) != 1:
        raise AnalysisError("Manager.dump: expected one return -- cannot decide")
    t_ = ("elem", S.mcall(S.sattr("tasks"), "values"))
    want_pair = ("tuple", (S.fcall("str", ("attr", t_, "taskid")), S.fcall("str", ("attr", t_, "expr"))))
    v = rets[0].value
    ok, facts = False, S.show(v)
    if v[:1] == ("acc",) and v[1] in ("list", "gen") or S.is_call_of(v, ("glob", "list")):
        acc = v if v[:1] == ("acc",) else v[2][0]
        if acc[:1] == ("acc",):
            cs = acc[2]
            ok = len(cs) == 1 and cs[0][0] == "one" and cs[0][2] == want_pair and \
                list(cs[0][1]) == [(True, S.fcall("isinstance", t_, ("glob", "ExprTask")))]
    else:
        raise AnalysisError(f"Manager.dump: unrecognised result {S.show(v)} -- cannot decide")
    col.add(rule, "Manager.dump#every-ExprTask-as-(str(target),str(expr))", ok, sx.loc(rets[0]),
            "dump emits (str(taskid), str(expr)) for every ExprTask of self.tasks, filtered by nothing else", facts)
    # ---- load
    sx = sctx(repo, "Manager", "load", public=True, keep=c01.ANCHORS)
    dump_p, dct_p = sx.P(0), sx.P(1)
    R = sx.calls_some(S.mcall(S.SELF, "register", S.V("t")))
    if not R:
        raise AnalysisError("Manager.load: no register call -- cannot decide")
    item = ("elem", dump_p)
    for ev, m in R:
        ns = S.V("ns", lambda t: all(a in (dct_p, S.sattr("containers")) for a in S.alts(t)) and dct_p in S.alts(t))
        want = S.fcall("ExprTask", S.fcall("eval", ("item", item, 0), ("dict", ()), ns), S.fcall("eval", ("item", item, 1), ("dict", ()), ns))
        mm = S.match(m["t"], want)
        col.add(rule, "Manager.load#ExprTask(lhs,rhs)", mm is not None, sx.loc(ev),
                "each pair (lhs, rhs) of the dump becomes ExprTask(eval(lhs), eval(rhs)) -- target first -- with both sides evaluated "
                "in one namespace (empty globals => builtins; locals = the container labels given, or the manager's)", S.show(m["t"]))
    from .c02 import default_only_when_none
    before = len(col.obs)
    default_only_when_none(col, rule, sx, "Manager.load", dct_p)
    if len(col.obs) == before:
        col.ok(rule, "Manager.load#default-only-when-None", sx.loc(sx.fn), "no default substitution of the namespace", "")
    # overwrite handling and unregister-before-register (shared with C03.R2)
    sub = Collector(repo, "C11", col.tier)
    c03.load_protocol(sub, rule)
    col.obs.extend(sub.obs)
    # ---- iter_expr_tasks_owner
    sx = sctx(repo, "Manager", "iter_expr_tasks_owner", public=True, keep=c01.ANCHORS | {"_check_root_owner"})
    ys = sx.of_kind("yield") + sx.of_kind("return")
    ok, facts = bool(ys), ""
    for y in ys:
        v = y.value
        mm = S.match(v, ("tuple", (S.fcall("str", ("attr", S.V("t"), "taskid")), S.fcall("str", ("attr", S.V("t"), "expr")))))
        if mm is None and v[:1] == ("acc",):
            mm = S.match(v[2][0][2] if v[2] else None, ("tuple", (S.fcall("str", ("attr", S.V("t"), "taskid")), S.fcall("str", ("attr", S.V("t"), "expr")))))
        if mm is None or mm["t"][:1] != ("elem",):
            ok, facts = False, S.show(v)
            continue
        dom = mm["t"][1]
        whole = (S.is_call_of(dom, meth="find_tasks") and dom[1][1] == S.SELF and not dom[3]
                 and (not dom[2] or dom[2] == (("const", "None"),))) or dom == S.mcall(S.sattr("tasks"), "values")
        if not whole:
            ok, facts = False, f"searched among {S.show(dom)[:120]} (not all tasks)"
        under = [c for c in sx.conds(y.nid)]
        owner_test = [c for c in under if S.is_call_of(c, ("glob", "_check_root_owner")) and len(c[2]) == 2
                      and c[2][0] == ("attr", mm["t"], "taskid") and c[2][1] == sx.P(0)]
        if len(owner_test) != 1 or len(under) != 1:
            ok, facts = False, f"yielded under {[S.show(c) for c in under]} (expected exactly: the task's target lies under the container)"
    col.add(rule, "Manager.iter_expr_tasks_owner#yields-(str(target),str(expr))", ok, sx.loc(sx.fn),
            "the definitions copied are (str(taskid), str(expr)) of the tasks under the container", facts)
    # ---- copy_expr_from
    sx = sctx(repo, "Manager", "copy_expr_from", public=True, keep=c01.ANCHORS)
    mgr, name = sx.P(0), sx.P(1)
    binds, ow = sx.pnamed("bindings"), sx.pnamed("overwrite")
    loads = sx.calls_some(("call", ("attr", S.SELF, "load"), S.V("a"), S.V("k")))
    if len(loads) != 1:
        raise AnalysisError("Manager.copy_expr_from: expected one self.load(...) -- cannot decide")
    ev, m = loads[0]
    args, kws = list(m["a"]), dict(m["k"])
    src = args[0] if args else kws.get("dump")
    ns = args[1] if len(args) > 1 else kws.get("dct")
    owa = args[2] if len(args) > 2 else kws.get("overwrite")
    it = S.mcall(mgr, "iter_expr_tasks_owner", ("sub", ("attr", mgr, "containers"), name))
    src_ok = src is not None and (src == it or src == S.fcall("list", it) or
                                  (src[:1] == ("acc",) and len(src[2]) == 1 and src[2][0][0] == "many" and src[2][0][2] == it and not src[2][0][1]))
    raises = [e for e in sx.of_kind("raise")]
    pre = [e for e in raises if sx.cfg.path_avoiding(sx.cfg.ENTRY, e.nid, [ev.nid])]
    col.add(rule, "Manager.copy_expr_from#copy-not-refused-beforehand", not pre and sx.cfg.must_pass(sx.cfg.ENTRY, sx.cfg.EXIT, [ev.nid]),
            sx.loc(pre[0]) if pre else sx.loc(ev),
            "every normal path reaches self.load(...) and nothing refuses the copy before it (what the printed text may contain is for "
            "load() -- i.e. Python's own evaluation -- to say)", f"raise at {[sx.loc(e) for e in pre]}" if pre else "")
    col.add(rule, "Manager.copy_expr_from#loads-source-definitions-verbatim", src_ok and owa == ow, sx.loc(ev),
            "copy_expr_from loads exactly the source manager's printed definitions, forwarding overwrite", S.show(ev.term)[:200])
    okb, factb = False, S.show(ns) if ns is not None else "no namespace argument"
    ns_alts = list(S.alts(ns)) if ns is not None else []
    if ns_alts and all(a[:1] == ("acc",) and a[1] == "dict" for a in ns_alts):
        # built once, or once per branch of `bindings if bindings else {}`: every alternative is containers + the bindings it was given
        bsrc = lambda t: all(a == binds or a in (("dict", ()), ("acc", "dict", ())) or (a[:1] == ("bool",) and binds in a[2]) for a in S.alts(t))   # noqa: E731
        okb, uses_binds = True, False
        for one in ns_alts:
            base = [c for c in one[2] if c[0] == "many" and c[2] == S.sattr("containers") and not c[1]]
            kv = [c for c in one[2] if c[0] == "kv"]
            kv_ok = len(kv) == 1 and not kv[0][1] and S.match(kv[0][2], S.fcall("str", ("key", S.V("b", bsrc)))) is not None \
                and S.match(kv[0][3], ("val", S.V("b", bsrc))) is not None
            okb = okb and len(base) == 1 and kv_ok and len(one[2]) == 2
            uses_binds = uses_binds or (kv_ok and any(x == binds for x in S.subterms(kv[0][3])))
        okb = okb and uses_binds
    col.add(rule, "Manager.copy_expr_from#bindings-in-namespace", okb, sx.loc(ev),
            "the evaluation namespace is the target manager's containers plus, for every binding, the printed label of the old "
            "container mapped to the new reference", factb)


def check(col: Collector):
    with col.rule():
        _repr_complete(col)
    with col.rule():
        _resolvable_names(col)
    with col.rule():
        _precedence(col)
    with col.rule():
        _no_text_rewriting(col)
    with col.rule():
        _dump_load(col)
    with col.rule():
        _literal_rendering(col)
    with col.rule():
        _owner_by_identity_and_defaults(col)
