"""C11 -- printed expressions rebuild themselves: dump/load/copy_expr_from are faithful."""
from __future__ import annotations

import ast

from .. import astutil as A
from .. import pydata as PD
from ..core import AnalysisError, Collector
from ..refsmodel import ref_classes, _local_alias, resolve_local
from .common import FnCtx, fnctx, has_guard, is_method_call, is_self_call
from . import c03, c06

PROP = "C11"
FLOORS = {"C11.R1": 8, "C11.R2": 6, "C11.R3": 6, "C11.R4": 4, "C11.R5": 8, "C11.R6": 4}
META = {
    "explanation": "Every identifying field of a node is printed (repr completeness, shared with C06); every callable name a __repr__ can "
                   "print resolves in the namespace load() evaluates in (builtins + container labels); operator nodes print fully "
                   "parenthesised with operands in order and literal operands are precedence-safe; literal arguments/keys are rendered "
                   "with repr; no textual rewriting of printed forms on the copy/load path; dump emits (str(target), str(expr)) for every "
                   "ExprTask, load evaluates both sides in one namespace, builds ExprTask(lhs, rhs) and honours overwrite.",
    "decides": "completeness and re-parsability of the printed form per node class; symmetry of dump/load/copy_expr_from",
    "not_decided": "round-trip equality for all expressions and keys (value-level)",
    "assumptions": ["repr() of numeric constants and str/int keys is a Python literal that evaluates back to an equal object"],
}

LOAD_BUILTINS = set(dir(__import__("builtins")))


def _repr_complete(col, rule="C11.R1"):
    sub = Collector(col.repo, col.prop, col.tier)
    c06._same_data(sub, rule="C06.R1")
    for o in sub.obs:
        if o.construct.endswith("#hash-fields==repr-fields"):
            o.rule = rule
            o.text = "every identifying (hashed) field of the node is rendered by __repr__, so the text determines the node"
            col.obs.append(o)


def _resolvable_names(col, rule="C11.R2"):
    repo = col.repo
    base = repo.cls("BaseRef")
    m = base.module
    # how BuiltinRef prints its callable
    cx = fnctx(repo, "BuiltinRef", "__repr__")
    uses_name = any(isinstance(n, ast.Attribute) and n.attr == "__name__" for n in A.walk(cx.fn))
    if not uses_name:
        raise AnalysisError("BuiltinRef.__repr__ no longer prints op.__name__ (unrecognised shape)")
    symtab = m.consts.get("OPERATOR_SYMBOLS")
    sym_keys = {A.dotted(k) for k in symtab.keys} if isinstance(symtab, ast.Dict) else set()
    for dunder, (target, _, _) in PD.BUILTINS.items():
        if dunder not in base.methods:
            continue
        fn = base.methods[dunder]
        for c in A.calls(fn):
            if A.call_name(c) == "BuiltinRef" and len(c.args) >= 2:
                op = A.dotted(c.args[1]) or A.src(c.args[1])
                if op in sym_keys:
                    continue
                mod, _, name = op.rpartition(".")
                resolvable = mod == "builtins" and name in LOAD_BUILTINS
                col.add(rule, f"BuiltinRef.__repr__#name:{name}", resolvable, m.loc(fn),
                        f"the name printed for {op} (`{name}(...)`) resolves in the namespace load()/eval uses (builtins + container labels)",
                        f"{op} prints as bare `{name}`" + ("" if resolvable else f", which lives in module `{mod}`, not in builtins"))
    # CallRef prints function refs through repr (a ref path) or __name__
    cx = fnctx(repo, "CallRef", "__repr__")
    col.add(rule, "CallRef.__repr__#function-as-ref-path", any(isinstance(n, ast.Call) and A.call_name(n) == "repr" and A.self_attr(n.args[0]) == "_func"
                                                               for n in A.walk(cx.fn)), cx.loc(cx.fn),
            "a called function held in a container prints as its reference path", "")


def _precedence(col, rule="C11.R3"):
    repo = col.repo
    sub = Collector(repo, col.prop, col.tier)
    c06._injective(sub, rule="C06.R2")
    for o in sub.obs:
        if "parenthesised-in-order" in o.construct or "key-with-repr" in o.construct or "dot-step" in o.construct or "repr-of-literal" in o.construct \
                or "#label" in o.construct:
            o.rule = rule
            col.obs.append(o)
    # bare literal operand left of an operator binding tighter than unary minus
    cx = fnctx(repo, "BinOpExpr", "__repr__")
    rets = [n.value for n in A.walk(cx.fn) if isinstance(n, ast.Return)]
    protects = any(isinstance(n, (ast.If, ast.IfExp)) for n in A.walk(cx.fn))
    for c in repo.subclasses("BinOpExpr"):
        tok = A.const(repo.class_const(c, "_op_str"))
        if isinstance(tok, str) and PD.PRECEDENCE.get(tok, 0) > PD.PRECEDENCE["unary"]:
            own = "__repr__" in c.methods
            col.add(rule, f"{c.name}.__repr__#bare-left-literal", own or protects, c.module.loc(c.node),
                    f"a negative literal as left operand of `{tok}` (which binds tighter than unary minus) is parenthesised when printed",
                    "inherits BinOpExpr.__repr__, which prints `({lhs} ** {rhs})` with the literal bare: (-3) ** a prints `(-3 ** a)` "
                    "and reloads as -(3 ** a)")


def _literal_rendering(col, rule="C11.R6"):
    repo = col.repo
    cx = fnctx(repo, "CallRef", "__repr__")
    # positional arguments through repr()
    ok = False
    for n in A.walk(cx.fn):
        if isinstance(n, (ast.ListComp, ast.GeneratorExp)) and len(n.generators) == 1 and A.self_attr(n.generators[0].iter) == "_args":
            e = n.elt
            tv = A.target_names(n.generators[0].target)
            if isinstance(e, ast.Call) and A.call_name(e) == "repr" and [A.dotted(e.args[0])] == tv:
                ok = True
            if isinstance(e, ast.JoinedStr) and len(e.values) == 1 and isinstance(e.values[0], ast.FormattedValue) and e.values[0].conversion == ord("r"):
                ok = True
    col.add(rule, "CallRef.__repr__#positional-with-repr", ok, cx.loc(cx.fn),
            "positional call arguments are rendered with repr (string literals keep their quotes; refs print their path)", "")
    kw_repr = False
    for n in A.walk(cx.fn):
        if isinstance(n, (ast.ListComp, ast.GeneratorExp)) and len(n.generators) == 1 and A.self_attr(n.generators[0].iter) == "_kwargs":
            e = n.elt
            if isinstance(e, ast.JoinedStr):
                fv = [p for p in e.values if isinstance(p, ast.FormattedValue)]
                kw_repr = len(fv) == 2 and fv[1].conversion == ord("r")
    col.add(rule, "CallRef.__repr__#keywords-with-repr", kw_repr, cx.loc(cx.fn),
            "keyword argument values are rendered with repr", "rendered with str: a string keyword value loses its quotes "
            "(outside the property's quantifier, which has numeric keyword arguments only)", note=True)
    cx = fnctx(repo, "BuiltinRef", "__repr__")
    ok = False
    for n in A.walk(cx.fn):
        if isinstance(n, (ast.ListComp, ast.GeneratorExp)) and len(n.generators) == 1 and A.self_attr(n.generators[0].iter) == "_params":
            e = n.elt
            if isinstance(e, ast.Call) and A.call_name(e) == "repr":
                ok = True
            # a filter may only drop None (the 'not given' marker of round)
            for cond in n.generators[0].ifs:
                p = A.compare_parts(cond)
                if not (p and isinstance(p[1], ast.IsNot) and A.is_none(p[2])):
                    ok = False
    col.add(rule, "BuiltinRef.__repr__#params-with-repr", ok, cx.loc(cx.fn),
            "the extra parameters of a builtin are all printed (repr), only a None 'not given' marker is omitted", "")
    cx = fnctx(repo, "BuiltinRef", "__repr__")
    col.add(rule, "BuiltinRef.__repr__#arg-printed", any(A.self_attr(n) == "_arg" for n in A.walk(cx.fn)), cx.loc(cx.fn), "the argument is printed", "")
    cx = fnctx(repo, "ExprTask", "__repr__")
    rets = [n.value for n in A.walk(cx.fn) if isinstance(n, ast.Return)]
    ok = len(rets) == 1 and isinstance(rets[0], ast.JoinedStr)
    if ok:
        fv = [p for p in rets[0].values if isinstance(p, ast.FormattedValue)]
        lits = "".join(p.value for p in rets[0].values if isinstance(p, ast.Constant))
        ok = [A.self_attr(p.value) for p in fv] == ["taskid", "expr"] and lits.strip() == "="
    col.add(rule, "ExprTask.__repr__#target=expr", ok, cx.loc(cx.fn), "an expression task prints as `target = expr`", "")


def _no_text_rewriting(col, rule="C11.R4"):
    repo = col.repo
    for name in ("copy_expr_from", "load", "dump", "iter_expr_tasks_owner"):
        cx = fnctx(repo, "Manager", name)
        bad = [c for c in A.calls(cx.fn) if (isinstance(c.func, ast.Attribute) and c.func.attr in ("replace", "translate", "format", "sub", "subn", "split", "join", "strip", "lstrip", "rstrip"))
               or (A.call_name(c) or "").startswith("re.")]
        col.add(rule, f"Manager.{name}#no-textual-rewriting", not bad, cx.loc(cx.fn),
                "printed expressions are passed on verbatim (no str.replace / regex on the text: keys may contain a container label)",
                f"{[A.src(b)[:60] for b in bad]}")


def _dump_load(col, rule="C11.R5"):
    repo = col.repo
    # dump
    cx = fnctx(repo, "Manager", "dump")
    comp = [n for n in A.walk(cx.fn) if isinstance(n, (ast.ListComp,))]
    ok = False
    facts = ""
    if len(comp) == 1 and len(comp[0].generators) == 1:
        g = comp[0].generators[0]
        tv = A.target_names(g.target)
        e = comp[0].elt
        facts = A.src(comp[0])
        pair_ok = isinstance(e, ast.Tuple) and len(e.elts) == 2 and all(isinstance(x, ast.Call) and A.call_name(x) == "str" for x in e.elts) and \
            [A.dotted(x.args[0]) for x in e.elts] == [f"{tv[0]}.taskid", f"{tv[0]}.expr"]
        it_ok = A.src(g.iter) == "self.tasks.values()"
        if_ok = len(g.ifs) == 1 and isinstance(g.ifs[0], ast.Call) and A.call_name(g.ifs[0]) == "isinstance" and \
            [A.dotted(a) for a in g.ifs[0].args] == [tv[0], "ExprTask"]
        ok = pair_ok and it_ok and if_ok
    col.add(rule, "Manager.dump#every-ExprTask-as-(str(target),str(expr))", ok, cx.loc(cx.fn),
            "dump emits (str(taskid), str(expr)) for every ExprTask of self.tasks, filtered by nothing else", facts)
    # load
    cx = fnctx(repo, "Manager", "load")
    P = A.params(cx.fn)
    dump_p, dct_p = P[1], P[2]
    evals = [c for c in A.calls(cx.fn) if A.call_name(c) == "eval"]
    ok = len(evals) == 2 and all(len(c.args) == 3 and isinstance(c.args[1], ast.Dict) and not c.args[1].keys and A.dotted(c.args[2]) == dct_p for c in evals)
    col.add(rule, "Manager.load#both-sides-in-one-namespace", ok, cx.loc(cx.fn),
            "load evaluates target and expression text in the same namespace (empty globals => builtins, locals = the container labels)",
            f"{[A.src(c) for c in evals]}")
    loops = [n for n in A.walk(cx.fn) if isinstance(n, ast.For) and A.dotted(n.iter) == dump_p]
    ok = len(loops) == 1 and len(A.target_names(loops[0].target)) == 2
    facts = ""
    if ok:
        lhs, rhs = A.target_names(loops[0].target)
        mk = [c for c in A.calls(loops[0]) if A.call_name(c) == "ExprTask"]
        ok = len(mk) == 1 and [A.dotted(a) for a in mk[0].args] == [lhs, rhs]
        # lhs / rhs rebinding by eval of themselves
        for nm in (lhs, rhs):
            asg = [n for n in A.walk(loops[0]) if isinstance(n, ast.Assign) and A.target_names(n.targets[0]) == [nm]]
            ok = ok and len(asg) == 1 and A.call_name(asg[0].value) == "eval" and A.dotted(asg[0].value.args[0]) == nm
        facts = A.src(mk[0]) if mk else ""
    col.add(rule, "Manager.load#ExprTask(lhs,rhs)", ok, cx.loc(cx.fn),
            "each pair (lhs, rhs) of the dump becomes ExprTask(eval(lhs), eval(rhs)) -- target first", facts)
    dn = [n for n in cx.cfg.nodes.values() if n.kind == "stmt" and isinstance(n.ast, ast.Assign) and A.target_names(n.ast.targets[0]) == [dct_p]]
    okd = all(has_guard(cx.cfg, n.id, "T", lambda t: A.compare_parts(t) and isinstance(A.compare_parts(t)[1], ast.Is) and A.dotted(A.compare_parts(t)[0]) == dct_p)
              and A.dotted(n.ast.value) == "self.containers" for n in dn)
    col.add(rule, "Manager.load#default-namespace", okd, cx.loc(cx.fn), "the namespace defaults to the manager's containers only when none is given", "")
    # overwrite handling and unregister-before-register (shared with C03.R2)
    sub = Collector(repo, "C11", col.tier)
    c03._redefinition(sub, rule=rule)
    for o in sub.obs:
        if o.construct.startswith("Manager.load#"):
            o.rule = rule
            col.obs.append(o)
    # iter_expr_tasks_owner / copy_expr_from
    cx = fnctx(repo, "Manager", "iter_expr_tasks_owner")
    ys = [n for n in A.walk(cx.fn) if isinstance(n, ast.Yield)]
    ok = len(ys) == 1 and isinstance(ys[0].value, ast.Tuple) and [A.src(e) for e in ys[0].value.elts] == ["str(t.taskid)", "str(t.expr)"]
    ok = ok or (len(ys) == 1 and isinstance(ys[0].value, ast.Tuple) and len(ys[0].value.elts) == 2 and
                all(A.call_name(e) == "str" for e in ys[0].value.elts) and
                [A.dotted(e.args[0]).split(".")[-1] for e in ys[0].value.elts] == ["taskid", "expr"])
    col.add(rule, "Manager.iter_expr_tasks_owner#yields-(str(target),str(expr))", ok, cx.loc(cx.fn),
            "the definitions copied are (str(taskid), str(expr)) of the tasks under the container", "")
    cx = fnctx(repo, "Manager", "copy_expr_from")
    P = A.params(cx.fn)
    loads = cx.call_nodes(lambda c: is_self_call(c, "load"))
    ok = len(loads) == 1
    facts = ""
    if ok:
        c = cx.calls_at(loads[0], lambda c: is_self_call(c, "load"))[0]
        facts = A.src(c)
        ow = [k for k in c.keywords if k.arg == "overwrite"]
        ok = bool(ow) and A.dotted(ow[0].value) == "overwrite" or (len(c.args) >= 3 and A.dotted(c.args[2]) == "overwrite")
        src_arg = cx.resolve(c.args[0], loads[0]) if c.args else None
        def is_iter(e):
            if isinstance(e, ast.Call) and A.call_name(e) == "list" and e.args:
                e = e.args[0]
            return isinstance(e, ast.Call) and isinstance(e.func, ast.Attribute) and e.func.attr == "iter_expr_tasks_owner" and A.dotted(e.func.value) == P[1]
        ok = ok and is_iter(src_arg)
    col.add(rule, "Manager.copy_expr_from#loads-source-definitions-verbatim", ok, cx.loc(cx.fn),
            "copy_expr_from loads exactly the source manager's printed definitions, forwarding overwrite", facts)
    # bindings: label -> new ref, in the evaluation namespace
    binds = [n for n in A.walk(cx.fn) if isinstance(n, ast.Assign) and isinstance(n.targets[0], ast.Subscript)]
    okb = any(isinstance(b.targets[0].slice, ast.Call) and A.call_name(b.targets[0].slice) == "str" for b in binds)
    col.add(rule, "Manager.copy_expr_from#bindings-in-namespace", okb, cx.loc(cx.fn),
            "a rebinding maps the printed label of the old container to the new reference in the evaluation namespace", "")


def check(col: Collector):
    _repr_complete(col)
    _resolvable_names(col)
    _precedence(col)
    _no_text_rewriting(col)
    _dump_load(col)
    _literal_rendering(col)
