"""C17 -- a frozen manager's expression graph cannot change, yet values still propagate."""
from __future__ import annotations

import ast
from typing import Dict, List, Set

from .. import astutil as A
from .. import sym as S
from ..core import AnalysisError, Collector
from ..dataflow import MUTATORS
from .common import DEF_ATTRS, INDEX_ATTRS, FnCtx, SCtx, sctx
from . import c01
from .indexfx import index_effects

PROP = "C17"
FLOORS = {"C17.R1": 6, "C17.R2": 1, "C17.R3": 4, "C17.R4": 6, "C17.R5": 2, "C17.R6": 1}
META = {
    "explanation": "Every effect of a Manager method on the definitions (tasks) or a reverse index -- found on symbolic terms after "
                   "helper inlining, so aliases and helper methods are seen through, or reached by calling another Manager method "
                   "that has such an effect -- executes only on the branch of the `_tree_frozen` test whose other branch raises; "
                   "the flag is written only by __init__/freeze_tree/unfreeze_tree, which do nothing else; no code outside Manager "
                   "writes the indices; in set_value nothing is written to user data before the calls that may refuse; the "
                   "plain-value path reaches no guarded function and propagation is computed afresh from the graph. The frozen branch raises ValueError with a message whose construction cannot fail (no `%` formatting of a bare operand that may be a tuple), and constructing a task ahead of the refusal evaluates nothing.",
    "decides": "guard dominance of all graph mutations (interprocedural over Manager methods), flag ownership, ordering refuse-before-write",
    "not_decided": "'behaves as if never frozen' over histories",
    "assumptions": ["mutations of a Manager created in the same function (copy/clone) are not mutations of the frozen one",
                    "cleanup removes only empty index entries (checked), which changes no query answer"],
}

EXEMPT = {
    "__init__": "constructs the object",
    "__setstate__": "constructs the object when unpickling",
    "cleanup": "deletes only index entries proved empty by the guarding test (checked separately)",
}
FROZEN = S.sattr("_tree_frozen")
NOT_FROZEN = ("uop", "not", FROZEN)


def _manager_methods(repo):
    mg = repo.cls("Manager")
    out, seen = {}, set()
    for name, fn in mg.methods.items():
        if id(fn) in seen or name in mg.properties:
            continue
        seen.add(id(fn))
        out[name] = fn
    return out


def frozen_guarded(sx: SCtx, nid: int) -> bool:
    """nid executes only when the tree is not frozen, and the frozen branch of that test leaves by raising"""
    if not sx.under(nid, NOT_FROZEN):
        return False
    cfg = sx.cfg
    for b in sx.branches(FROZEN):
        reach = cfg.reachable(b)
        if cfg.EXIT in reach or nid in reach:
            continue
        if cfg.dominates(cfg.nodes[b].of, nid):
            return True
    return False


def classify_methods(col: Collector):
    """per Manager method: unguarded mutation sites (direct, or through calls of other methods), to a fixpoint"""
    repo = col.repo
    meths = _manager_methods(repo)
    api = set(meths) - {m for m in meths if m.startswith("_") and not m.startswith("__")}
    ctxs: Dict[str, SCtx] = {}
    direct: Dict[str, list] = {}
    for name in meths:
        try:
            sx = sctx(repo, "Manager", name, public=False)      # private helpers inlined, API methods kept as call sites
        except NotImplementedError:
            raise AnalysisError(f"Manager.{name}: unsupported statement")
        ctxs[name] = sx
        fx, unk = index_effects(sx)
        sites = [(e.nid, e.short()) for e in fx]
        for ev in sx.events:
            if ev.kind == "call" and ev.term[1] in (("glob", "setattr"), ("attr", ("glob", "object"), "__setattr__")) \
                    and len(ev.term[2]) >= 2 and ev.term[2][0] == S.SELF:
                k = ev.term[2][1]
                if k[:1] != ("const",) or k[1].strip("'\"") in DEF_ATTRS:
                    sites.append((ev.nid, f"setattr(self, {S.show(k)}, ...)"))
        direct[name] = sites
    unguarded: Dict[str, list] = {n: [] for n in ctxs}
    mutating: Set[str] = {n for n, s_ in direct.items() if s_}
    for name, sx in ctxs.items():
        for nid, desc in direct[name]:
            if not frozen_guarded(sx, nid):
                unguarded[name].append((nid, desc))
    changed = True
    while changed:
        changed = False
        for name, sx in ctxs.items():
            for ev, m in sx.calls_some(("call", ("attr", S.SELF, S.V("m")), S.ANY, S.ANY)):
                callee = m["m"]
                if callee not in ctxs or callee == name:
                    continue
                if callee in mutating and name not in mutating:
                    mutating.add(name)
                    changed = True
                if unguarded[callee] and callee not in EXEMPT and not frozen_guarded(sx, ev.nid):
                    entry = (ev.nid, f"calls self.{callee}() which mutates without the frozen guard")
                    if entry not in unguarded[name]:
                        unguarded[name].append(entry)
                        changed = True
    return ctxs, direct, unguarded, mutating


def _guard_dominance(col, rule="C17.R1"):
    ctxs, direct, unguarded, mutating = classify_methods(col)
    col.info["manager_methods_mutating_graph"] = sorted(mutating)
    for name in sorted(mutating):
        sx = ctxs[name]
        if name.startswith("_") and not name.startswith("__"):
            continue    # private helper: judged where it is inlined (or, if opaque, through the fixpoint at its call sites)
        if name in EXEMPT:
            col.ok(rule, f"Manager.{name}#exempt", sx.loc(sx.fn), f"exempt from the frozen guard: {EXEMPT[name]}", "")
            continue
        bad = unguarded[name]
        col.add(rule, f"Manager.{name}#mutations-guarded", not bad, sx.loc(bad[0][0]) if bad else sx.loc(sx.fn),
                "every mutation of the definitions / indices in this method happens only after the frozen test that raises ValueError",
                "; ".join(f"{sx.loc(n)}: {d}" for n, d in bad) or f"{len(direct[name])} direct mutation sites, all guarded")
    for must in ("register", "unregister"):
        if must not in mutating:
            raise AnalysisError(f"Manager.{must} no longer mutates the graph (anchor changed)")
    sx = ctxs.get("cleanup")
    if sx is not None:
        fx, unk = index_effects(sx)
        ok, facts = bool(fx) and not unk, ""
        for e in fx:
            mk = S.match(e.key, ("key", S.V("d"))) if e.op == "delkey" and e.key is not None else None
            if not (mk and any(c in (("empty", ("val", mk["d"])), ("uop", "not", ("val", mk["d"]))) for c in e.conds)):
                ok, facts = False, f"{e.short()} under {[S.show(c, False) for c in e.conds]}"
        col.add(rule, "Manager.cleanup#only-empty-entries", ok, sx.loc(sx.fn),
                "cleanup (not guarded) only deletes index entries whose multiset is empty", facts)


def _refuse_before_write(col, rule="C17.R2"):
    sub = Collector(col.repo, "C17", col.tier)
    c01._set_value_protocol(sub, order_rule=rule)
    for o in sub.obs:
        if o.rule == rule:
            col.obs.append(o)


def _who_may_write(col, rule="C17.R3"):
    repo = col.repo
    flag_writes = []
    foreign = []
    for m, c, fn in repo.all_functions():
        inside_manager = c is not None and c.name == "Manager"
        fresh = set()
        for n in A.walk(fn):
            if isinstance(n, ast.Assign) and isinstance(n.value, ast.Call) and A.call_name(n.value) in ("Manager", "xd.Manager", "xdeps.Manager") \
                    and not n.value.args:
                fresh |= set(A.target_names(n.targets[0]))
        for n in A.walk(fn):
            targets = []
            if isinstance(n, ast.Assign):
                targets = n.targets
            elif isinstance(n, (ast.AugAssign, ast.AnnAssign)):
                targets = [n.target]
            elif isinstance(n, ast.Delete):
                targets = n.targets
            for t in targets:
                for e in (t.elts if isinstance(t, (ast.Tuple, ast.List)) else [t]):
                    base = e
                    while isinstance(base, ast.Subscript):
                        base = base.value
                    if isinstance(base, ast.Attribute):
                        recv = A.dotted(base.value)
                        if base.attr == "_tree_frozen":
                            flag_writes.append((m, c, fn, n))
                        elif base.attr in INDEX_ATTRS or (base.attr == "tasks" and recv and recv.split(".")[-1] in ("_manager", "manager", "mgr", "mng")):
                            if inside_manager and recv == "self":
                                continue
                            if recv in fresh:
                                continue
                            foreign.append((m, c, fn, n))
            if isinstance(n, ast.Call) and isinstance(n.func, ast.Attribute) and n.func.attr in MUTATORS:
                base = n.func.value
                while isinstance(base, ast.Subscript):
                    base = base.value
                if isinstance(base, ast.Attribute) and base.attr in INDEX_ATTRS:
                    recv = A.dotted(base.value)
                    if not (inside_manager and recv == "self") and recv not in fresh:
                        foreign.append((m, c, fn, n))
            if isinstance(n, ast.Call) and A.call_name(n) in ("setattr", "object.__setattr__") and len(n.args) >= 2 \
                    and A.const(n.args[1]) == "_tree_frozen":
                flag_writes.append((m, c, fn, n))
    col.add(rule, "package#no-foreign-index-writes", not foreign, foreign[0][0].loc(foreign[0][3]) if foreign else "xdeps/",
            "no code outside Manager's own methods writes the definitions or reverse indices of a manager",
            "; ".join(f"{m.loc(n)} in {(c.name + '.') if c else ''}{fn.name}" for m, c, fn, n in foreign))
    expected = {"__init__": False, "freeze_tree": True, "unfreeze_tree": False}
    seenw = set()
    for m, c, fn, n in flag_writes:
        ok = c is not None and c.name == "Manager" and fn.name in expected and isinstance(n, ast.Assign) \
            and A.is_const(n.value, expected[fn.name])
        if ok:
            cx = FnCtx(m, c, fn)
            nid = cx.cfg.node_of(n)
            ok = nid is not None and not cx.cfg.cond_guards(nid) and cx.cfg.must_pass(cx.cfg.ENTRY, cx.cfg.EXIT, [nid])
        seenw.add(fn.name if ok else None)
        col.add(rule, f"{(c.name + '.') if c else ''}{fn.name}#writes-frozen-flag", ok, m.loc(n),
                "the frozen flag is written only by Manager.__init__ (False), freeze_tree (True) and unfreeze_tree (False), unconditionally",
                A.src(n))
    for k in expected:
        if k not in seenw:
            col.fail(rule, f"Manager.{k}#writes-frozen-flag", "xdeps/tasks.py", f"Manager.{k} sets the frozen flag to {expected[k]}", "no such write found")
    # freezing / unfreezing does nothing else: no other state is switched on or off with the flag
    for k in ("freeze_tree", "unfreeze_tree"):
        sx = sctx(repo, "Manager", k, public=True, keep=c01.ANCHORS)
        other = [S.show(t) for e in sx.of_kind("store") for t in S.alts(e.target) if t != FROZEN]
        other += [S.show(e.term) for e in sx.events if e.kind == "call" and e.term[1][:1] == ("attr",) and e.term[1][2] in MUTATORS]
        col.add(rule, f"Manager.{k}#only-the-flag", not other, sx.loc(sx.fn),
                f"{k} changes nothing but the frozen flag (a manager behaves after unfreezing as if it had never been frozen)",
                f"other state written: {other}")


def _values_still_propagate(col, rule="C17.R4"):
    ctxs, direct, unguarded, mutating = classify_methods(col)
    sv = c01.set_value_ctx(col)
    ref, value = sv.P(0), sv.P(1)
    in_tasks = ("cmp", "in", ref, S.sattr("tasks"))
    isref = [S.fcall("isinstance", value, S.ANY), S.fcall("is_ref", value)]
    bad = []
    for ev, m in sv.calls_some(("call", ("attr", S.SELF, S.V("m")), S.ANY, S.ANY)):
        if m["m"] in mutating and m["m"] != "set_value":
            if not (sv.under(ev.nid, in_tasks) or any(sv.under(ev.nid, p) for p in isref)):
                bad.append(ev.nid)
    col.add(rule, "Manager.set_value#plain-value-path-unguarded", not bad, sv.loc(bad[0]) if bad else sv.loc(sv.fn),
            "assigning a plain value to a location without an expression reaches no function that refuses when frozen",
            f"graph-mutating calls outside the two tests: {[sv.loc(b) for b in bad]}")

    def reads_flag(sx: SCtx):
        for n in sx.cfg.nodes.values():
            if n.ast is not None and n.kind in ("stmt", "test", "for", "with"):
                for part in sx.cfg.own_exprs(n.id):
                    if part is not None and S.contains(sx.sym.of(part, n.id) if isinstance(part, ast.expr) else ("opaque", ""), lambda t: t == FROZEN):
                        return True
                    if part is not None and not isinstance(part, ast.expr):
                        for x in A.walk(part):
                            if A.self_attr(x) == "_tree_frozen":
                                return True
        return False
    col.add(rule, "Manager.set_value#no-own-frozen-test", not reads_flag(sv), sv.loc(sv.fn),
            "set_value itself does not test the frozen flag (plain values must still propagate)", "")
    for name in ("run_tasks", "find_tasks", "find_taskids"):
        sx = sctx(col.repo, "Manager", name, public=True, keep=c01.ANCHORS)
        calls_mut = [S.show(ev.term) for ev, m in sx.calls_some(("call", ("attr", S.SELF, S.V("m")), S.ANY, S.ANY)) if m["m"] in mutating]
        col.add(rule, f"Manager.{name}#independent-of-frozen-flag", not reads_flag(sx) and not calls_mut, sx.loc(sx.fn),
                "propagation neither reads the frozen flag nor calls anything that mutates the graph",
                f"graph-mutating calls: {calls_mut}")
    # the schedule is recomputed from the graph on every assignment (no plan remembered from a frozen period)
    sub = Collector(col.repo, "C17", col.tier)
    c01._set_value_protocol(sub)
    c01._trigger_closure(sub, rule)
    for o in sub.obs:
        if o.construct.endswith("#trigger-set") or o.rule == rule:
            o.rule = rule
            col.obs.append(o)


def _refusal(col, rule="C17.R5"):
    """the frozen branch ends in `raise ValueError(<message>)` whose message cannot itself fail: `'... %s' % x` raises TypeError when x is
    a tuple (task identifiers may be tuples), and a call made to build the message may raise anything"""
    import ast as _ast
    repo = col.repo
    n = 0
    for name in _manager_methods(repo):
        if name.startswith("_") and not name.startswith("__"):
            continue        # private helper: judged where it is inlined
        sx = sctx(repo, "Manager", name, public=True, keep={m for m in _manager_methods(repo) if not m.startswith("_") or m.startswith("__")})
        cfg = sx.cfg
        for b in sx.branches(FROZEN):
            region = {x for x in cfg.reachable(b) | {b}}
            if cfg.EXIT in region:
                continue
            for nid in sorted(region):
                nd = cfg.nodes[nid]
                st = nd.ast
                if nd.kind != "stmt" or not isinstance(st, _ast.Raise) or st.exc is None:
                    continue
                n += 1
                exc = st.exc
                cname = A.dotted(exc.func) if isinstance(exc, _ast.Call) else A.dotted(exc)
                if cname is None:
                    raise AnalysisError(f"Manager.{name}: the exception raised in the frozen branch is not a plain class call (cannot decide)")
                col.add(rule, f"Manager.{name}#refuses-with-ValueError", cname == "ValueError", sx.loc(nid),
                        "a call refused because the tree is frozen raises ValueError", f"raises {cname}")
                hazards = []
                for x in _ast.walk(exc):
                    if isinstance(x, _ast.BinOp) and isinstance(x.op, _ast.Mod) and \
                            (isinstance(x.left, _ast.Constant) and isinstance(x.left.value, str) or isinstance(x.left, _ast.JoinedStr)) \
                            and not isinstance(x.right, (_ast.Tuple, _ast.Dict, _ast.Constant)):
                        hazards.append(f"`% {_ast.unparse(x.right)}`: TypeError if the operand is a tuple")
                col.add(rule, f"Manager.{name}#refusal-message-cannot-fail", not hazards, sx.loc(nid),
                        "building the message of the refusal cannot raise another exception in its place", "; ".join(hazards))
    col.count("frozen_refusals", n)


EVALUATING = ("_get_value", "_set_value", "run", "_run_tasks", "_eval")


def _construction_is_inert(col, rule="C17.R6"):
    """set_value / load / copy_expr_from build the ExprTask *before* register() refuses: building it must not evaluate anything (a read of a
    container that creates entries on access -- a defaultdict -- already changes the data of a call that is then refused)"""
    repo = col.repo
    run = sctx(repo, "ExprTask", "run", public=True)
    if not [ev for ev in run.of_kind("call") if ev.term[:1] == ("call",) and ev.term[1][:1] == ("attr",) and ev.term[1][2] in EVALUATING]:
        raise AnalysisError("positive control: the evaluation calls of ExprTask.run are not recognised (cannot decide)")
    def is_task(cn, depth=4):
        c = repo.classes.get(cn)
        return c is not None and (cn == "Task" or (depth > 0 and any(is_task(b, depth - 1) for b in c.base_names)))
    built = set()
    for name in _manager_methods(repo):
        sx = sctx(repo, "Manager", name, public=True, keep=set(_manager_methods(repo)))
        for ev in sx.of_kind("call"):
            t = ev.term
            if t[:1] == ("call",) and t[1][:1] == ("glob",) and is_task(t[1][1]):
                if not frozen_guarded(sx, ev.nid):
                    built.add(t[1][1])
    if "ExprTask" not in built:
        raise AnalysisError("Manager: no ExprTask construction ahead of the frozen guard found -- the rule has nothing to judge (cannot decide)")
    for cn in sorted(built):
        c = repo.classes[cn]
        init = repo.lookup(c, "__init__")
        if init is None or not init[0].module.name.startswith("xdeps"):
            continue
        ix = sctx(repo, init[0].name, "__init__", public=True)
        ev_calls = [ev for ev in ix.of_kind("call") if ev.term[:1] == ("call",) and ev.term[1][:1] == ("attr",) and ev.term[1][2] in EVALUATING]
        col.add(rule, f"{cn}.__init__#evaluates-nothing", not ev_calls, ix.loc(ev_calls[0]) if ev_calls else ix.loc(ix.fn),
                f"constructing a {cn} (done ahead of the frozen-tree refusal) reads no values and runs nothing",
                "; ".join(S.show(e.term)[:60] for e in ev_calls[:2]))


def check(col: Collector):
    with col.rule():
        _refusal(col)
    with col.rule():
        _construction_is_inert(col)
    with col.rule():
        _guard_dominance(col)
    with col.rule():
        _refuse_before_write(col)
    with col.rule():
        _who_may_write(col)
    with col.rule():
        _values_still_propagate(col)
