"""C17 -- a frozen manager's expression graph cannot change, yet values still propagate."""
from __future__ import annotations

import ast
from typing import Dict, List, Set

from .. import astutil as A
from ..core import AnalysisError, Collector
from ..dataflow import MUTATORS, base_name
from .common import DEF_ATTRS, INDEX_ATTRS, FnCtx, fnctx, has_guard, is_self_call, is_method_call
from . import c01

PROP = "C17"
FLOORS = {"C17.R1": 6, "C17.R2": 1, "C17.R3": 4, "C17.R4": 4}
META = {
    "explanation": "Every statement of a Manager method that mutates the definitions (tasks) or a reverse index -- directly, through "
                   "a local alias, or by calling another Manager method that does -- is dominated in the CFG by the branch of the "
                   "`_tree_frozen` test that does not raise; the flag is written only by __init__/freeze_tree/unfreeze_tree; no "
                   "code outside Manager writes the indices; in set_value nothing is written to user data before the calls that may "
                   "refuse; the plain-value path reaches no guarded function.",
    "decides": "guard dominance of all graph mutations (interprocedural over Manager methods), flag ownership, ordering refuse-before-write",
    "not_decided": "'behaves as if never frozen' over histories",
    "assumptions": ["mutations of a Manager created in the same function (copy/clone) are not mutations of the frozen one",
                    "cleanup removes only empty index entries (checked), which changes no query answer"],
}

EXEMPT = {
    "__init__": "constructs the object",
    "__setstate__": "constructs the object when unpickling",
    "cleanup": "deletes only index entries proved empty by the guarding test (checked separately)",
}


def _alias_roots(fn) -> Dict[str, str]:
    """local name -> manager attribute it may alias (flow-insensitive)"""
    al: Dict[str, str] = {}

    def root_attr(e):
        # expression rooted at self.X (through subscripts, .get(), .items(), list(...), getattr(self, name))
        while True:
            if isinstance(e, ast.Subscript):
                e = e.value
            elif isinstance(e, ast.Call) and isinstance(e.func, ast.Attribute) and e.func.attr in ("get", "items", "values", "setdefault"):
                e = e.func.value
            elif isinstance(e, ast.Call) and A.call_name(e) in ("list", "iter", "tuple") and e.args:
                e = e.args[0]
            elif isinstance(e, ast.Call) and A.call_name(e) == "getattr" and len(e.args) >= 2 and A.dotted(e.args[0]) == "self":
                return "*"
            else:
                break
        a = A.self_attr(e)
        if a in DEF_ATTRS:
            return a
        if isinstance(e, ast.Name) and e.id in al:
            return al[e.id]
        return None

    changed = True
    while changed:
        changed = False
        for n in A.walk(fn):
            pairs = []
            if isinstance(n, ast.Assign) and len(n.targets) == 1:
                pairs = [(n.targets[0], n.value)]
            elif isinstance(n, ast.For):
                it = n.iter
                if isinstance(it, (ast.Tuple, ast.List)):
                    for e in it.elts:
                        pairs.append((n.target, e))
                else:
                    pairs.append((n.target, it))
            for t, v in pairs:
                r = root_attr(v)
                if r:
                    for nm in A.target_names(t):
                        if nm not in al:
                            al[nm] = r
                            changed = True
    return al


def mutation_sites(cx: FnCtx):
    """[(node id, description)] of statements that mutate self.<DEF_ATTRS> directly or via alias"""
    al = _alias_roots(cx.fn)
    out = []

    def rooted(e):
        """attr if expression e denotes (part of) self.X or an alias"""
        cur = e
        while isinstance(cur, (ast.Subscript,)):
            cur = cur.value
        a = A.self_attr(cur)
        if a in DEF_ATTRS:
            return a
        if isinstance(cur, ast.Name) and cur.id in al:
            return al[cur.id]
        return None

    for nid, node in cx.cfg.nodes.items():
        if node.kind not in ("stmt", "test", "for", "with"):
            continue
        for part in cx.cfg.own_exprs(nid):
            for n in A.walk(part):
                targets = []
                if isinstance(n, ast.Assign):
                    targets = n.targets
                elif isinstance(n, (ast.AugAssign, ast.AnnAssign)):
                    targets = [n.target]
                elif isinstance(n, ast.Delete):
                    targets = n.targets
                for t in targets:
                    for e in (t.elts if isinstance(t, (ast.Tuple, ast.List)) else [t]):
                        if A.self_attr(e) in DEF_ATTRS:
                            out.append((nid, f"rebinds self.{e.attr}"))
                        elif isinstance(e, ast.Subscript) and rooted(e.value):
                            out.append((nid, f"{'deletes from' if isinstance(n, ast.Delete) else 'stores into'} {A.src(e.value)}"))
                if isinstance(n, ast.Call) and isinstance(n.func, ast.Attribute) and n.func.attr in MUTATORS:
                    if rooted(n.func.value):
                        out.append((nid, f"{A.src(n.func.value)}.{n.func.attr}(...)"))
                if isinstance(n, ast.Call) and A.call_name(n) in ("setattr", "object.__setattr__") and len(n.args) >= 2 \
                        and A.dotted(n.args[0]) == "self":
                    k = A.const(n.args[1])
                    if k in DEF_ATTRS or not isinstance(n.args[1], ast.Constant):
                        out.append((nid, f"setattr(self, {A.src(n.args[1])}, ...)"))
    return out


def _is_frozen_test(t) -> bool:
    return A.self_attr(t) == "_tree_frozen" or (A.compare_parts(t) is not None and "_tree_frozen" in A.src(t) and False)


def frozen_guarded(cx: FnCtx, nid: int) -> bool:
    """nid is dominated by the non-raising branch of `if self._tree_frozen: raise ValueError`"""
    cfg = cx.cfg
    for g in cfg.guards(nid):
        if isinstance(g.ast, ast.For):
            continue
        t = g.ast
        neg = False
        if isinstance(t, ast.UnaryOp) and isinstance(t.op, ast.Not):
            t, neg = t.operand, True
        if A.self_attr(t) != "_tree_frozen":
            continue
        safe_kind = "T" if neg else "F"
        if g.kind != safe_kind:
            continue
        # the other branch must not reach the mutation nor the normal exit: it raises
        other = [n.id for n in cfg.nodes.values() if n.of == g.of and n.kind == ("F" if safe_kind == "T" else "T")][0]
        reach = cfg.reachable(other)
        if cfg.EXIT in reach or nid in reach:
            continue
        raises = [cfg.nodes[r].ast for r in reach if cfg.nodes[r].kind == "stmt" and isinstance(cfg.nodes[r].ast, ast.Raise)]
        if raises and all(r.exc is not None and (A.call_name(r.exc) if isinstance(r.exc, ast.Call) else A.dotted(r.exc)) == "ValueError"
                          or (isinstance(r.exc, ast.Call) and isinstance(r.exc.func, ast.Name) and r.exc.func.id == "ValueError")
                          or A.src(r.exc).startswith("ValueError") or A.src(r.exc).startswith("(ValueError")
                          for r in raises):
            return True
    return False


def classify_methods(col: Collector):
    """per Manager method: list of unguarded mutation sites (direct or through calls), to a fixpoint"""
    repo = col.repo
    mg = repo.cls("Manager")
    ctxs: Dict[str, FnCtx] = {}
    direct: Dict[str, list] = {}
    seen = set()
    for name, fn in mg.methods.items():
        if id(fn) in seen:
            continue
        seen.add(id(fn))
        ctxs[name] = FnCtx(mg.module, mg, fn)
        direct[name] = mutation_sites(ctxs[name])
    unguarded: Dict[str, list] = {n: [] for n in ctxs}
    mutating: Set[str] = {n for n, s in direct.items() if s}
    for name, cx in ctxs.items():
        for nid, desc in direct[name]:
            if not frozen_guarded(cx, nid):
                unguarded[name].append((nid, desc))
    changed = True
    while changed:
        changed = False
        for name, cx in ctxs.items():
            for nid in cx.call_nodes(lambda c: is_self_call(c)):
                for c in cx.calls_at(nid, lambda c: is_self_call(c)):
                    callee = c.func.attr
                    if callee not in ctxs or callee == name:
                        continue
                    if callee in mutating and name not in mutating:
                        mutating.add(name)
                        changed = True
                    if unguarded[callee] and callee not in EXEMPT and not frozen_guarded(cx, nid):
                        entry = (nid, f"calls self.{callee}() which mutates without the frozen guard")
                        if entry not in unguarded[name]:
                            unguarded[name].append(entry)
                            changed = True
    return ctxs, direct, unguarded, mutating


def _guard_dominance(col, rule="C17.R1"):
    ctxs, direct, unguarded, mutating = classify_methods(col)
    col.info["manager_methods_mutating_graph"] = sorted(mutating)
    for name in sorted(mutating):
        cx = ctxs[name]
        if name in EXEMPT:
            col.ok(rule, f"Manager.{name}#exempt", cx.loc(cx.fn), f"exempt from the frozen guard: {EXEMPT[name]}", "")
            continue
        bad = unguarded[name]
        col.add(rule, f"Manager.{name}#mutations-guarded", not bad, cx.loc(bad[0][0]) if bad else cx.loc(cx.fn),
                "every mutation of the definitions / indices in this method happens only after the frozen test that raises ValueError",
                "; ".join(f"{cx.loc(n)}: {d}" for n, d in bad) or f"{len(direct[name])} direct mutation sites, all guarded")
    for must in ("register", "unregister"):
        if must not in mutating:
            raise AnalysisError(f"Manager.{must} no longer mutates the graph (anchor changed)")
    # cleanup exemption condition
    cx = ctxs.get("cleanup")
    if cx is not None:
        sites = direct["cleanup"]
        ok = bool(sites)
        for nid, desc in sites:
            st = cx.cfg.nodes[nid].ast

            def empty_test(t):
                p = A.compare_parts(t)
                return bool(p and isinstance(p[1], ast.Eq) and isinstance(p[0], ast.Call) and A.call_name(p[0]) == "len"
                            and A.is_const(p[2], 0))
            if not (isinstance(st, ast.Delete) and has_guard(cx.cfg, nid, "T", empty_test)):
                ok = False
        col.add(rule, "Manager.cleanup#only-empty-entries", ok, cx.loc(cx.fn),
                "cleanup (not guarded) only deletes index entries whose multiset is empty", f"{[d for _, d in sites]}")


def _refuse_before_write(col, rule="C17.R2"):
    sub = Collector(col.repo, "C17", col.tier)
    c01._set_value_protocol(sub)
    for o in sub.obs:
        if o.construct.endswith("#graph-changes-precede-write"):
            o.rule = rule
            col.obs.append(o)


def _who_may_write(col, rule="C17.R3"):
    repo = col.repo
    flag_writes = []
    foreign = []
    for m, c, fn in repo.all_functions():
        inside_manager = c is not None and c.name == "Manager"
        fresh = set()
        for n in A.walk(fn):
            if isinstance(n, ast.Assign) and isinstance(n.value, ast.Call) and A.call_name(n.value) in ("Manager", "xd.Manager", "xdeps.Manager") \
                    and not n.value.args:
                fresh |= set(A.target_names(n.targets[0]))
        for n in A.walk(fn):
            targets = []
            if isinstance(n, ast.Assign):
                targets = n.targets
            elif isinstance(n, (ast.AugAssign, ast.AnnAssign)):
                targets = [n.target]
            elif isinstance(n, ast.Delete):
                targets = n.targets
            for t in targets:
                for e in (t.elts if isinstance(t, (ast.Tuple, ast.List)) else [t]):
                    base = e
                    while isinstance(base, ast.Subscript):
                        base = base.value
                    if isinstance(base, ast.Attribute):
                        recv = A.dotted(base.value)
                        if base.attr == "_tree_frozen":
                            flag_writes.append((m, c, fn, n))
                        elif base.attr in INDEX_ATTRS or (base.attr == "tasks" and recv and recv.split(".")[-1] in ("_manager", "manager", "mgr", "mng")):
                            if inside_manager and recv == "self":
                                continue
                            if recv in fresh:
                                continue
                            foreign.append((m, c, fn, n))
            if isinstance(n, ast.Call) and isinstance(n.func, ast.Attribute) and n.func.attr in MUTATORS:
                base = n.func.value
                while isinstance(base, ast.Subscript):
                    base = base.value
                if isinstance(base, ast.Attribute) and base.attr in INDEX_ATTRS:
                    recv = A.dotted(base.value)
                    if not (inside_manager and recv == "self") and recv not in fresh:
                        foreign.append((m, c, fn, n))
            if isinstance(n, ast.Call) and A.call_name(n) in ("setattr", "object.__setattr__") and len(n.args) >= 2 \
                    and A.const(n.args[1]) == "_tree_frozen":
                flag_writes.append((m, c, fn, n))
    col.add(rule, "package#no-foreign-index-writes", not foreign, foreign[0][0].loc(foreign[0][3]) if foreign else "xdeps/",
            "no code outside Manager's own methods writes the definitions or reverse indices of a manager",
            "; ".join(f"{m.loc(n)} in {(c.name + '.') if c else ''}{fn.name}" for m, c, fn, n in foreign))
    expected = {"__init__": False, "freeze_tree": True, "unfreeze_tree": False}
    seenw = set()
    for m, c, fn, n in flag_writes:
        ok = c is not None and c.name == "Manager" and fn.name in expected and isinstance(n, ast.Assign) \
            and A.is_const(n.value, expected[fn.name])
        if ok:
            # unconditional in its method
            cx = FnCtx(m, c, fn)
            nid = cx.cfg.node_of(n)
            ok = nid is not None and not cx.cfg.guards(nid) and cx.cfg.must_pass(cx.cfg.ENTRY, cx.cfg.EXIT, [nid])
        seenw.add(fn.name if ok else None)
        col.add(rule, f"{(c.name + '.') if c else ''}{fn.name}#writes-frozen-flag", ok, m.loc(n),
                "the frozen flag is written only by Manager.__init__ (False), freeze_tree (True) and unfreeze_tree (False), unconditionally",
                A.src(n))
    for k in expected:
        if k not in seenw:
            col.fail(rule, f"Manager.{k}#writes-frozen-flag", "xdeps/tasks.py", f"Manager.{k} sets the frozen flag to {expected[k]}", "no such write found")


def _values_still_propagate(col, rule="C17.R4"):
    repo = col.repo
    ctxs, direct, unguarded, mutating = classify_methods(col)
    sv = ctxs["set_value"]
    P = A.params(sv.fn)
    ref_p, val_p = P[1], P[2]

    def in_tasks(t):
        p = A.compare_parts(t)
        return bool(p and isinstance(p[1], ast.In) and A.dotted(p[0]) == ref_p and A.dotted(p[2]) == "self.tasks")

    def is_ref_test(t):
        return isinstance(t, ast.Call) and A.call_name(t) in ("isinstance", "is_ref") and t.args and A.dotted(t.args[0]) == val_p
    bad = []
    for nid in sv.call_nodes(lambda c: is_self_call(c) and c.func.attr in mutating and c.func.attr not in ("set_value",)):
        if not (has_guard(sv.cfg, nid, "T", in_tasks) or has_guard(sv.cfg, nid, "T", is_ref_test)):
            bad.append(nid)
    col.add(rule, "Manager.set_value#plain-value-path-unguarded", not bad, sv.loc(bad[0]) if bad else sv.loc(sv.fn),
            "assigning a plain value to a location without an expression reaches no function that refuses when frozen",
            f"graph-mutating calls outside the two tests: {[sv.loc(b) for b in bad]}")
    ft = [n for n in A.walk(sv.fn) if A.self_attr(n) == "_tree_frozen"]
    col.add(rule, "Manager.set_value#no-own-frozen-test", not ft, sv.loc(ft[0]) if ft else sv.loc(sv.fn),
            "set_value itself does not test the frozen flag (plain values must still propagate)", "")
    for name in ("run_tasks", "find_tasks", "find_taskids"):
        cx = ctxs[name]
        ft = [n for n in A.walk(cx.fn) if isinstance(n, ast.Attribute) and n.attr == "_tree_frozen"]
        calls_mut = [c for c in A.calls(cx.fn) if is_self_call(c) and c.func.attr in mutating]
        col.add(rule, f"Manager.{name}#independent-of-frozen-flag", not ft and not calls_mut, cx.loc(cx.fn),
                "propagation neither reads nor writes the frozen flag and calls nothing that mutates the graph",
                f"flag uses: {len(ft)}, graph-mutating calls: {[A.src(c) for c in calls_mut]}")


def check(col: Collector):
    _guard_dominance(col)
    _refuse_before_write(col)
    _who_may_write(col)
    _values_still_propagate(col)
